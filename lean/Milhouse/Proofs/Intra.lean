import Milhouse.Proofs.Inv
import Milhouse.Model.Collection
/-!
# C09 — self-deduplication (`intra_rebase`) preserves meaning

Main results (hash assumptions `CollisionFree'`, `NoZeroNode` are explicit hypotheses):

* `sHash'_canon_inj` — canonical trees of EQUAL length with equal hashes are equal (false without
  equal lengths, see the `example` in `IntraEx`: that is the defect fixed in `intra_rebase`).
* `treeHash_ok'` — sequential `tree_hash` is correct under `HeapOK` (local copy).
* `intraRebase_post` / `intraRebase_shape` — on a canonical tree with valid memo store and valid
  `known` map, `intraRebase` never errors, the action preserves the shape, `known` stays valid,
  the memo store stays valid and old memos only go from absent to their true hash.
* `C09_intra_preserves_meaning`, `C09_intra_beq` — collection level.
* `intraRebase_shares` — two equal full halves end up as the very same node.
* namespace `IntraEx` — satisfiability of the hash assumptions (free term algebra) and concrete
  runs (`[0;6]` at depth 3, zero-padded right edge colliding with a full subtree; partially filled
  memos; pending writes).

Helper names carry a prime / `intra` prefix where a parallel proof file defines the same notion
(`sHash'`, `trueHash_congr'`, `IExt`, `intraCombine`, …).
-/
namespace Milhouse
variable {T H : Type}

/-! ## Hash assumptions (explicit hypotheses, never axioms) -/

structure CollisionFree' (E : Elem T H) (A : HashAlg H) : Prop where
  h2_inj : ∀ a b c d, A.h2 a b = A.h2 c d → a = c ∧ b = d
  leaf_inj : ∀ v w, E.leafHash v = E.leafHash w → v = w
  pack_inj : ∀ vs ws, vs.length = ws.length → E.packHash vs = E.packHash ws → vs = ws

def NoZeroNode (A : HashAlg H) : Prop := ∀ a b, A.h2 a b ≠ A.zero

/-! ## `trueHash` only depends on the shape -/

def sHash' (E : Elem T H) (A : HashAlg H) : Shape T → H
  | .leaf v => E.leafHash v
  | .packed vs => E.packHash vs
  | .zero d => zeroHash A d
  | .node l r => A.h2 (sHash' E A l) (sHash' E A r)

theorem trueHash_eq_sHash' (E : Elem T H) (A : HashAlg H) (t : Tree T) :
    trueHash E A t = sHash' E A t.erase := by
  induction t with
  | leaf id v => rfl
  | packed id vs => rfl
  | zero id d => rfl
  | node id l r ihl ihr => simp only [trueHash, Tree.erase, sHash', ihl, ihr]

theorem trueHash_congr' (E : Elem T H) (A : HashAlg H) {s t : Tree T} (h : s.erase = t.erase) :
    trueHash E A s = trueHash E A t := by
  rw [trueHash_eq_sHash', trueHash_eq_sHash', h]

/-! ## collision freedom for canonical trees of EQUAL length -/

theorem sHash'_canon_inj {E : Elem T H} {A : HashAlg H}
    (cf : CollisionFree' E A) :
    ∀ (d : Nat) (xs ys : List T), xs.length = ys.length → xs.length ≤ cap E.pf d →
      sHash' E A (canon E.pf d xs) = sHash' E A (canon E.pf d ys) → xs = ys := by
  intro d
  induction d with
  | zero =>
    intro xs ys hl hc hh
    cases xs with
    | nil => cases ys with
      | nil => rfl
      | cons y ys => simp at hl
    | cons x xs =>
      cases ys with
      | nil => simp at hl
      | cons y ys =>
        cases hp : E.pf with
        | none =>
          rw [hp] at hh hc
          simp [cap, lcap] at hc
          subst hc
          simp at hl
          have : ys = [] := by cases ys <;> simp_all
          subst this
          simp only [canon, sHash'] at hh
          rw [cf.leaf_inj _ _ hh]
        | some p =>
          rw [hp] at hh
          simp only [canon, sHash'] at hh
          exact cf.pack_inj _ _ hl hh
  | succ d ih =>
    intro xs ys hl hc hh
    rw [cap_succ] at hc
    cases xs with
    | nil => cases ys with
      | nil => rfl
      | cons y ys => simp at hl
    | cons x xs =>
      cases ys with
      | nil => simp at hl
      | cons y ys =>
        rw [canon_succ_cons, canon_succ_cons] at hh
        simp only [sHash'] at hh
        obtain ⟨h1, h2⟩ := cf.h2_inj _ _ _ _ hh
        have e1 := ih _ _ (by simp only [List.length_take, hl]) (by
          simp only [List.length_take]; omega) h1
        have e2 := ih _ _ (by simp only [List.length_drop, hl]) (by
          simp only [List.length_drop]; omega) h2
        rw [← List.take_append_drop (cap E.pf d) (x :: xs), e1, e2, List.take_append_drop]

/-! ## sequential hashing is correct under `HeapOK` -/

/-- how the registry and the memo store may evolve: ids below `h.next` keep their meaning, no id is
ever freed, and an old memo only ever changes from "absent" to the true hash of its node. -/
structure IExt (E : Elem T H) (A : HashAlg H) (f : Registry T) (h : Heap H)
    (f' : Registry T) (h' : Heap H) : Prop where
  agree : ∀ i, i < h.next → f' i = f i
  next_le : h.next ≤ h'.next
  memo : ∀ i, i < h.next → h'.read A.zero i = h.read A.zero i ∨
    (h.read A.zero i = A.zero ∧ ∃ s, f i = some s ∧ h'.read A.zero i = trueHash E A s)

theorem IExt.refl (E : Elem T H) (A : HashAlg H) (f : Registry T) (h : Heap H) : IExt E A f h f h :=
  ⟨fun _ _ => rfl, Nat.le_refl _, fun _ _ => Or.inl rfl⟩

theorem IExt.trans {E : Elem T H} {A : HashAlg H} {f f1 f2 : Registry T} {h h1 h2 : Heap H}
    (a : IExt E A f h f1 h1) (b : IExt E A f1 h1 f2 h2) : IExt E A f h f2 h2 := by
  refine ⟨fun i hi => ?_, Nat.le_trans a.next_le b.next_le, fun i hi => ?_⟩
  · rw [b.agree i (Nat.lt_of_lt_of_le hi a.next_le), a.agree i hi]
  · have hi1 := Nat.lt_of_lt_of_le hi a.next_le
    rcases a.memo i hi with e1 | ⟨z1, s, hs, e1⟩
    · rcases b.memo i hi1 with e2 | ⟨z2, s, hs, e2⟩
      · left; rw [e2, e1]
      · right; refine ⟨by rw [← e1]; exact z2, s, by rw [← a.agree i hi]; exact hs, e2⟩
    · rcases b.memo i hi1 with e2 | ⟨z2, s', hs', e2⟩
      · right; exact ⟨z1, s, hs, by rw [e2, e1]⟩
      · right
        rw [a.agree i hi, hs] at hs'
        cases hs'
        exact ⟨z1, s, hs, e2⟩

theorem Registered.imono {E : Elem T H} {A : HashAlg H} {f f' : Registry T} {h h' : Heap H}
    (hok : HeapOK E A f h) (e : IExt E A f h f' h') {t : Tree T} (ht : Registered f t) :
    Registered f' t := by
  intro s hs
  have := ht s hs
  rw [e.agree _ (hok.bound _ _ this)]; exact this

theorem treeHash_ok' [DecidableEq H] {E : Elem T H} {A : HashAlg H} {f : Registry T} :
    ∀ (t : Tree T) (h : Heap H), HeapOK E A f h → Registered f t →
      (treeHash E A h t).1 = trueHash E A t ∧ HeapOK E A f (treeHash E A h t).2 ∧
      (treeHash E A h t).2.next = h.next ∧ IExt E A f h f (treeHash E A h t).2 := by
  have wr : ∀ (h : Heap H) (id : Nat) (s : Tree T), HeapOK E A f h → f id = some s →
      HeapOK E A f (h.write id (trueHash E A s)) ∧ IExt E A f h f (h.write id (trueHash E A s)) := by
    intro h id s hok hf
    have hb := hok.bound _ _ hf
    refine ⟨⟨fun i s' hs' => by rw [Heap.next_write]; exact hok.bound _ _ hs', fun i s' hs' => ?_⟩,
      ⟨fun _ _ => rfl, by rw [Heap.next_write]; exact Nat.le_refl _, fun i hi => ?_⟩⟩
    · by_cases hi : id = i
      · subst hi; rw [hf] at hs'; cases hs'
        right; exact Heap.read_write_same _ _ _ _ hb
      · rw [Heap.read_write_other _ _ _ _ _ hi]; exact hok.memo _ _ hs'
    · by_cases hii : id = i
      · subst hii
        rcases hok.memo _ _ hf with hz | ht
        · right; exact ⟨hz, s, hf, Heap.read_write_same _ _ _ _ hb⟩
        · left; rw [ht]; exact Heap.read_write_same _ _ _ _ hb
      · left; exact Heap.read_write_other _ _ _ _ _ hii
  intro t
  induction t with
  | leaf id v =>
    intro h hok hr
    have hf := hr.self
    simp only [Tree.id] at hf
    simp only [treeHash]
    split
    · rename_i hne
      rcases hok.memo _ _ hf with hz | ht
      · exact absurd hz hne
      · exact ⟨ht, hok, rfl, IExt.refl _ _ _ _⟩
    · rename_i hz
      obtain ⟨a, b⟩ := wr h id _ hok hf
      exact ⟨rfl, a, Heap.next_write _ _ _, b⟩
  | packed id vs =>
    intro h hok hr
    have hf := hr.self
    simp only [Tree.id] at hf
    simp only [treeHash]
    split
    · rename_i hne
      rcases hok.memo _ _ hf with hz | ht
      · exact absurd hz hne
      · exact ⟨ht, hok, rfl, IExt.refl _ _ _ _⟩
    · rename_i hz
      obtain ⟨a, b⟩ := wr h id _ hok hf
      exact ⟨rfl, a, Heap.next_write _ _ _, b⟩
  | zero id d =>
    intro h hok hr
    exact ⟨rfl, hok, rfl, IExt.refl _ _ _ _⟩
  | node id l r ihl ihr =>
    intro h hok hr
    have hf := hr.self
    simp only [Tree.id] at hf
    simp only [treeHash]
    split
    · rename_i hne
      rcases hok.memo _ _ hf with hz | ht
      · exact absurd hz hne
      · exact ⟨ht, hok, rfl, IExt.refl _ _ _ _⟩
    · rename_i hz
      obtain ⟨l1, l2, l3, l4⟩ := ihl h hok hr.node_left
      obtain ⟨r1, r2, r3, r4⟩ := ihr _ l2 hr.node_right
      obtain ⟨a, b⟩ := wr _ id _ r2 hf
      simp only [trueHash] at a b
      rw [l1, r1]
      exact ⟨rfl, a, by rw [Heap.next_write, r3, l3], (l4.trans r4).trans b⟩

/-! ## `intraRebase`, one step -/

def IntraAction.pick : IntraAction T → Tree T → Tree T
  | .noop, t => t
  | .replace t', _ => t'

@[simp] theorem IntraAction.pick_replace (t' t : Tree T) : (IntraAction.replace t').pick t = t' := rfl
@[simp] theorem IntraAction.pick_noop (t : Tree T) : (IntraAction.noop).pick t = t := rfl

/-- rebuilding a node from the actions of its two children. -/
def intraCombine (hash : H) (l r : Tree T) (la ra : IntraAction T) (h : Heap H) :
    IntraAction T × Heap H :=
  match la, ra with
  | .noop, .noop => (.noop, h)
  | _, _ => (.replace (.node h.next (la.pick l) (ra.pick r)), (h.alloc hash).2)

/-- the tail of `intraRebase` on a node, after both recursive calls. -/
def intraFinish [DecidableEq H] (dd : Nat) (hash : H) (full : Bool) (orig l r : Tree T)
    (la ra : IntraAction T) (known : Known T H) (h : Heap H) :
    Except Err (IntraAction T × Known T H × Heap H) :=
  let res := intraCombine hash l r la ra h
  if full then
    match Known.get? known dd hash with
    | some _ => .error .intraRebaseRepeatVisit
    | none => .ok (res.1, ((dd, hash), res.1.pick orig) :: known, res.2)
  else .ok (res.1, known, res.2)

theorem intraRebase_node [DecidableEq H] (E : Elem T H) (A : HashAlg H) (h : Heap H)
    (known : Known T H) (id : Nat) (l r : Tree T) (d length : Nat) :
    intraRebase E A h known (.node id l r) (d+1) length =
      (let hh := treeHash E A h (.node id l r)
       if hh.1 = A.zero then .error .intraRebaseZeroHash
       else
        let maxLeft := 2 ^ (d + pdOf E.pf)
        let full := (length - min length maxLeft == maxLeft)
        match (if full then Known.get? known (d+1) hh.1 else none) with
        | some t => .ok (.replace t, known, hh.2)
        | none =>
          match intraRebase E A hh.2 known l d (min length maxLeft) with
          | .error e => .error e
          | .ok (la, known1, h2) =>
            match intraRebase E A h2 known1 r d (length - min length maxLeft) with
            | .error e => .error e
            | .ok (ra, known2, h3) =>
              intraFinish (d+1) hh.1 full (.node id l r) l r la ra known2 h3) := by
  rw [intraRebase]
  generalize treeHash E A h (.node id l r) = hh
  obtain ⟨hash, h1⟩ := hh
  dsimp only
  by_cases hz : hash = A.zero
  · simp only [hz, if_true]
  simp only [hz, if_false]
  cases (if (length - min length (2 ^ (d + pdOf E.pf)) == 2 ^ (d + pdOf E.pf)) = true
      then Known.get? known (d+1) hash else none) with
  | some t => rfl
  | none =>
    dsimp only
    cases intraRebase E A h1 known l d (min length (2 ^ (d + pdOf E.pf))) with
    | error e => rfl
    | ok p =>
      obtain ⟨la, known1, h2⟩ := p
      dsimp only
      cases intraRebase E A h2 known1 r d (length - min length (2 ^ (d + pdOf E.pf))) with
      | error e => rfl
      | ok p =>
        obtain ⟨ra, known2, h3⟩ := p
        dsimp only
        cases la <;> cases ra <;> rfl

/-! ## the `known` map -/

/-- a valid `known_subtrees` map: every entry `((d, x), s)` is a registered FULL canonical subtree
of depth `d` whose true hash is `x`. -/
def KnownOK (E : Elem T H) (A : HashAlg H) (f : Registry T) (known : Known T H) : Prop :=
  ∀ d x s, ((d, x), s) ∈ known → Registered f s ∧ trueHash E A s = x ∧
    ∃ ys : List T, ys.length = cap E.pf d ∧ s.erase = canon E.pf d ys

theorem Known.get?_some [DecidableEq H] {k : Known T H} {d : Nat} {x : H} {s : Tree T}
    (h : Known.get? k d x = some s) : ((d, x), s) ∈ k := by
  induction k with
  | nil => simp [Known.get?] at h
  | cons e rest ih =>
    obtain ⟨⟨d', x'⟩, t⟩ := e
    simp only [Known.get?] at h
    split at h
    · rename_i hc
      obtain ⟨rfl, rfl⟩ := hc
      cases h
      exact List.mem_cons_self
    · exact List.mem_cons_of_mem _ (ih h)

theorem Known.get?_none [DecidableEq H] {k : Known T H} {d : Nat} {x : H} :
    Known.get? k d x = none ↔ ∀ s, ((d, x), s) ∉ k := by
  induction k with
  | nil => simp [Known.get?]
  | cons e rest ih =>
    obtain ⟨⟨d', x'⟩, t⟩ := e
    simp only [Known.get?]
    split
    · rename_i hc
      obtain ⟨rfl, rfl⟩ := hc
      constructor
      · intro hh; cases hh
      · intro hh; exact absurd List.mem_cons_self (hh t)
    · rename_i hc
      rw [ih]
      constructor
      · intro hh s hm
        rcases List.mem_cons.1 hm with e | hm
        · cases e; exact hc ⟨rfl, rfl⟩
        · exact hh s hm
      · intro hh s hm
        exact hh s (List.mem_cons_of_mem _ hm)

theorem KnownOK.mono {E : Elem T H} {A : HashAlg H} {f f' : Registry T} {h h' : Heap H}
    (hok : HeapOK E A f h) (e : IExt E A f h f' h') {k : Known T H} (hk : KnownOK E A f k) :
    KnownOK E A f' k := by
  intro d x s hm
  obtain ⟨a, b, c⟩ := hk d x s hm
  exact ⟨a.imono hok e, b, c⟩

/-! ## allocating a rebuilt node -/

theorem intraCombine_post {E : Elem T H} {A : HashAlg H} {f : Registry T} {h : Heap H}
    (hok : HeapOK E A f h) (id : Nat) (l r : Tree T) (la ra : IntraAction T) (hash : H)
    (hl : Registered f (la.pick l)) (hr : Registered f (ra.pick r))
    (el : (la.pick l).erase = l.erase) (er : (ra.pick r).erase = r.erase)
    (horig : Registered f (.node id l r)) (hhash : hash = trueHash E A (.node id l r)) :
    ∃ f', IExt E A f h f' (intraCombine hash l r la ra h).2 ∧
      HeapOK E A f' (intraCombine hash l r la ra h).2 ∧
      ((intraCombine hash l r la ra h).1.pick (.node id l r)).erase = (Tree.node id l r).erase ∧
      Registered f' ((intraCombine hash l r la ra h).1.pick (.node id l r)) := by
  by_cases hn : la = .noop ∧ ra = .noop
  · obtain ⟨rfl, rfl⟩ := hn
    exact ⟨f, IExt.refl _ _ _ _, hok, rfl, horig⟩
  · have hc : intraCombine hash l r la ra h =
        (.replace (.node h.next (la.pick l) (ra.pick r)), (h.alloc hash).2) := by
      cases la <;> cases ra <;> first | (exfalso; exact hn ⟨rfl, rfl⟩) | rfl
    rw [hc]
    simp only [IntraAction.pick_replace]
    let n : Tree T := .node h.next (la.pick l) (ra.pick r)
    have hne : n.erase = (Tree.node id l r).erase := by
      simp only [n, Tree.erase, el, er]
    have hbelow : ∀ t : Tree T, Registered f t → ∀ s ∈ t.subtrees, s.id ≠ h.next := by
      intro t ht s hs
      exact Nat.ne_of_lt (hok.bound _ _ (ht s hs))
    refine ⟨fun i => if i = h.next then some n else f i, ⟨?_, ?_, ?_⟩, ⟨?_, ?_⟩, hne, ?_⟩
    · intro i hi; simp only [Nat.ne_of_lt hi, if_false]
    · rw [Heap.next_alloc]; exact Nat.le_succ _
    · intro i hi; left; exact Heap.read_alloc_old _ _ _ _ hi
    · intro i s hs
      rw [Heap.next_alloc]
      by_cases hi : i = h.next
      · omega
      · simp only [hi, if_false] at hs
        exact Nat.lt_succ_of_lt (hok.bound _ _ hs)
    · intro i s hs
      by_cases hi : i = h.next
      · subst hi
        simp only [if_true] at hs
        cases hs
        right
        have := Heap.read_alloc_new h A.zero hash
        rw [Heap.alloc_fst] at this
        rw [this, hhash]
        exact (trueHash_congr' E A hne).symm
      · simp only [hi, if_false] at hs
        rw [Heap.read_alloc_old _ _ _ _ (hok.bound _ _ hs)]
        exact hok.memo _ _ hs
    · intro s hs
      simp only [Tree.subtrees, List.mem_cons, List.mem_append] at hs
      rcases hs with rfl | hs | hs
      · simp only [Tree.id, if_true, n]
      · simp only [hbelow _ hl s hs, if_false]; exact hl s hs
      · simp only [hbelow _ hr s hs, if_false]; exact hr s hs

/-! ## the core: `intraRebase` on a canonical tree -/

theorem canon_succ_of_ne_nil' (pf : Option Nat) (d : Nat) (xs : List T) (hx : xs ≠ []) :
    canon pf (d+1) xs =
      .node (canon pf d (xs.take (cap pf d))) (canon pf d (xs.drop (cap pf d))) := by
  cases xs with
  | nil => exact absurd rfl hx
  | cons x rest => exact canon_succ_cons pf d x rest

/-- a canonical tree of depth 0 is never a `node`. -/
theorem canon_zero_ne_node' (pf : Option Nat) (xs : List T) (a b : Shape T) :
    canon pf 0 xs ≠ .node a b := by
  cases xs with
  | nil => simp [canon]
  | cons x rest => cases pf <;> simp [canon]

/-- everything `intraRebase` guarantees about its result `(act, known', h')` (with the extended
registry `f'`). `act.pick t` is the tree that stands for `t` afterwards. -/
structure IntraPost [DecidableEq H] (E : Elem T H) (A : HashAlg H) (f : Registry T) (h : Heap H)
    (known : Known T H) (t : Tree T) (d length : Nat) (act : IntraAction T) (known' : Known T H)
    (h' : Heap H) (f' : Registry T) : Prop where
  ext : IExt E A f h f' h'
  hok : HeapOK E A f' h'
  kok : KnownOK E A f' known'
  erase : (act.pick t).erase = t.erase
  reg : Registered f' (act.pick t)
  keys : ∀ k s, (k, s) ∈ known' → (k, s) ∈ known ∨ k.1 ≤ d
  sub : ∀ e, e ∈ known → e ∈ known'
  head : 0 < d → length = cap E.pf d →
    Known.get? known' d (trueHash E A t) = some (act.pick t)

theorem IntraPost.trivial [DecidableEq H] {E : Elem T H} {A : HashAlg H} {f : Registry T}
    {h : Heap H} {known : Known T H} {t : Tree T} {d length : Nat}
    (hok : HeapOK E A f h) (hr : Registered f t) (hk : KnownOK E A f known)
    (hhead : ¬ (0 < d ∧ length = cap E.pf d)) :
    IntraPost E A f h known t d length .noop known h f :=
  ⟨IExt.refl _ _ _ _, hok, hk, rfl, hr, fun _ _ hm => Or.inl hm, fun _ hm => hm,
    fun h1 h2 => absurd ⟨h1, h2⟩ hhead⟩

theorem intraRebase_post [DecidableEq H] {E : Elem T H} {A : HashAlg H} (hpf : PfOK E.pf)
    (cf : CollisionFree' E A) (nz : NoZeroNode A) :
    ∀ (d : Nat) (t : Tree T) (xs : List T) (f : Registry T) (h : Heap H) (known : Known T H),
      HeapOK E A f h → Registered f t → t.erase = canon E.pf d xs → xs.length ≤ cap E.pf d →
      KnownOK E A f known →
      ∃ act known' h' f', intraRebase E A h known t d xs.length = .ok (act, known', h') ∧
        IntraPost E A f h known t d xs.length act known' h' f' := by
  intro d
  induction d with
  | zero =>
    intro t xs f h known hok hr he hlen hk
    have : intraRebase E A h known t 0 xs.length = .ok (.noop, known, h) := by
      cases t with
      | node id l r => exact absurd he.symm (canon_zero_ne_node' _ _ _ _)
      | leaf id v => simp [intraRebase]
      | packed id v => simp [intraRebase]
      | zero id v => simp [intraRebase]
    exact ⟨_, _, _, f, this, .trivial hok hr hk (by omega)⟩
  | succ d ih =>
    intro t xs f h known hok hr he hlen hk
    have hc := cap_pos E.pf hpf d
    have hce := cap_eq_pow E.pf hpf d
    have hcs := cap_succ E.pf d
    by_cases hx : xs = []
    · subst hx
      rw [canon_nil] at he
      have : intraRebase E A h known t (d+1) ([] : List T).length = .ok (.noop, known, h) := by
        cases t with
        | node id l r => simp [Tree.erase] at he
        | leaf id v => simp [intraRebase]
        | packed id v => simp [intraRebase]
        | zero id v => simp [intraRebase]
      exact ⟨_, _, _, f, this, .trivial hok hr hk (by simp only [List.length_nil]; omega)⟩
    · rw [canon_succ_of_ne_nil' _ _ _ hx] at he
      cases t with
      | leaf id v => simp [Tree.erase] at he
      | packed id v => simp [Tree.erase] at he
      | zero id v => simp [Tree.erase] at he
      | node id l r =>
        simp only [Tree.erase, Shape.node.injEq] at he
        obtain ⟨hel, her⟩ := he
        obtain ⟨hh1, hh2, hh3, hh4⟩ := treeHash_ok' (.node id l r) h hok hr
        have hnz : ¬ (treeHash E A h (.node id l r)).1 = A.zero := by
          rw [hh1]; exact nz _ _
        have hltake : (xs.take (cap E.pf d)).length = min xs.length (cap E.pf d) := by
          rw [List.length_take, Nat.min_comm]
        have hldrop : (xs.drop (cap E.pf d)).length = xs.length - min xs.length (cap E.pf d) := by
          rw [List.length_drop]; omega
        obtain ⟨la, k1, h2, f1, e1, p1⟩ := ih l (xs.take (cap E.pf d)) f _ known hh2
          hr.node_left hel (by omega) hk
        have hr1 : Registered f1 r := hr.node_right.imono hh2 p1.ext
        obtain ⟨ra, k2, h3, f2, e2, p2⟩ := ih r (xs.drop (cap E.pf d)) f1 h2 k1 p1.hok hr1 her
          (by omega) p1.kok
        rw [hltake] at e1
        rw [hldrop] at e2
        have horig2 : Registered f2 (.node id l r) := Registered.imono p1.hok p2.ext (hr.imono hh2 p1.ext)
        obtain ⟨f3, c1, c2, c3, c4⟩ := intraCombine_post p2.hok id l r la ra
          (treeHash E A h (.node id l r)).1 (p1.reg.imono p1.hok p2.ext) p2.reg p1.erase p2.erase
          horig2 hh1
        have hext := hh4.trans (p1.ext.trans (p2.ext.trans c1))
        have hkeys : ∀ k s, (k, s) ∈ k2 → (k, s) ∈ known ∨ k.1 ≤ d + 1 := by
          intro k s hm
          rcases p2.keys k s hm with hm | hle
          · rcases p1.keys k s hm with hm | hle
            · exact Or.inl hm
            · right; omega
          · right; omega
        rw [intraRebase_node]
        dsimp only
        rw [if_neg hnz, ← hce]
        by_cases hfull : xs.length = cap E.pf (d+1)
        · have hb : (xs.length - min xs.length (cap E.pf d) == cap E.pf d) = true := by
            simp only [beq_iff_eq]; omega
          rw [hb]
          simp only [if_true]
          cases hg : Known.get? known (d+1) (treeHash E A h (.node id l r)).1 with
          | some s =>
            dsimp only
            refine ⟨_, _, _, f, rfl, ?_⟩
            obtain ⟨g1, g2, ys, g3, g4⟩ := hk _ _ _ (Known.get?_some hg)
            have hes : s.erase = (Tree.node id l r).erase := by
              rw [g4]
              simp only [Tree.erase, hel, her]
              rw [← canon_succ_of_ne_nil' _ _ _ hx]
              congr 1
              apply sHash'_canon_inj cf (d+1) ys xs (by omega) (by omega)
              rw [← g4, ← trueHash_eq_sHash', g2, hh1, trueHash_eq_sHash']
              simp only [Tree.erase, hel, her]
              rw [← canon_succ_of_ne_nil' _ _ _ hx]
            refine ⟨hh4, hh2, hk, hes, g1, fun _ _ hm => Or.inl hm, fun _ hm => hm, ?_⟩
            intro _ _
            rw [← hh1]; exact hg
          | none =>
            dsimp only
            rw [e1]; dsimp only
            rw [e2]; dsimp only
            have hg2 : Known.get? k2 (d+1) (treeHash E A h (.node id l r)).1 = none := by
              rw [Known.get?_none] at hg ⊢
              intro s hm
              rcases p2.keys _ _ hm with hm | hle
              · rcases p1.keys _ _ hm with hm | hle
                · exact hg s hm
                · exact absurd hle (by simp)
              · exact absurd hle (by simp)
            simp only [intraFinish, if_true, hg2]
            refine ⟨_, _, _, f3, rfl, hext, c2, ?_, c3, c4, ?_, ?_, ?_⟩
            · intro d' x s hm
              rcases List.mem_cons.1 hm with e | hm
              · cases e
                refine ⟨c4, ?_, xs, hfull, ?_⟩
                · rw [trueHash_congr' E A c3, hh1]
                · rw [c3]; simp only [Tree.erase, hel, her]
                  rw [← canon_succ_of_ne_nil' _ _ _ hx]
              · exact (p2.kok.mono p2.hok c1) d' x s hm
            · intro k s hm
              rcases List.mem_cons.1 hm with e | hm
              · cases e; right; exact Nat.le_refl _
              · exact hkeys k s hm
            · intro e hm
              exact List.mem_cons_of_mem _ (p2.sub _ (p1.sub _ hm))
            · intro _ _
              simp [Known.get?, hh1]
        · have hb : (xs.length - min xs.length (cap E.pf d) == cap E.pf d) = false := by
            simp only [beq_eq_false_iff_ne]; omega
          rw [hb]
          simp only [Bool.false_eq_true, if_false]
          rw [e1]; dsimp only
          rw [e2]; dsimp only
          simp only [intraFinish, Bool.false_eq_true, if_false]
          refine ⟨_, _, _, f3, rfl, hext, c2, p2.kok.mono p2.hok c1, c3, c4, hkeys, ?_, ?_⟩
          · intro e hm
            exact p2.sub _ (p1.sub _ hm)
          · intro _ hf; exact absurd hf hfull

theorem KnownOK.nil (E : Elem T H) (A : HashAlg H) (f : Registry T) : KnownOK E A f [] := by
  intro d x s hm; cases hm

/-- **C09, tree level (target 1).** On a canonical tree with a valid memo store and a valid
`known` map, `intra_rebase` never fails; its action is `noop` or a replacement with the same shape;
the `known` map stays valid; the memo store stays valid, and an old memo is only ever changed from
"absent" to the true hash of its node. (The bound `d + pdOf E.pf ≤ 63` of the Rust is not needed:
the model's arithmetic is unbounded, so the statement without it is stronger.) -/
theorem intraRebase_shape [DecidableEq H] {E : Elem T H} {A : HashAlg H} (hpf : PfOK E.pf)
    (cf : CollisionFree' E A) (nz : NoZeroNode A)
    {f : Registry T} {h : Heap H} {known : Known T H} {t : Tree T} {d length : Nat} {xs : List T}
    (hok : HeapOK E A f h) (hr : Registered f t) (he : t.erase = canon E.pf d xs)
    (hl : xs.length = length) (hle : length ≤ cap E.pf d) (hk : KnownOK E A f known) :
    ∃ act known' h' f', intraRebase E A h known t d length = .ok (act, known', h') ∧
      (act = .noop ∨ ∃ t', act = .replace t' ∧ t'.erase = t.erase ∧ Registered f' t') ∧
      (∀ i, i < h.next → f' i = f i) ∧ h.next ≤ h'.next ∧
      Registered f' t ∧ KnownOK E A f' known' ∧ HeapOK E A f' h' ∧
      (∀ i, i < h.next → h'.read A.zero i = h.read A.zero i ∨
        (h.read A.zero i = A.zero ∧ ∃ s, f i = some s ∧ h'.read A.zero i = trueHash E A s)) := by
  subst hl
  obtain ⟨act, known', h', f', e, p⟩ := intraRebase_post hpf cf nz d t xs f h known hok hr he hle hk
  refine ⟨act, known', h', f', e, ?_, p.ext.agree, p.ext.next_le, hr.imono hok p.ext, p.kok, p.hok,
    p.ext.memo⟩
  cases act with
  | noop => exact Or.inl rfl
  | replace t' => exact Or.inr ⟨t', rfl, p.erase, p.reg⟩

/-! ## collection level -/

theorem UMap.beq_refl' [DecidableEq T] (u : UMap T) : u.beq u = true := by
  cases u <;> simp [UMap.beq]

/-- **C09 (target 2).** If the flush of `c` succeeds and yields a canonical tree for `xs`
(registered, with a valid memo store), then `intra_rebase` succeeds, and the tree shape, length,
depth, pending map and kind are those of the flushed collection; the result is again canonical,
registered and has a valid memo store, so every later operation sees a collection
indistinguishable (up to node identities) from a freshly built one with contents `xs`. -/
theorem C09_intra_preserves_meaning [DecidableEq H] {E : Elem T H} {A : HashAlg H}
    (hpf : PfOK E.pf) (cf : CollisionFree' E A) (nz : NoZeroNode A) (cfg : Cfg)
    (c c1 : Coll T) (h h1 : Heap H) (f : Registry T) (xs : List T)
    (hflush : Coll.applyUpdates E.pf A.zero cfg c h = (.ok (), c1, h1))
    (hcanon : c1.tree.erase = canon E.pf c1.depth xs) (hlen : c1.length = xs.length)
    (hcap : xs.length ≤ cap E.pf c1.depth)
    (hreg : Registered f c1.tree) (hok : HeapOK E A f h1) :
    ∃ c' h' f', Coll.intraRebaseColl E A cfg c h = (.ok (), c', h') ∧
      c'.tree.erase = c1.tree.erase ∧ c'.length = c1.length ∧ c'.depth = c1.depth ∧
      c'.updates = c1.updates ∧ c'.kind = c1.kind ∧
      c'.tree.erase = canon E.pf c'.depth xs ∧
      Registered f' c'.tree ∧ HeapOK E A f' h' ∧
      (∀ i, i < h1.next → f' i = f i) ∧ h1.next ≤ h'.next ∧
      (∀ i, i < h1.next → h'.read A.zero i = h1.read A.zero i ∨
        (h1.read A.zero i = A.zero ∧ ∃ s, f i = some s ∧ h'.read A.zero i = trueHash E A s)) := by
  obtain ⟨_, t2, _, t4⟩ := treeHash_ok' c1.tree h1 hok hreg
  obtain ⟨act, known', h', f', e, p⟩ := intraRebase_post hpf cf nz c1.depth c1.tree xs f _ []
    t2 hreg hcanon hcap (KnownOK.nil E A f)
  have hext := t4.trans p.ext
  rw [← hlen] at e
  unfold Coll.intraRebaseColl
  rw [hflush]
  dsimp only
  rw [e]
  cases act with
  | noop =>
    exact ⟨c1, h', f', rfl, rfl, rfl, rfl, rfl, rfl, hcanon, p.reg, p.hok, hext.agree,
      hext.next_le, hext.memo⟩
  | replace t' =>
    refine ⟨{ c1 with tree := t' }, h', f', rfl, p.erase, rfl, rfl, rfl, rfl, ?_, p.reg, p.hok,
      hext.agree, hext.next_le, hext.memo⟩
    show t'.erase = _
    rw [show t'.erase = c1.tree.erase from p.erase, hcanon]

/-- … hence the derived equality cannot tell the self-deduplicated collection from the flushed
one. -/
theorem C09_intra_beq [DecidableEq T] [DecidableEq H] {E : Elem T H} {A : HashAlg H}
    (hpf : PfOK E.pf) (cf : CollisionFree' E A) (nz : NoZeroNode A) (cfg : Cfg)
    (c c1 : Coll T) (h h1 : Heap H) (f : Registry T) (xs : List T)
    (hflush : Coll.applyUpdates E.pf A.zero cfg c h = (.ok (), c1, h1))
    (hcanon : c1.tree.erase = canon E.pf c1.depth xs) (hlen : c1.length = xs.length)
    (hcap : xs.length ≤ cap E.pf c1.depth)
    (hreg : Registered f c1.tree) (hok : HeapOK E A f h1) :
    ∃ c' h', Coll.intraRebaseColl E A cfg c h = (.ok (), c', h') ∧
      Coll.beq c' c1 = true ∧ Coll.beq c1 c' = true := by
  obtain ⟨c', h', f', e, a1, a2, a3, a4, _⟩ :=
    C09_intra_preserves_meaning hpf cf nz cfg c c1 h h1 f xs hflush hcanon hlen hcap hreg hok
  refine ⟨c', h', e, ?_, ?_⟩ <;> simp [Coll.beq, a1, a2, a3, a4, UMap.beq_refl']

/-! ## sharing effect (target 3) -/

/-- After `intra_rebase` of a full node (depth ≥ 2, not yet in the map) whose two halves have the
same shape, the two children of the result are the very same node. -/
theorem intraRebase_shares [DecidableEq H] {E : Elem T H} {A : HashAlg H} (hpf : PfOK E.pf)
    (cf : CollisionFree' E A) (nz : NoZeroNode A)
    {f : Registry T} {h : Heap H} {known : Known T H} {id : Nat} {l r : Tree T} {e : Nat}
    {xs : List T}
    (hok : HeapOK E A f h) (hr : Registered f (.node id l r))
    (he : (Tree.node id l r).erase = canon E.pf (e+2) xs) (hfull : xs.length = cap E.pf (e+2))
    (hk : KnownOK E A f known) (hlr : l.erase = r.erase)
    (hfresh : Known.get? known (e+2) (trueHash E A (.node id l r)) = none) :
    ∃ nid a known' h', intraRebase E A h known (.node id l r) (e+2) xs.length =
      .ok (.replace (.node nid a a), known', h') ∧ a.erase = l.erase := by
  obtain ⟨hh1, hh2, hh3, hh4⟩ := treeHash_ok' (.node id l r) h hok hr
  have hc := cap_pos E.pf hpf e
  have hc0 := cap_succ E.pf e
  have hc1 : cap E.pf (e+2) = 2 * cap E.pf (e+1) := cap_succ E.pf (e+1)
  have hxne : xs ≠ [] := by
    intro h0; subst h0; simp only [List.length_nil] at hfull; omega
  rw [canon_succ_of_ne_nil' _ _ _ hxne] at he
  simp only [Tree.erase, Shape.node.injEq] at he
  obtain ⟨hel, her⟩ := he
  have hltake : (xs.take (cap E.pf (e+1))).length = cap E.pf (e+1) := by
    rw [List.length_take]; omega
  have hldrop : (xs.drop (cap E.pf (e+1))).length = cap E.pf (e+1) := by
    rw [List.length_drop]; omega
  obtain ⟨la, k1, h2, f1, e1, p1⟩ := intraRebase_post hpf cf nz (e+1) l _ f _ known hh2
    hr.node_left hel (by omega) hk
  have hhead := p1.head (by omega) hltake
  rw [hltake] at e1
  have hr1 : Registered f1 r := hr.node_right.imono hh2 p1.ext
  have hnz : ¬ (treeHash E A h (.node id l r)).1 = A.zero := by rw [hh1]; exact nz _ _
  have hmin : min xs.length (cap E.pf (e+1)) = cap E.pf (e+1) := by omega
  have hsub : xs.length - cap E.pf (e+1) = cap E.pf (e+1) := by omega
  -- the right child is a node, looked up and found
  have hdne : xs.drop (cap E.pf (e+1)) ≠ [] := by
    intro h0; rw [h0] at hldrop; simp only [List.length_nil] at hldrop; omega
  rw [canon_succ_of_ne_nil' _ _ _ hdne] at her
  have e2 : intraRebase E A h2 k1 r (e+1) (cap E.pf (e+1)) =
      .ok (.replace (la.pick l), k1, (treeHash E A h2 r).2) := by
    cases r with
    | leaf id v => simp [Tree.erase] at her
    | packed id v => simp [Tree.erase] at her
    | zero id v => simp [Tree.erase] at her
    | node rid rl rr =>
      obtain ⟨g1, g2, g3, g4⟩ := treeHash_ok' (.node rid rl rr) h2 p1.hok hr1
      have hnz' : ¬ (treeHash E A h2 (.node rid rl rr)).1 = A.zero := by rw [g1]; exact nz _ _
      rw [intraRebase_node]
      dsimp only
      rw [if_neg hnz', ← cap_eq_pow E.pf hpf e]
      have hb : (cap E.pf (e+1) - min (cap E.pf (e+1)) (cap E.pf e) == cap E.pf e) = true := by
        simp only [beq_iff_eq]; omega
      rw [hb]
      simp only [if_true]
      rw [g1, ← trueHash_congr' E A hlr, hhead]
  rw [intraRebase_node]
  dsimp only
  rw [if_neg hnz, ← cap_eq_pow E.pf hpf (e+1), hmin, hsub]
  simp only [beq_self_eq_true, if_true]
  rw [hh1, hfresh]
  dsimp only
  rw [e1]
  dsimp only
  rw [e2]
  dsimp only
  have hg2 : Known.get? k1 (e+1+1) (trueHash E A (.node id l r)) = none := by
    rw [Known.get?_none] at hfresh ⊢
    intro s hm
    rcases p1.keys _ _ hm with hm | hle
    · exact hfresh s hm
    · exact absurd hle (by simp)
  simp only [intraFinish, if_true, hg2]
  have hcmb : ∀ (x : H) (hp : Heap H), (intraCombine x l r la (.replace (la.pick l)) hp).1 =
      .replace (.node hp.next (la.pick l) (la.pick l)) := by
    intro x hp; cases la <;> rfl
  rw [hcmb]
  exact ⟨_, _, _, _, rfl, p1.erase⟩

/-! ## non-vacuity: a free hash algebra, and concrete runs -/

namespace IntraEx

/-- free term algebra of hashes: nothing collides except what the SSZ encoding itself identifies
(an all-zero leaf is the zero chunk; a packed leaf is zero-padded to `4` values). -/
inductive FH where
  | z
  | leaf (n : Nat)
  | pack (l : List Nat)
  | h2 (a b : FH)
  deriving DecidableEq, Repr

def FA : HashAlg FH := ⟨.z, .h2⟩

/-- unpacked elements; the value `0` hashes to the zero chunk (as `Hash256::ZERO` / `0u256` do). -/
def FE : Elem Nat FH :=
  { pf := none, leafHash := fun n => if n = 0 then .z else .leaf n, packHash := .pack,
    fixedLen := some 32, enc := fun _ => [], dec := fun _ => none }

/-- packed elements, 4 per chunk, zero padded. -/
def FEp : Elem Nat FH :=
  { pf := some 4, leafHash := .leaf, packHash := fun vs => .pack (vs ++ List.replicate (4 - vs.length) 0),
    fixedLen := some 8, enc := fun _ => [], dec := fun _ => none }

theorem FA_noZeroNode : NoZeroNode FA := by intro a b hh; cases hh

theorem FE_collisionFree : CollisionFree' FE FA := by
  refine ⟨?_, ?_, ?_⟩
  · intro a b c d hh; cases hh; exact ⟨rfl, rfl⟩
  · intro v w hh
    simp only [FE] at hh
    by_cases hv : v = 0 <;> by_cases hw : w = 0 <;> simp_all
  · intro vs ws _ hh; cases hh; rfl

theorem FEp_collisionFree : CollisionFree' FEp FA := by
  refine ⟨?_, ?_, ?_⟩
  · intro a b c d hh; cases hh; exact ⟨rfl, rfl⟩
  · intro v w hh; cases hh; rfl
  · intro vs ws hl hh
    simp only [FEp, FH.pack.injEq, hl] at hh
    exact List.append_cancel_right hh

theorem FE_pfOK : PfOK FE.pf := by intro p hp; cases hp
theorem FEp_pfOK : PfOK FEp.pf := by intro p hp; cases hp; exact ⟨2, by decide, rfl⟩

/-- both hash assumptions are satisfiable (together). -/
example : CollisionFree' FE FA ∧ NoZeroNode FA := ⟨FE_collisionFree, FA_noZeroNode⟩
example : CollisionFree' FEp FA ∧ NoZeroNode FA := ⟨FEp_collisionFree, FA_noZeroNode⟩

/-- the defect that was fixed, in one line: WITHOUT equal lengths, equal hashes of canonical
trees do not give equal trees (so `sHash'_canon_inj` needs `xs.length = ys.length`). -/
example : sHash' FE FA (canon FE.pf 2 [0,0,0,0]) = sHash' FE FA (canon FE.pf 2 [0,0]) ∧
    canon FE.pf 2 [0,0,0,0] ≠ canon FE.pf 2 ([0,0] : List Nat) := by decide

/-! ### checkable registries -/

/-- the registry read off a tree: an id denotes the first subtree carrying it. -/
def regOf {T : Type} (t : Tree T) : Registry T := fun i => t.subtrees.find? (fun s => s.id == i)

/-- structural equality of trees, identities included. -/
def same {T : Type} [DecidableEq T] : Tree T → Tree T → Bool
  | .leaf i v, .leaf j w => i == j && decide (v = w)
  | .packed i v, .packed j w => i == j && decide (v = w)
  | .zero i d, .zero j e => i == j && d == e
  | .node i l r, .node j l' r' => i == j && same l l' && same r r'
  | _, _ => false

theorem same_eq {T : Type} [DecidableEq T] : ∀ (s t : Tree T), same s t = true → s = t := by
  intro s
  induction s with
  | leaf i v => intro t h; cases t <;> simp_all [same]
  | packed i v => intro t h; cases t <;> simp_all [same]
  | zero i d => intro t h; cases t <;> simp_all [same]
  | node i l r ihl ihr =>
    intro t h
    cases t with
    | node j l' r' =>
      simp only [same, Bool.and_eq_true, beq_iff_eq] at h
      rw [h.1.1, ihl _ h.1.2, ihr _ h.2]
    | leaf j w => simp [same] at h
    | packed j w => simp [same] at h
    | zero j w => simp [same] at h

def regCheck {T : Type} [DecidableEq T] (t : Tree T) : Bool :=
  t.subtrees.all fun s => match regOf t s.id with
    | some s' => same s' s
    | none => false

theorem regCheck_sound {T : Type} [DecidableEq T] (t : Tree T) (h : regCheck t = true) :
    Registered (regOf t) t := by
  intro s hs
  have := List.all_eq_true.1 h s hs
  split at this
  · rename_i s' he; rw [he, same_eq _ _ this]
  · cases this

def heapCheck {T H : Type} [DecidableEq H] (E : Elem T H) (A : HashAlg H) (t : Tree T)
    (h : Heap H) : Bool :=
  t.subtrees.all fun s => decide (s.id < h.next) &&
    (h.read A.zero s.id == A.zero || h.read A.zero s.id == trueHash E A s)

theorem heapCheck_sound {T H : Type} [DecidableEq H] (E : Elem T H) (A : HashAlg H) (t : Tree T)
    (h : Heap H) (hc : heapCheck E A t h = true) : HeapOK E A (regOf t) h := by
  have key : ∀ id s, regOf t id = some s → s ∈ t.subtrees ∧ s.id = id := by
    intro id s hf
    exact ⟨List.mem_of_find?_eq_some hf, by simpa using List.find?_some hf⟩
  refine ⟨fun id s hf => ?_, fun id s hf => ?_⟩ <;> obtain ⟨hm, rfl⟩ := key id s hf <;>
    have := List.all_eq_true.1 hc s hm <;>
    simp only [Bool.and_eq_true, Bool.or_eq_true, decide_eq_true_eq, beq_iff_eq] at this
  · exact this.1
  · exact this.2

/-! ### a concrete run: `[0;6]` at depth 3, nothing hashed yet -/

/-- the list `[0;6]` in a depth-3 tree: nodes 2, 5, 9 are equal full subtrees `[0,0]`; the left
half (node 1) is the full subtree `[0,0,0,0]`, and the right half (node 8), `[0,0]` zero-padded,
HASHES EQUAL to it although it is a different tree. -/
def t6 : Tree Nat :=
  .node 0
    (.node 1 (.node 2 (.leaf 3 0) (.leaf 4 0)) (.node 5 (.leaf 6 0) (.leaf 7 0)))
    (.node 8 (.node 9 (.leaf 10 0) (.leaf 11 0)) (.zero 12 1))

/-- 13 allocated nodes, no memo present. -/
def h13 : Heap FH := ⟨Array.replicate 13 .z⟩

/-- the same store with the memos of nodes 1 and 9 (only) filled in. -/
def h13' : Heap FH := (h13.write 1 (.h2 (.h2 .z .z) (.h2 .z .z))).write 9 (.h2 .z .z)

theorem t6_canon : t6.erase = canon FE.pf 3 [0,0,0,0,0,0] := by decide
theorem t6_reg : Registered (regOf t6) t6 := regCheck_sound _ (by decide)
theorem h13_ok : HeapOK FE FA (regOf t6) h13 := heapCheck_sound _ _ _ _ (by decide)
theorem h13'_ok : HeapOK FE FA (regOf t6) h13' := heapCheck_sound _ _ _ _ (by decide)

/-- the two halves of `t6` collide … -/
example : trueHash FE FA (.node 1 (.node 2 (.leaf 3 0) (.leaf 4 0)) (.node 5 (.leaf 6 0) (.leaf 7 0)))
    = trueHash FE FA (.node 8 (.node 9 (.leaf 10 0) (.leaf 11 0)) (.zero 12 1)) := by decide

/-- what a run returns, in decidable form: the shape and the preorder list of node ids of the
replacement (`none` for `noop` or an error). -/
def ids {T : Type} : Tree T → List Nat
  | .node i l r => i :: (ids l ++ ids r)
  | t => [t.id]

def outcome {T H : Type} : Except Err (IntraAction T × Known T H × Heap H) →
    Option (Shape T × List Nat)
  | .ok (.replace t, _, _) => some (t.erase, ids t)
  | _ => none

/-- … and yet the partial right half is NOT replaced by the full left half: nodes 5 and 9 are
replaced by node 2 (`[0,0]`, full), the right half keeps its `zero` sibling (id 12), and the shape
is unchanged. -/
example : outcome (intraRebase FE FA h13 [] t6 3 6) =
    some (t6.erase, [15, 13, 2, 3, 4, 2, 3, 4, 14, 2, 3, 4, 12]) := by decide

/-- same with partially filled memos. -/
example : outcome (intraRebase FE FA h13' [] t6 3 6) =
    some (t6.erase, [15, 13, 2, 3, 4, 2, 3, 4, 14, 2, 3, 4, 12]) := by decide

/-- the hypotheses of `intraRebase_shape` are satisfiable (here: on `t6`, partially hashed). -/
example := intraRebase_shape FE_pfOK FE_collisionFree FA_noZeroNode h13'_ok t6_reg t6_canon rfl
  (by decide) (KnownOK.nil FE FA _)

/-- and with a non-empty valid `known` map (node 2 recorded as the full subtree `[0,0]`): -/
theorem k2_ok : KnownOK FE FA (regOf t6)
    [((1, FH.h2 .z .z), Tree.node 2 (.leaf 3 0) (.leaf 4 0))] := by
  intro d x s hm
  simp only [List.mem_singleton, Prod.mk.injEq] at hm
  obtain ⟨⟨rfl, rfl⟩, rfl⟩ := hm
  exact ⟨t6_reg.node_left.node_left, by decide, [0, 0], by decide, by decide⟩

example := intraRebase_shape FE_pfOK FE_collisionFree FA_noZeroNode h13_ok t6_reg t6_canon rfl
  (by decide) k2_ok

/-! ### sharing: two equal full halves -/

def t4 : Tree Nat :=
  .node 0 (.node 1 (.leaf 2 7) (.leaf 3 9)) (.node 4 (.leaf 5 7) (.leaf 6 9))
def h7 : Heap FH := ⟨Array.replicate 7 .z⟩

example : outcome (intraRebase FE FA h7 [] t4 2 4) =
    some (t4.erase, [7, 1, 2, 3, 1, 2, 3]) := by decide

example := intraRebase_shares (e := 0) (xs := [7, 9, 7, 9]) FE_pfOK FE_collisionFree FA_noZeroNode
  (heapCheck_sound FE FA t4 h7 (by decide)) (regCheck_sound t4 (by decide)) (by decide)
  (by decide) (KnownOK.nil FE FA _) (by decide) rfl

/-! ### collection level: five zeros plus a pending push of a sixth -/

def t5 : Tree Nat :=
  .node 0
    (.node 1 (.node 2 (.leaf 3 0) (.leaf 4 0)) (.node 5 (.leaf 6 0) (.leaf 7 0)))
    (.node 8 (.node 9 (.leaf 10 0) (.zero 11 0)) (.zero 12 1))
def cfg8 : Cfg := ⟨8, .btree⟩
/-- a list `[0;5]` with the pending write `5 ↦ 0`. -/
def c5p : Coll Nat := ⟨.list, t5, 5, 3, .btree [(5, 0)]⟩

def flushed := Coll.applyUpdates FE.pf FA.zero cfg8 c5p h13

theorem flushed_eq : Coll.applyUpdates FE.pf FA.zero cfg8 c5p h13 =
    (.ok (), flushed.2.1, flushed.2.2) := by rfl

/-- the hypotheses of `C09_intra_preserves_meaning` are satisfiable on a collection with a pending
write whose flush creates the colliding zero-padded right edge. -/
example := C09_intra_preserves_meaning FE_pfOK FE_collisionFree FA_noZeroNode cfg8 c5p
  flushed.2.1 h13 flushed.2.2 (regOf flushed.2.1.tree) [0,0,0,0,0,0] flushed_eq
  (by decide) (by decide) (by decide) (regCheck_sound _ (by decide))
  (heapCheck_sound _ _ _ _ (by decide))

/-- … and the run itself: success, contents/length/depth/pending map as after the flush. -/
example : (Coll.intraRebaseColl FE FA cfg8 c5p h13).1 = .ok () := by rfl
example : let c' := (Coll.intraRebaseColl FE FA cfg8 c5p h13).2.1
    c'.tree.erase = canon FE.pf 3 [0,0,0,0,0,0] ∧ c'.length = 6 ∧ c'.depth = 3 ∧
      c'.updates.isEmpty = true ∧ Coll.beq c' flushed.2.1 = true ∧
      ids c'.tree = [19, 17, 2, 3, 4, 2, 3, 4, 18, 2, 3, 4, 12] := by decide

end IntraEx

end Milhouse
