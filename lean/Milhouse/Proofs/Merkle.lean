import Milhouse.Proofs.Inv
import Milhouse.Spec.Merkle
import Milhouse.Model.Collection
/-!
# Merkle hashing (C02, hashing half of C03)

* `sHash` / `trueHash_erase`: the memo-free hash only depends on the shape.
* `sHash_canon`: the hash of the canonical tree of `xs` at depth `d` is the SSZ `merkleize`
  (efficient form `Spec.merk`) of the chunk sequence of `xs`.
* `merk_eq_naive`: the efficient form equals the literal pad-and-reduce specification.
* `depth_is_limit_depth`: milhouse's depth is the depth of the SSZ chunk limit.
* `treeHash_spec`: sequential `tree_hash` returns the true hash and never creates a stale memo.
* `C02_list_root_is_spec`, `C02_vector_root_is_spec`: `tree_hash_root` = SSZ `hash_tree_root`.
-/
namespace Milhouse
variable {T H : Type}

/-! ## 1. shape-level hash -/

/-- the memo-free Merkle hash of a shape. -/
def sHash (E : Elem T H) (A : HashAlg H) : Shape T → H
  | .leaf v => E.leafHash v
  | .packed vs => E.packHash vs
  | .zero d => zeroHash A d
  | .node l r => A.h2 (sHash E A l) (sHash E A r)

theorem trueHash_erase (E : Elem T H) (A : HashAlg H) (t : Tree T) :
    trueHash E A t = sHash E A t.erase := by
  induction t with
  | leaf id v => rfl
  | packed id vs => rfl
  | zero id d => rfl
  | node id l r ihl ihr => simp only [trueHash, Tree.erase, sHash, ihl, ihr]

/-! ### a concrete instance used by the non-vacuity `example`s below

`List<u64, 16>` / `Vector`-like collection holding `[1, 2, 3]`, four values per chunk, toy hash
functions on `Nat`; every node has a distinct id and an absent memo. -/
namespace MerkleExample

def E : Elem Nat Nat :=
  { pf := some 4, leafHash := fun v => v + 1,
    packHash := fun vs => vs.foldl (fun a v => 10 * a + v) 7,
    fixedLen := some 8, enc := fun _ => [], dec := fun _ => none }
def A : HashAlg Nat := ⟨0, fun a b => 2 * a + 3 * b + 1⟩
def mixIn : Nat → Nat → Nat := fun r n => 1000 * r + n

def t2 : Tree Nat := .packed 2 [1, 2, 3]
def t3 : Tree Nat := .zero 3 0
def t1 : Tree Nat := .node 1 t2 t3
def t4 : Tree Nat := .zero 4 1
def t0 : Tree Nat := .node 0 t1 t4
def f : Registry Nat := fun i => [t0, t1, t2, t3, t4][i]?
def h0 : Heap Nat := ⟨#[0, 0, 0, 0, 0]⟩
/-- `List<u64, 16>` holding `[1,2,3]`: depth `log2 16 - log2 4 = 2`. -/
def c : Coll Nat := ⟨.list, t0, 3, 2, .btree []⟩
/-- the same tree seen as a vector (`MaxMap<VecMap>` overlay, empty). -/
def cv : Coll Nat := ⟨.vector, t0, 3, 2, .maxvec [] 0⟩

theorem pfOK : PfOK E.pf := by
  intro p hp; cases hp; exact ⟨2, by decide, rfl⟩

theorem reg : Registered f t0 := by
  intro s hs
  simp only [t0, t1, t2, t3, t4, Tree.subtrees, List.mem_cons, List.mem_append,
    List.not_mem_nil, or_false] at hs
  rcases hs with rfl | (rfl | rfl | rfl) | rfl <;> rfl

theorem heapOK : HeapOK E A f h0 := by
  constructor
  · intro id s hs
    exact (List.getElem?_eq_some_iff.1 hs).1
  · intro id s hs
    have hlt : id < 5 := (List.getElem?_eq_some_iff.1 hs).1
    left
    have : id = 0 ∨ id = 1 ∨ id = 2 ∨ id = 3 ∨ id = 4 := by omega
    rcases this with rfl | rfl | rfl | rfl | rfl <;> rfl

theorem tree_canon : t0.erase = canon E.pf 2 [1, 2, 3] := by decide

end MerkleExample

/-! ## 2. chunking and `canon` -/

theorem groups_nil (k fuel : Nat) : Spec.groups k fuel ([] : List T) = [] := by
  cases fuel <;> simp [Spec.groups]

theorem groups_cons (k fuel : Nat) (x : T) (xs : List T) :
    Spec.groups k (fuel+1) (x :: xs)
      = (x :: xs).take k :: Spec.groups k fuel ((x :: xs).drop k) := by
  simp [Spec.groups]

/-- with enough fuel, `groups` does not depend on the fuel. -/
theorem groups_fuel (k : Nat) (hk : 0 < k) :
    ∀ (f1 f2 : Nat) (xs : List T), xs.length ≤ f1 → xs.length ≤ f2 →
      Spec.groups k f1 xs = Spec.groups k f2 xs := by
  intro f1
  induction f1 with
  | zero =>
    intro f2 xs h1 h2
    have : xs = [] := List.length_eq_zero_iff.1 (by omega)
    subst this; simp [groups_nil]
  | succ f1 ih =>
    intro f2 xs h1 h2
    cases xs with
    | nil => simp [groups_nil]
    | cons x xs =>
      cases f2 with
      | zero => simp at h2
      | succ f2 =>
        rw [groups_cons, groups_cons]
        congr 1
        apply ih <;> simp only [List.length_drop, List.length_cons] at * <;> omega

theorem groups_take (k : Nat) (hk : 0 < k) :
    ∀ (n f1 f2 : Nat) (xs : List T), xs.length ≤ f1 → (xs.take (n * k)).length ≤ f2 →
      (Spec.groups k f1 xs).take n = Spec.groups k f2 (xs.take (n * k)) := by
  intro n
  induction n with
  | zero => intro f1 f2 xs h1 h2; simp [groups_nil]
  | succ n ih =>
    intro f1 f2 xs h1 h2
    cases xs with
    | nil => simp [groups_nil]
    | cons x xs =>
      cases f1 with
      | zero => simp at h1
      | succ f1 =>
        have hk' : (n + 1) * k = (n * k + (k - 1)) + 1 := by
          rw [Nat.succ_mul]; omega
        cases f2 with
        | zero => rw [hk'] at h2; simp at h2
        | succ f2 =>
          rw [groups_cons, List.take_succ_cons]
          have e : (x :: xs).take ((n+1) * k) = x :: xs.take (n * k + (k - 1)) := by
            rw [hk', List.take_succ_cons]
          rw [e, groups_cons, ← e]
          have hkk : min k ((n+1) * k) = k := by
            rw [Nat.succ_mul]; omega
          congr 1
          · rw [List.take_take, hkk]
          · rw [List.drop_take]
            have : (n + 1) * k - k = n * k := by rw [Nat.succ_mul]; omega
            rw [this]
            apply ih
            · simp only [List.length_drop, List.length_cons] at *; omega
            · have h3 : ((x :: xs).take ((n+1) * k)).length ≤ f2 + 1 := h2
              simp only [List.length_take, List.length_drop, List.length_cons] at *
              rw [Nat.succ_mul] at h3
              omega

theorem groups_drop (k : Nat) (hk : 0 < k) :
    ∀ (n f1 f2 : Nat) (xs : List T), xs.length ≤ f1 → (xs.drop (n * k)).length ≤ f2 →
      (Spec.groups k f1 xs).drop n = Spec.groups k f2 (xs.drop (n * k)) := by
  intro n
  induction n with
  | zero =>
    intro f1 f2 xs h1 h2
    simp only [Nat.zero_mul, List.drop_zero] at *
    exact groups_fuel k hk _ _ _ h1 h2
  | succ n ih =>
    intro f1 f2 xs h1 h2
    cases xs with
    | nil => simp [groups_nil]
    | cons x xs =>
      cases f1 with
      | zero => simp at h1
      | succ f1 =>
        rw [groups_cons, List.drop_succ_cons]
        have e : (x :: xs).drop ((n+1) * k) = ((x :: xs).drop k).drop (n * k) := by
          rw [List.drop_drop, Nat.succ_mul, Nat.add_comm]
        rw [e]
        apply ih
        · simp only [List.length_drop, List.length_cons] at *; omega
        · rw [← e]; exact h2

theorem chunksOf_nil (E : Elem T H) : Spec.chunksOf E ([] : List T) = [] := by
  unfold Spec.chunksOf; cases E.pf <;> simp [groups_nil]

theorem chunksOf_take (E : Elem T H) (hpf : PfOK E.pf) (xs : List T) (m : Nat) :
    Spec.chunksOf E (xs.take (m * lcap E.pf)) = (Spec.chunksOf E xs).take m := by
  unfold Spec.chunksOf
  cases hp : E.pf with
  | none => simp [lcap, List.map_take]
  | some p =>
    have hpos : 0 < p := by
      obtain ⟨k, _, rfl⟩ := hpf p hp; exact Nat.pow_pos (by decide)
    simp only [lcap, Option.getD_some]
    rw [← List.map_take, groups_take p hpos m _ _ xs (Nat.le_refl _) (Nat.le_refl _)]

theorem chunksOf_drop (E : Elem T H) (hpf : PfOK E.pf) (xs : List T) (m : Nat) :
    Spec.chunksOf E (xs.drop (m * lcap E.pf)) = (Spec.chunksOf E xs).drop m := by
  unfold Spec.chunksOf
  cases hp : E.pf with
  | none => simp [lcap, List.map_drop]
  | some p =>
    have hpos : 0 < p := by
      obtain ⟨k, _, rfl⟩ := hpf p hp; exact Nat.pow_pos (by decide)
    simp only [lcap, Option.getD_some]
    rw [← List.map_drop, groups_drop p hpos m _ _ xs (Nat.le_refl _) (Nat.le_refl _)]

/-- the number of chunks of a sequence that fits in `m` depth-0 nodes is at most `m`. -/
theorem chunksOf_length_le (E : Elem T H) (hpf : PfOK E.pf) (xs : List T) (m : Nat)
    (h : xs.length ≤ m * lcap E.pf) : (Spec.chunksOf E xs).length ≤ m := by
  have := chunksOf_take E hpf xs m
  rw [List.take_of_length_le h] at this
  have h2 := congrArg List.length this
  simp only [List.length_take] at h2
  omega

theorem merk_nil (A : HashAlg H) (d : Nat) : Spec.merk A d [] = zeroHash A d := by
  cases d <;> simp [Spec.merk]

theorem chunksOf_cons_ne_nil (E : Elem T H) (x : T) (xs : List T) :
    ∃ c cs, Spec.chunksOf E (x :: xs) = c :: cs := by
  unfold Spec.chunksOf
  cases E.pf with
  | none => exact ⟨_, _, List.map_cons⟩
  | some p => exact ⟨_, _, by simp only [List.length_cons, groups_cons, List.map_cons]; rfl⟩

/-- **Hash of the canonical tree = SSZ merkleization of the chunks** (no assumption on the hash
functions). -/
theorem sHash_canon (E : Elem T H) (A : HashAlg H) (hpf : PfOK E.pf) :
    ∀ (d : Nat) (xs : List T), xs.length ≤ cap E.pf d →
      sHash E A (canon E.pf d xs) = Spec.merk A d (Spec.chunksOf E xs) := by
  intro d
  induction d with
  | zero =>
    intro xs h
    cases xs with
    | nil => simp [canon, sHash, chunksOf_nil, merk_nil]
    | cons x rest =>
      unfold Spec.chunksOf
      cases hp : E.pf with
      | none =>
        rw [hp] at h
        simp [cap, lcap] at h; subst h
        simp [canon, sHash, Spec.merk]
      | some p =>
        rw [hp] at h
        simp only [cap, lcap, Option.getD_some, Nat.pow_zero, Nat.one_mul] at h
        simp only [canon, sHash, List.length_cons, groups_cons, List.map_cons, Spec.merk]
        rw [List.take_of_length_le h]
  | succ d ih =>
    intro xs h
    cases xs with
    | nil => simp [canon, sHash, chunksOf_nil, merk_nil]
    | cons x rest =>
      have hc := cap_pos E.pf hpf d
      rw [cap_succ] at h
      rw [canon_succ_cons]
      simp only [sHash]
      rw [ih _ (by simp only [List.length_take]; omega),
          ih _ (by simp only [List.length_drop, List.length_cons] at *; omega)]
      have e1 := chunksOf_take E hpf (x :: rest) (2 ^ d)
      have e2 := chunksOf_drop E hpf (x :: rest) (2 ^ d)
      rw [show 2 ^ d * lcap E.pf = cap E.pf d from rfl] at e1 e2
      rw [e1, e2]
      obtain ⟨c, cs, hcs⟩ := chunksOf_cons_ne_nil E x rest
      rw [hcs]
      simp [Spec.merk]

theorem trueHash_canon (E : Elem T H) (A : HashAlg H) (hpf : PfOK E.pf) (t : Tree T) (d : Nat)
    (xs : List T) (ht : t.erase = canon E.pf d xs) (hlen : xs.length ≤ cap E.pf d) :
    trueHash E A t = Spec.merk A d (Spec.chunksOf E xs) := by
  rw [trueHash_erase, ht, sHash_canon E A hpf d xs hlen]

/-- non-vacuity of `sHash_canon` / `trueHash_canon`: three values in a depth-2 packed tree. -/
example : sHash MerkleExample.E MerkleExample.A (canon MerkleExample.E.pf 2 [1, 2, 3])
    = Spec.merk MerkleExample.A 2 (Spec.chunksOf MerkleExample.E [1, 2, 3]) :=
  sHash_canon MerkleExample.E MerkleExample.A MerkleExample.pfOK 2 [1, 2, 3] (by decide)

example : trueHash MerkleExample.E MerkleExample.A MerkleExample.t0
    = Spec.merk MerkleExample.A 2 (Spec.chunksOf MerkleExample.E [1, 2, 3]) :=
  trueHash_canon MerkleExample.E MerkleExample.A MerkleExample.pfOK MerkleExample.t0 2 [1, 2, 3]
    MerkleExample.tree_canon (by decide)

/-- the unpacked case (`pf = none`): three composite elements at depth 2. -/
example : sHash { MerkleExample.E with pf := none } MerkleExample.A
      (canon (none : Option Nat) 2 [5, 6, 7])
    = Spec.merk MerkleExample.A 2 (Spec.chunksOf { MerkleExample.E with pf := none } [5, 6, 7]) :=
  sHash_canon { MerkleExample.E with pf := none } MerkleExample.A
    (by intro p hp; cases hp) 2 [5, 6, 7] (by decide)

/-! ## 3. the efficient recursion equals the literal specification -/

theorem two_pow_succ_mul (d m : Nat) : 2 ^ (d+1) * m = 2 * (2 ^ d * m) := by
  rw [Nat.pow_succ]; ac_rfl

theorem layerUp_append (A : HashAlg H) :
    ∀ (n : Nat) (l1 l2 : List H), l1.length = 2 * n →
      Spec.layerUp A (l1 ++ l2) = Spec.layerUp A l1 ++ Spec.layerUp A l2 := by
  intro n
  induction n with
  | zero =>
    intro l1 l2 h
    have : l1 = [] := List.length_eq_zero_iff.1 (by omega)
    subst this; simp [Spec.layerUp]
  | succ n ih =>
    intro l1 l2 h
    match l1, h with
    | a :: b :: rest, h =>
      simp only [List.cons_append, Spec.layerUp]
      rw [ih rest l2 (by simp only [List.length_cons] at h; omega)]

theorem layerUp_length (A : HashAlg H) :
    ∀ (n : Nat) (l : List H), l.length = 2 * n → (Spec.layerUp A l).length = n := by
  intro n
  induction n with
  | zero =>
    intro l h
    have : l = [] := List.length_eq_zero_iff.1 (by omega)
    subst this; simp [Spec.layerUp]
  | succ n ih =>
    intro l h
    match l, h with
    | a :: b :: rest, h =>
      simp only [Spec.layerUp, List.length_cons]
      rw [ih rest (by simp only [List.length_cons] at h; omega)]

theorem layerUp_replicate (A : HashAlg H) (x : H) :
    ∀ n : Nat, Spec.layerUp A (List.replicate (2 * n) x) = List.replicate n (A.h2 x x) := by
  intro n
  induction n with
  | zero => simp [Spec.layerUp]
  | succ n ih =>
    rw [show 2 * (n + 1) = (2 * n + 1) + 1 by omega, List.replicate_succ, List.replicate_succ]
    simp only [Spec.layerUp, ih, List.replicate_succ]

theorem iter_succ' (f : List H → List H) (n : Nat) (l : List H) :
    Spec.iter f (n+1) l = f (Spec.iter f n l) := by
  induction n generalizing l with
  | zero => rfl
  | succ n ih => rw [Spec.iter, ih]; rfl

/-- `d` reduction layers on a list of `2^d * m` elements leave `m` elements. -/
theorem iter_layerUp_length (A : HashAlg H) :
    ∀ (d m : Nat) (l : List H), l.length = 2 ^ d * m →
      (Spec.iter (Spec.layerUp A) d l).length = m := by
  intro d
  induction d with
  | zero => intro m l h; simpa [Spec.iter] using h
  | succ d ih =>
    intro m l h
    rw [Spec.iter]
    apply ih
    apply layerUp_length
    rw [h, two_pow_succ_mul]

/-- reduction layers distribute over the concatenation of aligned blocks. -/
theorem iter_layerUp_append (A : HashAlg H) :
    ∀ (d m : Nat) (l1 l2 : List H), l1.length = 2 ^ d * m →
      Spec.iter (Spec.layerUp A) d (l1 ++ l2)
        = Spec.iter (Spec.layerUp A) d l1 ++ Spec.iter (Spec.layerUp A) d l2 := by
  intro d
  induction d with
  | zero => intro m l1 l2 h; rfl
  | succ d ih =>
    intro m l1 l2 h
    have h' : l1.length = 2 * (2 ^ d * m) := by
      rw [h, two_pow_succ_mul]
    simp only [Spec.iter]
    rw [layerUp_append A _ l1 l2 h']
    exact ih m _ _ (layerUp_length A _ l1 h')

/-- `d` layers over `2^d * m` copies of the level-`k` zero hash give `m` copies of the
level-`k+d` zero hash. -/
theorem iter_layerUp_replicate (A : HashAlg H) :
    ∀ (d k m : Nat), Spec.iter (Spec.layerUp A) d (List.replicate (2 ^ d * m) (zeroHash A k))
        = List.replicate m (zeroHash A (k + d)) := by
  intro d
  induction d with
  | zero => intro k m; simp [Spec.iter]
  | succ d ih =>
    intro k m
    rw [Spec.iter, show 2 ^ (d+1) * m = 2 * (2 ^ d * m) by
      exact two_pow_succ_mul d m]
    rw [layerUp_replicate]
    have := ih (k+1) m
    rw [show zeroHash A (k+1) = A.h2 (zeroHash A k) (zeroHash A k) from rfl] at this
    rw [this, show k + 1 + d = k + (d + 1) by omega]

/-- the root of a complete list (`headD` of the full reduction). -/
def fullRoot (A : HashAlg H) (d : Nat) (l : List H) : H :=
  (Spec.iter (Spec.layerUp A) d l).headD A.zero

theorem iter_eq_fullRoot (A : HashAlg H) (d : Nat) (l : List H) (h : l.length = 2 ^ d) :
    Spec.iter (Spec.layerUp A) d l = [fullRoot A d l] := by
  have := iter_layerUp_length A d 1 l (by simpa using h)
  unfold fullRoot
  match hl : Spec.iter (Spec.layerUp A) d l, this with
  | [a], _ => rfl

theorem fullRoot_zero (A : HashAlg H) (d : Nat) :
    fullRoot A d (List.replicate (2 ^ d) A.zero) = zeroHash A d := by
  have := iter_layerUp_replicate A d 0 1
  simp only [Nat.mul_one, Nat.zero_add] at this
  unfold fullRoot
  rw [show A.zero = zeroHash A 0 from rfl, this]; rfl

/-- splitting a complete list of length `2·2^d` into halves. -/
theorem fullRoot_succ (A : HashAlg H) (d : Nat) (l : List H) (h : l.length = 2 ^ (d+1)) :
    fullRoot A (d+1) l = A.h2 (fullRoot A d (l.take (2 ^ d))) (fullRoot A d (l.drop (2 ^ d))) := by
  have h2 : 2 ^ (d+1) = 2 * 2 ^ d := by rw [Nat.pow_succ]; omega
  have ht : (l.take (2 ^ d)).length = 2 ^ d := by simp only [List.length_take]; omega
  have hd : (l.drop (2 ^ d)).length = 2 ^ d := by simp only [List.length_drop]; omega
  conv => lhs; rw [← List.take_append_drop (2 ^ d) l]
  unfold fullRoot
  rw [iter_succ', iter_layerUp_append A d 1 _ _ (by simpa using ht)]
  rw [iter_eq_fullRoot A d _ ht, iter_eq_fullRoot A d _ hd]
  simp [Spec.layerUp, fullRoot]

theorem merk_eq_fullRoot (A : HashAlg H) :
    ∀ (d : Nat) (cs : List H), cs.length ≤ 2 ^ d →
      Spec.merk A d cs = fullRoot A d (cs ++ List.replicate (2 ^ d - cs.length) A.zero) := by
  intro d
  induction d with
  | zero =>
    intro cs h
    match cs, h with
    | [], _ => simp [Spec.merk, fullRoot, Spec.iter, zeroHash]
    | [c], _ => simp [Spec.merk, fullRoot, Spec.iter]
  | succ d ih =>
    intro cs h
    cases cs with
    | nil =>
      rw [merk_nil]
      simp only [List.length_nil, Nat.sub_zero, List.nil_append]
      exact (fullRoot_zero A (d+1)).symm
    | cons c rest =>
      have h2 : 2 ^ (d+1) = 2 * 2 ^ d := by rw [Nat.pow_succ]; omega
      have hp : 0 < 2 ^ d := Nat.pow_pos (by decide)
      rw [fullRoot_succ A d _ (by simp only [List.length_append, List.length_replicate]; omega)]
      simp only [Spec.merk]
      rw [ih _ (by simp only [List.length_take]; omega),
          ih _ (by simp only [List.length_drop]; omega)]
      rw [List.take_append, List.drop_append, List.take_replicate, List.drop_replicate]
      congr 3
      · congr 1
        simp only [List.length_take]; omega
      · congr 1
        simp only [List.length_drop]; omega

/-- **`merk` is `merkleize`**: the padding-free recursion equals the literal "pad with zero chunks
to `2^d` and reduce pairwise" specification. -/
theorem merk_eq_naive (A : HashAlg H) (d : Nat) (cs : List H) (h : cs.length ≤ 2 ^ d) :
    Spec.merk A d cs = Spec.merkleizeNaive A cs d :=
  merk_eq_fullRoot A d cs h

/-- non-vacuity of `merk_eq_naive`: three chunks padded to `2^2`, and one chunk to `2^3`. -/
example : Spec.merk MerkleExample.A 2 [11, 12, 13]
    = Spec.merkleizeNaive MerkleExample.A [11, 12, 13] 2 :=
  merk_eq_naive MerkleExample.A 2 [11, 12, 13] (by decide)

example : Spec.merk MerkleExample.A 3 (Spec.chunksOf MerkleExample.E [1, 2, 3])
    = Spec.merkleizeNaive MerkleExample.A (Spec.chunksOf MerkleExample.E [1, 2, 3]) 3 :=
  merk_eq_naive MerkleExample.A 3 _ (by decide)

/-! ## 4. milhouse's depth is the depth of the SSZ chunk limit -/

theorem ceilDiv_le (N p M : Nat) (hp : 0 < p) (h : N ≤ M * p) : (N + p - 1) / p ≤ M := by
  apply Nat.le_of_lt_succ
  rw [Nat.div_lt_iff_lt_mul hp, Nat.succ_mul]
  omega

theorem le_ceilDiv_mul (N p : Nat) (hp : 0 < p) : N ≤ (N + p - 1) / p * p := by
  have h1 := Nat.div_add_mod (N + p - 1) p
  have h2 := Nat.mod_lt (N + p - 1) hp
  rw [Nat.mul_comm] at h1
  omega

theorem ceilDiv_le_self (N p : Nat) (hp : 0 < p) : (N + p - 1) / p ≤ N := by
  apply ceilDiv_le N p N hp
  exact Nat.le_mul_of_pos_right N hp

theorem intLog_ceilDiv (N k : Nat) (h2 : N ≤ 2 ^ 64) :
    intLog ((N + 2 ^ k - 1) / 2 ^ k) = intLog N - k := by
  have hp : 0 < 2 ^ k := Nat.pow_pos (by decide)
  have hN := le_pow_intLog N h2
  apply Nat.le_antisymm
  · apply intLog_le
    by_cases hak : k ≤ intLog N
    · apply ceilDiv_le _ _ _ hp
      rw [← Nat.pow_add, Nat.sub_add_cancel hak]; exact hN
    · have : intLog N - k = 0 := by omega
      rw [this]
      apply ceilDiv_le _ _ _ hp
      have : 2 ^ intLog N ≤ 2 ^ k := Nat.pow_le_pow_right (by decide) (by omega)
      omega
  · have hc : (N + 2 ^ k - 1) / 2 ^ k ≤ 2 ^ 64 :=
      Nat.le_trans (ceilDiv_le_self N _ hp) h2
    have hb := le_pow_intLog _ hc
    have hN2 := le_ceilDiv_mul N (2 ^ k) hp
    have : N ≤ 2 ^ (intLog ((N + 2 ^ k - 1) / 2 ^ k) + k) := by
      rw [Nat.pow_add]
      exact Nat.le_trans hN2 (Nat.mul_le_mul_right _ hb)
    have := intLog_le _ _ this
    omega

/-- `List::depth()` = `ceil(log2 N) - packing depth` (saturating) is exactly the depth of the SSZ
chunk limit `ceil(N / pf)`. (The hypothesis `1 ≤ N` of the target statement is not needed.) -/
theorem depth_is_limit_depth (E : Elem T H) (hpf : PfOK E.pf) (N : Nat) (_h1 : 1 ≤ N)
    (h2 : N ≤ 2 ^ 64) : listDepth E.pf N = Spec.limitDepth (Spec.chunkLimit E N) := by
  unfold listDepth Spec.limitDepth Spec.chunkLimit
  cases hp : E.pf with
  | none => rfl
  | some p =>
    obtain ⟨k, hk, rfl⟩ := hpf p hp
    simp only
    rw [intLog_ceilDiv N k h2, intLog_pow k (by omega)]

/-- non-vacuity of `depth_is_limit_depth`: `List<u64, 16>` has depth 2, `List<u64, 2^40>` depth
38, and a capacity below the packing factor saturates at depth 0. -/
example : listDepth MerkleExample.E.pf 16 = Spec.limitDepth (Spec.chunkLimit MerkleExample.E 16) :=
  depth_is_limit_depth MerkleExample.E MerkleExample.pfOK 16 (by decide) (by decide)
example : listDepth MerkleExample.E.pf 16 = 2 := by decide
example : listDepth MerkleExample.E.pf (2 ^ 40)
    = Spec.limitDepth (Spec.chunkLimit MerkleExample.E (2 ^ 40)) :=
  depth_is_limit_depth MerkleExample.E MerkleExample.pfOK (2 ^ 40) (Nat.pow_pos (by decide))
    (Nat.pow_le_pow_right (by decide) (by decide))
example : listDepth MerkleExample.E.pf 3 = Spec.limitDepth (Spec.chunkLimit MerkleExample.E 3) :=
  depth_is_limit_depth MerkleExample.E MerkleExample.pfOK 3 (by decide) (by decide)

/-! ## 5. sequential hashing is correct and creates no stale memo -/

/-- frame / monotonicity of the memo store: every memo after is the memo before, or the memo
before was absent and the id is registered to a node whose true hash it now holds. -/
def MemoFrame (E : Elem T H) (A : HashAlg H) (f : Registry T) (h h' : Heap H) : Prop :=
  ∀ id, h'.read A.zero id = h.read A.zero id ∨
    (h.read A.zero id = A.zero ∧ ∃ s, f id = some s ∧ h'.read A.zero id = trueHash E A s)

theorem MemoFrame.refl (E : Elem T H) (A : HashAlg H) (f : Registry T) (h : Heap H) :
    MemoFrame E A f h h := fun _ => Or.inl rfl

theorem MemoFrame.trans {E : Elem T H} {A : HashAlg H} {f : Registry T} {h1 h2 h3 : Heap H}
    (a : MemoFrame E A f h1 h2) (b : MemoFrame E A f h2 h3) : MemoFrame E A f h1 h3 := by
  intro id
  rcases a id with a1 | ⟨a0, s, hs, a1⟩ <;> rcases b id with b1 | ⟨b0, s', hs', b1⟩
  · left; rw [b1, a1]
  · right; exact ⟨by rw [← a1]; exact b0, s', hs', b1⟩
  · right; exact ⟨a0, s, hs, by rw [b1]; exact a1⟩
  · right; exact ⟨a0, s', hs', b1⟩

theorem HeapOK.write_true {E : Elem T H} {A : HashAlg H} {f : Registry T} {h : Heap H}
    (hok : HeapOK E A f h) (id : Nat) (s : Tree T) (hf : f id = some s) :
    HeapOK E A f (h.write id (trueHash E A s)) := by
  constructor
  · intro i s' hs'; rw [Heap.next_write]; exact hok.bound i s' hs'
  · intro i s' hs'
    by_cases hi : i = id
    · subst hi
      rw [hf] at hs'; cases hs'
      right; exact Heap.read_write_same _ _ _ _ (hok.bound _ _ hf)
    · rw [Heap.read_write_other _ _ _ _ _ (Ne.symm hi)]; exact hok.memo i s' hs'

theorem MemoFrame.write_true {E : Elem T H} {A : HashAlg H} {f : Registry T} {h : Heap H}
    (hok : HeapOK E A f h) (id : Nat) (s : Tree T) (hf : f id = some s)
    (hz : h.read A.zero id = A.zero) :
    MemoFrame E A f h (h.write id (trueHash E A s)) := by
  intro i
  by_cases hi : i = id
  · subst hi
    right
    exact ⟨hz, s, hf, Heap.read_write_same _ _ _ _ (hok.bound _ _ hf)⟩
  · left; exact Heap.read_write_other _ _ _ _ _ (Ne.symm hi)

theorem treeHash_full [DecidableEq H] (E : Elem T H) (A : HashAlg H) (f : Registry T) :
    ∀ (t : Tree T) (h : Heap H), HeapOK E A f h → Registered f t →
      (treeHash E A h t).1 = trueHash E A t ∧ HeapOK E A f (treeHash E A h t).2 ∧
      (treeHash E A h t).2.next = h.next ∧ MemoFrame E A f h (treeHash E A h t).2 := by
  intro t
  induction t with
  | leaf id v =>
    intro h hok hreg
    have hf : f id = some (.leaf id v) := hreg.self
    simp only [treeHash]
    split
    · rename_i hne
      refine ⟨?_, hok, rfl, MemoFrame.refl _ _ _ _⟩
      rcases hok.memo _ _ hf with h0 | h1
      · exact absurd h0 hne
      · exact h1
    · rename_i hz
      have hz' : h.read A.zero id = A.zero := Decidable.not_not.1 hz
      exact ⟨rfl, hok.write_true id _ hf, Heap.next_write .., MemoFrame.write_true hok id _ hf hz'⟩
  | packed id vs =>
    intro h hok hreg
    have hf : f id = some (.packed id vs) := hreg.self
    simp only [treeHash]
    split
    · rename_i hne
      refine ⟨?_, hok, rfl, MemoFrame.refl _ _ _ _⟩
      rcases hok.memo _ _ hf with h0 | h1
      · exact absurd h0 hne
      · exact h1
    · rename_i hz
      have hz' : h.read A.zero id = A.zero := Decidable.not_not.1 hz
      exact ⟨rfl, hok.write_true id _ hf, Heap.next_write .., MemoFrame.write_true hok id _ hf hz'⟩
  | zero id d =>
    intro h hok hreg
    exact ⟨rfl, hok, rfl, MemoFrame.refl _ _ _ _⟩
  | node id l r ihl ihr =>
    intro h hok hreg
    have hf : f id = some (.node id l r) := hreg.self
    simp only [treeHash]
    split
    · rename_i hne
      refine ⟨?_, hok, rfl, MemoFrame.refl _ _ _ _⟩
      rcases hok.memo _ _ hf with h0 | h1
      · exact absurd h0 hne
      · exact h1
    · rename_i hz
      have hz' : h.read A.zero id = A.zero := Decidable.not_not.1 hz
      obtain ⟨l1, l2, l3, l4⟩ := ihl h hok hreg.node_left
      obtain ⟨r1, r2, r3, r4⟩ := ihr (treeHash E A h l).2 l2 hreg.node_right
      have hx : A.h2 (treeHash E A h l).1 (treeHash E A (treeHash E A h l).2 r).1
          = trueHash E A (.node id l r) := by
        rw [l1, r1]; rfl
      simp only [hx]
      refine ⟨trivial, r2.write_true id _ hf, ?_, ?_⟩
      · rw [Heap.next_write, r3, l3]
      · -- the final write fills `id`, whose memo was absent in the *initial* heap
        intro i
        by_cases hi : i = id
        · subst hi
          right
          exact ⟨hz', _, hf, Heap.read_write_same _ _ _ _ (r2.bound _ _ hf)⟩
        · rw [Heap.read_write_other _ _ _ _ _ (Ne.symm hi)]
          exact (l4.trans r4) i

/-- **Sequential `tree_hash` is correct and never creates a stale memo** (hashing half of C03):
it returns the true hash, preserves `HeapOK`, allocates nothing. -/
theorem treeHash_spec [DecidableEq H] (E : Elem T H) (A : HashAlg H) (f : Registry T)
    (t : Tree T) (h : Heap H) (hok : HeapOK E A f h) (hreg : Registered f t) :
    (treeHash E A h t).1 = trueHash E A t ∧ HeapOK E A f (treeHash E A h t).2 ∧
    (treeHash E A h t).2.next = h.next :=
  let ⟨a, b, c, _⟩ := treeHash_full E A f t h hok hreg
  ⟨a, b, c⟩

/-- frame / monotonicity: for every id, the memo after `tree_hash` is the memo before, or the memo
before was zero and the id is registered to a node whose true hash it now holds. -/
theorem treeHash_frame [DecidableEq H] (E : Elem T H) (A : HashAlg H) (f : Registry T)
    (t : Tree T) (h : Heap H) (hok : HeapOK E A f h) (hreg : Registered f t) (id : Nat) :
    (treeHash E A h t).2.read A.zero id = h.read A.zero id ∨
      (h.read A.zero id = A.zero ∧
        ∃ s, f id = some s ∧ (treeHash E A h t).2.read A.zero id = trueHash E A s) :=
  (treeHash_full E A f t h hok hreg).2.2.2 id

/-- non-vacuity of `treeHash_spec` / `treeHash_frame`: a five-node tree, all memos absent. -/
example : (treeHash MerkleExample.E MerkleExample.A MerkleExample.h0 MerkleExample.t0).1
      = trueHash MerkleExample.E MerkleExample.A MerkleExample.t0 ∧
    HeapOK MerkleExample.E MerkleExample.A MerkleExample.f
      (treeHash MerkleExample.E MerkleExample.A MerkleExample.h0 MerkleExample.t0).2 ∧
    (treeHash MerkleExample.E MerkleExample.A MerkleExample.h0 MerkleExample.t0).2.next
      = MerkleExample.h0.next :=
  treeHash_spec MerkleExample.E MerkleExample.A MerkleExample.f MerkleExample.t0 MerkleExample.h0
    MerkleExample.heapOK MerkleExample.reg

/-- the memos really are filled (so the "registered, now true hash" branch of the frame is
inhabited): node 1 had an absent memo and holds a non-zero hash afterwards. -/
example : (treeHash MerkleExample.E MerkleExample.A MerkleExample.h0 MerkleExample.t0).2.read 0 1
    = 14247 := by decide

/-! ## 6. `tree_hash_root` = SSZ `hash_tree_root` (C02) -/

theorem UMap.maxIndex_of_isEmpty (m : UMap T) (h : m.isEmpty = true) : m.maxIndex = none := by
  cases m with
  | btree l =>
    simp only [UMap.isEmpty, UMap.entries, List.isEmpty_iff] at h
    subst h; rfl
  | vec v =>
    simp only [UMap.isEmpty, UMap.entries, List.isEmpty_iff] at h
    simp [UMap.maxIndex, h]
  | maxvec v mk =>
    simp only [UMap.isEmpty, UMap.entries] at h
    simp [UMap.maxIndex, h]

/-- without pending writes, `Interface::len` is the backing length. -/
theorem Coll.len_of_isEmpty (c : Coll T) (h : c.updates.isEmpty = true) : c.len = c.length := by
  unfold Coll.len; rw [UMap.maxIndex_of_isEmpty _ h]

theorem Coll.hasPending_of_isEmpty (c : Coll T) (h : c.updates.isEmpty = true) :
    c.hasPending = false := by
  simp [Coll.hasPending, h]

/-- a list/vector of at most `N` elements fits in the tree of depth `listDepth pf N`. -/
theorem le_cap_listDepth (pf : Option Nat) (hpf : PfOK pf) (N : Nat) (h2 : N ≤ 2 ^ 64) :
    N ≤ cap pf (listDepth pf N) := by
  rw [cap_eq_pow pf hpf]
  have hN := le_pow_intLog N h2
  refine Nat.le_trans hN (Nat.pow_le_pow_right (by decide) ?_)
  unfold listDepth pdOf
  cases pf with
  | none => simp
  | some p => simp only; omega

/-- the common part of the two root theorems: the root hash computed by `tree_hash` is the SSZ
merkleization of the chunks at the depth of the chunk limit. -/
theorem treeHash_root_is_merk [DecidableEq H] (E : Elem T H) (A : HashAlg H)
    (f : Registry T) (c : Coll T) (h : Heap H) (N : Nat) (xs : List T)
    (hpf : PfOK E.pf)
    (htree : c.tree.erase = canon E.pf c.depth xs)
    (hdepth : c.depth = listDepth E.pf N) (hcap : xs.length ≤ cap E.pf c.depth)
    (hok : HeapOK E A f h) (hreg : Registered f c.tree) (hN1 : 1 ≤ N) (hN2 : N ≤ 2 ^ 64) :
    (treeHash E A h c.tree).1
        = Spec.merk A (Spec.limitDepth (Spec.chunkLimit E N)) (Spec.chunksOf E xs) ∧
      HeapOK E A f (treeHash E A h c.tree).2 := by
  obtain ⟨a, b, _⟩ := treeHash_spec E A f c.tree h hok hreg
  refine ⟨?_, b⟩
  rw [a, trueHash_canon E A hpf c.tree c.depth xs htree hcap, hdepth,
    depth_is_limit_depth E hpf N hN1 hN2]

/-- **C02 (List)**: with no pending writes, `List::tree_hash_root` of a list whose tree is the
canonical tree of `xs` returns the SSZ `hash_tree_root` of `List[T, N]` holding `xs`, and leaves
every memo valid. -/
theorem C02_list_root_is_spec [DecidableEq H] (E : Elem T H) (A : HashAlg H) (mixIn : H → Nat → H)
    (f : Registry T) (c : Coll T) (h : Heap H) (N : Nat) (xs : List T)
    (hpf : PfOK E.pf) (hkind : c.kind = .list) (hupd : c.updates.isEmpty = true)
    (htree : c.tree.erase = canon E.pf c.depth xs) (hlen : c.length = xs.length)
    (hdepth : c.depth = listDepth E.pf N) (hcap : xs.length ≤ cap E.pf c.depth)
    (hok : HeapOK E A f h) (hreg : Registered f c.tree) (hN1 : 1 ≤ N) (hN2 : N ≤ 2 ^ 64) :
    ∃ h', Coll.treeHashRoot E A mixIn c h = .ok (Spec.listRoot E A mixIn N xs, h') ∧
      HeapOK E A f h' := by
  obtain ⟨a, b⟩ := treeHash_root_is_merk E A f c h N xs hpf htree hdepth hcap hok hreg hN1 hN2
  refine ⟨(treeHash E A h c.tree).2, ?_, b⟩
  unfold Coll.treeHashRoot Spec.listRoot
  simp only [Coll.hasPending_of_isEmpty c hupd, hkind, Coll.len_of_isEmpty c hupd, hlen, a]
  rfl

/-- **C02 (Vector)**: `Vector::tree_hash_root` returns the SSZ `hash_tree_root` of
`Vector[T, N]` holding `xs`. -/
theorem C02_vector_root_is_spec [DecidableEq H] (E : Elem T H) (A : HashAlg H)
    (mixIn : H → Nat → H)
    (f : Registry T) (c : Coll T) (h : Heap H) (N : Nat) (xs : List T)
    (hpf : PfOK E.pf) (hkind : c.kind = .vector) (hupd : c.updates.isEmpty = true)
    (htree : c.tree.erase = canon E.pf c.depth xs) (_hlen : c.length = xs.length)
    (hdepth : c.depth = listDepth E.pf N) (hcap : xs.length ≤ cap E.pf c.depth)
    (hok : HeapOK E A f h) (hreg : Registered f c.tree) (hN1 : 1 ≤ N) (hN2 : N ≤ 2 ^ 64) :
    ∃ h', Coll.treeHashRoot E A mixIn c h = .ok (Spec.vectorRoot E A N xs, h') ∧
      HeapOK E A f h' := by
  obtain ⟨a, b⟩ := treeHash_root_is_merk E A f c h N xs hpf htree hdepth hcap hok hreg hN1 hN2
  refine ⟨(treeHash E A h c.tree).2, ?_, b⟩
  unfold Coll.treeHashRoot Spec.vectorRoot
  simp only [Coll.hasPending_of_isEmpty c hupd, hkind, a]
  rfl

/-- the number of chunks never exceeds the padded width `2^limitDepth`, so `Spec.listRoot` /
`Spec.vectorRoot` are the literal `merkleize` with materialised zero padding. -/
theorem listRoot_eq_naive (E : Elem T H) (A : HashAlg H) (mixIn : H → Nat → H) (N : Nat)
    (xs : List T) (hpf : PfOK E.pf) (hN1 : 1 ≤ N) (hN2 : N ≤ 2 ^ 64)
    (hcap : xs.length ≤ cap E.pf (listDepth E.pf N)) :
    Spec.listRoot E A mixIn N xs
      = mixIn (Spec.merkleizeNaive A (Spec.chunksOf E xs) (Spec.limitDepth (Spec.chunkLimit E N)))
          xs.length := by
  unfold Spec.listRoot
  rw [merk_eq_naive]
  rw [← depth_is_limit_depth E hpf N hN1 hN2]
  exact chunksOf_length_le E hpf xs _ hcap

theorem vectorRoot_eq_naive (E : Elem T H) (A : HashAlg H) (N : Nat)
    (xs : List T) (hpf : PfOK E.pf) (hN1 : 1 ≤ N) (hN2 : N ≤ 2 ^ 64)
    (hcap : xs.length ≤ cap E.pf (listDepth E.pf N)) :
    Spec.vectorRoot E A N xs
      = Spec.merkleizeNaive A (Spec.chunksOf E xs) (Spec.limitDepth (Spec.chunkLimit E N)) := by
  unfold Spec.vectorRoot
  rw [merk_eq_naive]
  rw [← depth_is_limit_depth E hpf N hN1 hN2]
  exact chunksOf_length_le E hpf xs _ hcap

/-- **C02 (List) against the literal specification**: pad the chunks with zero chunks up to
`next_pow_of_two(chunk_count)`, reduce pairwise, mix in the length. -/
theorem C02_list_root_is_naive_spec [DecidableEq H] (E : Elem T H) (A : HashAlg H)
    (mixIn : H → Nat → H)
    (f : Registry T) (c : Coll T) (h : Heap H) (N : Nat) (xs : List T)
    (hpf : PfOK E.pf) (hkind : c.kind = .list) (hupd : c.updates.isEmpty = true)
    (htree : c.tree.erase = canon E.pf c.depth xs) (hlen : c.length = xs.length)
    (hdepth : c.depth = listDepth E.pf N) (hcap : xs.length ≤ cap E.pf c.depth)
    (hok : HeapOK E A f h) (hreg : Registered f c.tree) (hN1 : 1 ≤ N) (hN2 : N ≤ 2 ^ 64) :
    ∃ h', Coll.treeHashRoot E A mixIn c h
        = .ok (mixIn (Spec.merkleizeNaive A (Spec.chunksOf E xs)
                (Spec.limitDepth (Spec.chunkLimit E N))) xs.length, h') ∧
      HeapOK E A f h' := by
  rw [← listRoot_eq_naive E A mixIn N xs hpf hN1 hN2 (by rw [← hdepth]; exact hcap)]
  exact C02_list_root_is_spec E A mixIn f c h N xs hpf hkind hupd htree hlen hdepth hcap hok hreg
    hN1 hN2

/-- **C02 (Vector) against the literal specification**. -/
theorem C02_vector_root_is_naive_spec [DecidableEq H] (E : Elem T H) (A : HashAlg H)
    (mixIn : H → Nat → H)
    (f : Registry T) (c : Coll T) (h : Heap H) (N : Nat) (xs : List T)
    (hpf : PfOK E.pf) (hkind : c.kind = .vector) (hupd : c.updates.isEmpty = true)
    (htree : c.tree.erase = canon E.pf c.depth xs) (hlen : c.length = xs.length)
    (hdepth : c.depth = listDepth E.pf N) (hcap : xs.length ≤ cap E.pf c.depth)
    (hok : HeapOK E A f h) (hreg : Registered f c.tree) (hN1 : 1 ≤ N) (hN2 : N ≤ 2 ^ 64) :
    ∃ h', Coll.treeHashRoot E A mixIn c h
        = .ok (Spec.merkleizeNaive A (Spec.chunksOf E xs)
                (Spec.limitDepth (Spec.chunkLimit E N)), h') ∧
      HeapOK E A f h' := by
  rw [← vectorRoot_eq_naive E A N xs hpf hN1 hN2 (by rw [← hdepth]; exact hcap)]
  exact C02_vector_root_is_spec E A mixIn f c h N xs hpf hkind hupd htree hlen hdepth hcap hok
    hreg hN1 hN2

/-! ### non-vacuity of the root theorems -/

example : ∃ h', Coll.treeHashRoot MerkleExample.E MerkleExample.A MerkleExample.mixIn
      MerkleExample.c MerkleExample.h0
      = .ok (Spec.listRoot MerkleExample.E MerkleExample.A MerkleExample.mixIn 16 [1, 2, 3], h')
    ∧ HeapOK MerkleExample.E MerkleExample.A MerkleExample.f h' :=
  C02_list_root_is_spec MerkleExample.E MerkleExample.A MerkleExample.mixIn MerkleExample.f
    MerkleExample.c MerkleExample.h0 16 [1, 2, 3] MerkleExample.pfOK rfl rfl
    MerkleExample.tree_canon rfl (by decide) (by decide) MerkleExample.heapOK MerkleExample.reg
    (by decide) (by decide)

example : ∃ h', Coll.treeHashRoot MerkleExample.E MerkleExample.A MerkleExample.mixIn
      MerkleExample.cv MerkleExample.h0
      = .ok (Spec.vectorRoot MerkleExample.E MerkleExample.A 16 [1, 2, 3], h')
    ∧ HeapOK MerkleExample.E MerkleExample.A MerkleExample.f h' :=
  C02_vector_root_is_spec MerkleExample.E MerkleExample.A MerkleExample.mixIn MerkleExample.f
    MerkleExample.cv MerkleExample.h0 16 [1, 2, 3] MerkleExample.pfOK rfl rfl
    MerkleExample.tree_canon rfl (by decide) (by decide) MerkleExample.heapOK MerkleExample.reg
    (by decide) (by decide)

example : ∃ h', Coll.treeHashRoot MerkleExample.E MerkleExample.A MerkleExample.mixIn
      MerkleExample.c MerkleExample.h0
      = .ok (MerkleExample.mixIn (Spec.merkleizeNaive MerkleExample.A
          (Spec.chunksOf MerkleExample.E [1, 2, 3])
          (Spec.limitDepth (Spec.chunkLimit MerkleExample.E 16))) 3, h')
    ∧ HeapOK MerkleExample.E MerkleExample.A MerkleExample.f h' :=
  C02_list_root_is_naive_spec MerkleExample.E MerkleExample.A MerkleExample.mixIn MerkleExample.f
    MerkleExample.c MerkleExample.h0 16 [1, 2, 3] MerkleExample.pfOK rfl rfl
    MerkleExample.tree_canon rfl (by decide) (by decide) MerkleExample.heapOK MerkleExample.reg
    (by decide) (by decide)

/-- the concrete values: model and specification both give `28498003`. -/
example : Coll.treeHashRoot MerkleExample.E MerkleExample.A MerkleExample.mixIn
      MerkleExample.c MerkleExample.h0
    = .ok (28498003, ⟨#[28498, 14247, 7123, 0, 0]⟩) := by rfl
example : Spec.listRoot MerkleExample.E MerkleExample.A MerkleExample.mixIn 16 [1, 2, 3]
    = 28498003 := by decide

end Milhouse
