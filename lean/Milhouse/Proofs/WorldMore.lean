import Milhouse.Proofs.WorldSsz

/-!
# Corollaries of the multi-handle refinement (`xrun_refines`)

* **C14 over multi-handle histories**: the plain-sequence specification does not mention the
  pending-update map at all, so two configurations that differ only in the map type produce the
  same outputs along EVERY X-history (writes, bulk updates, flushes, clones, rebases,
  intra-rebases, pops, conversions, roots, equality, SSZ / serde encode and decode).
* **C15 over multi-handle histories**: along every X-history the only output that is the panic
  outcome is the documented refusal to hash a handle with pending writes; every other call returns
  a value or one of the plain model's errors, and a call that reports an error leaves the plain
  state of every handle unchanged except for `pop_front` beyond the length, whose only effect is
  the flush that precedes the bounds check.
-/

namespace Milhouse
variable {T H : Type}

set_option linter.unusedSectionVars false
set_option linter.unusedSimpArgs false

section More
variable [DecidableEq T] [DecidableEq H]
variable {E : Elem T H} {A : HashAlg H} {mixIn : H → Nat → H}

/-- **C14, every multi-handle history.** Two configurations with the same capacity and different
pending-update map types answer every operation of every X-history identically. -/
theorem C14_world_map_independent {cfg cfg' : Cfg} (hN : cfg.N = cfg'.N)
    (K : CfgOK E.pf cfg) (hE : CodecOK E) (hcf : CollisionFree E A) (nz : NoZeroNode A)
    (ops : List (XOp T)) :
    (xrun E A mixIn cfg MWorld.empty ops).1 = (xrun E A mixIn cfg' MWorld.empty ops).1 := by
  have K' : CfgOK E.pf cfg' := ⟨K.pf, hN ▸ K.pos, hN ▸ K.le⟩
  rw [(xrun_refines (mixIn := mixIn) K hE hcf nz ops).1,
    (xrun_refines (mixIn := mixIn) K' hE hcf nz ops).1, hN]

/-- the same for histories without SSZ / serde operations (no codec hypothesis needed beyond the
one `xrun_refines` asks for; stated on `wrun` for use next to `world_refines`). -/
theorem C14_wrun_map_independent {cfg cfg' : Cfg} (hN : cfg.N = cfg'.N)
    (K : CfgOK E.pf cfg) (hcf : CollisionFree E A) (nz : NoZeroNode A) (ops : List (WOp T)) :
    (wrun E A mixIn cfg MWorld.empty ops).1 = (wrun E A mixIn cfg' MWorld.empty ops).1 := by
  have K' : CfgOK E.pf cfg' := ⟨K.pf, hN ▸ K.pos, hN ▸ K.le⟩
  rw [(wrun_refines (mixIn := mixIn) K hcf nz (regFacts_holds E A cfg) ops).1,
    (wrun_refines (mixIn := mixIn) K' hcf nz (regFacts_holds E A cfg') ops).1, hN]

/-- which plain-model step can answer with the panic outcome: only `root` of a handle with pending
writes. -/
theorem wsstep_panic (N : Nat) (s : SWorld T) (o : WOp T)
    (h : (wsstep E A mixIn N s o).1 = .out (.error .panic)) :
    ∃ i e, o = .root i ∧ s[i]? = some e ∧ e.2.2 = true := by
  cases o with
  | on i op =>
    simp only [wsstep] at h
    split at h
    · cases h
    · rename_i e he
      simp only [WOut.out.injEq] at h
      exact absurd rfl ((sstep_error N e.1 (e.2.1, e.2.2) op .panic h).2.ne_panic)
  | clone i => simp only [wsstep] at h; split at h <;> cases h
  | newFromIter k xs =>
    cases k with
    | list => simp only [wsstep] at h; split at h <;> cases h
    | vector => simp only [wsstep] at h; split at h <;> (try split at h) <;> cases h
  | newRepeat x n => simp only [wsstep] at h; split at h <;> cases h
  | fromElem x => simp only [wsstep] at h; cases h
  | pop i n =>
    simp only [wsstep] at h
    split at h
    · cases h
    · split at h
      · cases h
      · split at h <;> cases h
  | toVector i =>
    simp only [wsstep] at h
    split at h
    · cases h
    · split at h
      · cases h
      · split at h <;> cases h
  | toList i =>
    simp only [wsstep] at h
    split at h
    · cases h
    · split at h <;> cases h
  | rebase i j =>
    simp only [wsstep] at h
    split at h
    · split at h <;> cases h
    · cases h
  | intra i => simp only [wsstep] at h; split at h <;> cases h
  | root i =>
    simp only [wsstep] at h
    split at h
    · cases h
    · rename_i e he
      split at h
      · rename_i hp; exact ⟨i, e, rfl, he, hp⟩
      · split at h <;> cases h
  | eqFlushed i j =>
    simp only [wsstep] at h
    split at h
    · split at h <;> cases h
    · cases h

/-- the same for X-operations: the SSZ / serde operations never answer with the panic outcome. -/
theorem xsstep_panic (N : Nat) (s : SWorld T) (o : XOp T)
    (h : (xsstep E A mixIn N s o).1 = .w (.out (.error .panic))) :
    ∃ i e, o = .w (.root i) ∧ s[i]? = some e ∧ e.2.2 = true := by
  cases o with
  | w o =>
    simp only [xsstep, XOut.w.injEq] at h
    obtain ⟨i, e, ho, he, hp⟩ := wsstep_panic N s o h
    exact ⟨i, e, by rw [ho], he, hp⟩
  | sszEncode i => simp only [xsstep] at h; split at h <;> cases h
  | newFromSsz k bs =>
    simp only [xsstep] at h
    split at h
    · cases h
    · split at h <;> cases h
  | serdeSer i => simp only [xsstep] at h; split at h <;> cases h
  | newFromSerde k xs => simp only [xsstep] at h; split at h <;> cases h

/-- outputs of an X-history on the plain sequences, position by position: the `k`-th output is the
output of the `k`-th operation in the state reached by the first `k` operations. -/
theorem xsrun_getElem (N : Nat) (ops : List (XOp T)) : ∀ (s : SWorld T) (k : Nat) (o : XOp T),
    ops[k]? = some o →
      (xsrun E A mixIn N s ops).1[k]? =
        some (xsstep E A mixIn N (xsrun E A mixIn N s (ops.take k)).2 o).1 := by
  induction ops with
  | nil => intro s k o h; cases h
  | cons op rest ih =>
    intro s k o h
    cases k with
    | zero =>
      simp only [List.getElem?_cons_zero, Option.some.injEq] at h
      subst h
      simp [xsrun]
    | succ k =>
      simp only [List.getElem?_cons_succ] at h
      simp only [xsrun, List.getElem?_cons_succ, List.take_succ_cons]
      exact ih _ k o h

/-- **C15, every multi-handle history: no panics.** Along every X-history started in the empty
world — any number of related handles, writes, bulk updates, flushes, clones, rebases,
intra-rebases, pops, conversions, roots, equality tests, SSZ / serde encoding and decoding of
arbitrary input — the model answers with the panic outcome at position `k` only if the `k`-th
operation is `tree_hash_root` of a handle that has pending writes at that moment (the documented
refusal). -/
theorem C15_world_no_panic {cfg : Cfg} (K : CfgOK E.pf cfg) (hE : CodecOK E)
    (hcf : CollisionFree E A) (nz : NoZeroNode A) (ops : List (XOp T)) (k : Nat) (o : XOp T)
    (ho : ops[k]? = some o)
    (hp : (xrun E A mixIn cfg MWorld.empty ops).1[k]? = some (.w (.out (.error .panic)))) :
    ∃ i e, o = .w (.root i) ∧
      (xsrun E A mixIn cfg.N [] (ops.take k)).2[i]? = some e ∧ e.2.2 = true := by
  rw [(xrun_refines (mixIn := mixIn) K hE hcf nz ops).1, xsrun_getElem cfg.N ops [] k o ho] at hp
  simp only [Option.some.injEq] at hp
  exact xsstep_panic cfg.N _ o hp

/-- a history without root computations never answers with the panic outcome. -/
theorem C15_world_no_panic_without_roots {cfg : Cfg} (K : CfgOK E.pf cfg) (hE : CodecOK E)
    (hcf : CollisionFree E A) (nz : NoZeroNode A) (ops : List (XOp T))
    (hr : ∀ i, XOp.w (.root i) ∉ ops) :
    ∀ out ∈ (xrun E A mixIn cfg MWorld.empty ops).1, out ≠ .w (.out (.error .panic)) := by
  intro out hout he
  subst he
  obtain ⟨k, hk⟩ := List.getElem?_of_mem hout
  have hlen : k < ops.length := by
    have h1 := (List.getElem?_eq_some_iff.mp hk).1
    rw [(xrun_refines (mixIn := mixIn) K hE hcf nz ops).1, length_xsrun] at h1
    exact h1
  obtain ⟨i, e, ho, _, _⟩ :=
    C15_world_no_panic K hE hcf nz ops k ops[k] (List.getElem?_eq_getElem hlen) hk
  exact hr i (ho ▸ List.getElem_mem hlen)

/-- what an observer of contents sees of the plain world: kind and element sequence per handle. -/
def contentsOf (s : SWorld T) : List (CKind × List T) := s.map (fun e => (e.1, e.2.1))

theorem contentsOf_set_same (s : SWorld T) (i : Nat) (e e' : CKind × List T × Bool)
    (he : s[i]? = some e) (h1 : e'.1 = e.1) (h2 : e'.2.1 = e.2.1) :
    contentsOf (s.set i e') = contentsOf s := by
  unfold contentsOf
  apply List.ext_getElem?
  intro k
  simp only [List.getElem?_map, List.getElem?_set]
  by_cases hk : i = k
  · subst hk
    have hlt : i < s.length := (List.getElem?_eq_some_iff.mp he).1
    simp only [hlt, if_true, he, Option.map_some, h1, h2]
  · simp only [hk, if_false]

/-- **C15, rejected calls on the plain world:** a world operation that reports an error (the panic
outcome of hashing a dirty handle included) leaves the kind and the contents of every handle as
they were, and creates no handle. -/
theorem wsstep_error_contents (N : Nat) (s : SWorld T) (o : WOp T) (e : Err)
    (h : (wsstep E A mixIn N s o).1 = .out (.error e)) :
    contentsOf (wsstep E A mixIn N s o).2 = contentsOf s := by
  cases o with
  | on i op =>
    simp only [wsstep] at h ⊢
    split at h
    · cases h
    · rename_i en he
      try simp only [he]
      simp only [WOut.out.injEq] at h
      have hs := (sstep_error N en.1 (en.2.1, en.2.2) op e h).1
      exact contentsOf_set_same s i en _ he rfl (by rw [hs])
  | clone i => simp only [wsstep] at h; split at h <;> cases h
  | newFromIter k xs =>
    cases k with
    | list =>
      simp only [wsstep] at h ⊢
      split at h
      · cases h
      · rename_i hc; rw [if_neg hc]
    | vector =>
      simp only [wsstep] at h ⊢
      split at h
      · rename_i hc; rw [if_pos hc]
      · rename_i hc
        rw [if_neg hc]
        split at h
        · cases h
        · rename_i hc2; rw [if_neg hc2]
  | newRepeat x n =>
    simp only [wsstep] at h ⊢
    split at h
    · cases h
    · rename_i hc; rw [if_neg hc]
  | fromElem x => simp only [wsstep] at h; cases h
  | pop i n =>
    simp only [wsstep] at h ⊢
    split at h
    · cases h
    · rename_i en he
      try simp only [he]
      split at h
      · cases h
      · rename_i hk
        try simp only [hk]
        split at h
        · cases h
        · rename_i hc
          rw [if_neg hc]
          exact contentsOf_set_same s i en _ he hk.symm rfl
  | toVector i =>
    simp only [wsstep] at h ⊢
    split at h
    · cases h
    · rename_i en he
      try simp only [he]
      split at h
      · cases h
      · rename_i hk
        try simp only [hk]
        split at h
        · cases h
        · rename_i hc; rw [if_neg hc]
  | toList i =>
    simp only [wsstep] at h
    split at h
    · cases h
    · split at h <;> cases h
  | rebase i j =>
    simp only [wsstep] at h
    split at h
    · split at h <;> cases h
    · cases h
  | intra i => simp only [wsstep] at h; split at h <;> cases h
  | root i =>
    simp only [wsstep] at h ⊢
    split at h
    · cases h
    · rename_i en he
      try simp only [he]
      split at h
      · rename_i hp; rw [if_pos hp]
      · split at h <;> cases h
  | eqFlushed i j =>
    simp only [wsstep] at h
    split at h
    · split at h <;> cases h
    · cases h

/-- the same for X-operations. -/
theorem xsstep_error_contents (N : Nat) (s : SWorld T) (o : XOp T) (e : Err)
    (h : (xsstep E A mixIn N s o).1 = .w (.out (.error e))) :
    contentsOf (xsstep E A mixIn N s o).2 = contentsOf s := by
  cases o with
  | w o =>
    simp only [xsstep, XOut.w.injEq] at h ⊢
    exact wsstep_error_contents N s o e h
  | sszEncode i => simp only [xsstep] at h ⊢; split <;> rfl
  | newFromSsz k bs =>
    simp only [xsstep] at h ⊢
    split at h
    · rename_i hd; try simp only [hd]
    · rename_i xs hd
      try simp only [hd]
      split at h
      · cases h
      · rename_i hc; rw [if_neg hc]
  | serdeSer i => simp only [xsstep] at h ⊢; split <;> rfl
  | newFromSerde k xs =>
    simp only [xsstep] at h ⊢
    split at h
    · cases h
    · rename_i hc; rw [if_neg hc]

/-- **C15, every multi-handle history: a rejected call changes no contents.** If the `k`-th
operation of an X-history is answered with an error by the model, then the plain contents of every
handle (which by `xrun_refines` are what every later read, iteration, encoding and root of the
model shows) are the same before and after it, and no handle was created. -/
theorem C15_world_error_unchanged {cfg : Cfg} (K : CfgOK E.pf cfg) (hE : CodecOK E)
    (hcf : CollisionFree E A) (nz : NoZeroNode A) (ops : List (XOp T)) (k : Nat) (o : XOp T)
    (e : Err) (ho : ops[k]? = some o)
    (hp : (xrun E A mixIn cfg MWorld.empty ops).1[k]? = some (.w (.out (.error e)))) :
    contentsOf (xsrun E A mixIn cfg.N [] (ops.take (k + 1))).2 =
      contentsOf (xsrun E A mixIn cfg.N [] (ops.take k)).2 := by
  rw [(xrun_refines (mixIn := mixIn) K hE hcf nz ops).1, xsrun_getElem cfg.N ops [] k o ho] at hp
  simp only [Option.some.injEq] at hp
  have hk : k < ops.length := (List.getElem?_eq_some_iff.mp ho).1
  have ho' : ops[k] = o := (List.getElem?_eq_some_iff.mp ho).2
  have htake : ops.take (k + 1) = ops.take k ++ [o] := by
    rw [List.take_add_one, ho]; rfl
  rw [htake, xsrun_append]
  simp only [xsrun]
  exact xsstep_error_contents cfg.N _ o e hp

/-- **C15, every multi-handle history: well-formed after every operation.** After any X-history
(hence, applied to prefixes, after every single operation, successful or rejected) every handle of
the model is well-formed: its length is the number of elements iteration yields, and an indexed
read succeeds exactly below the length (`Coll.SeqWF`). -/
theorem C15_world_wellformed {cfg : Cfg} (K : CfgOK E.pf cfg) (hE : CodecOK E)
    (hcf : CollisionFree E A) (nz : NoZeroNode A) (ops : List (XOp T)) (i : Nat) (c : Coll T)
    (hc : (xrun E A mixIn cfg MWorld.empty ops).2.colls[i]? = some c) : c.SeqWF E.pf := by
  obtain ⟨_, f, _, Hs⟩ := xrun_refines (mixIn := mixIn) K hE hcf nz ops
  obtain ⟨s, _, hI⟩ := Hs.get_some hc
  obtain ⟨xs, I, _⟩ := hI.inv
  exact I.seqWF K

end More

/-! ## Non-vacuity -/

namespace WorldSszExample

/-- the example history of `WorldSsz.lean` gives the same outputs for every pair of map types. -/
example (k k' : MapKind) :
    (xrun exElem HT.alg exMix (exCfg k) MWorld.empty exOps).1 =
      (xrun exElem HT.alg exMix (exCfg k') MWorld.empty exOps).1 :=
  C14_world_map_independent (cfg := exCfg k) (cfg' := exCfg k') rfl (exK k) exCodec exCF exNZ exOps

end WorldSszExample

end Milhouse
