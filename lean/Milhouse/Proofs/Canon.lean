import Milhouse.Proofs.Bits
import Milhouse.Model.TreeOps
/-!
# The canonical tree of a sequence (L2)

`canon pf d xs` is the shape every code path is meant to produce for contents `xs` at depth `d`:
empty regions are single `zero` nodes, leaves are (packed) leaves, everything else splits at
`cap pf (d-1)`. Reading it (`getRec`), flattening it and counting it give back `xs`.
-/
namespace Milhouse
variable {T : Type}

def canon (pf : Option Nat) : Nat → List T → Shape T
  | 0, xs => match xs with
     | [] => .zero 0
     | x :: rest => match pf with
        | none => .leaf x
        | some _ => .packed (x :: rest)
  | d+1, xs => match xs with
     | [] => .zero (d+1)
     | _ :: _ => .node (canon pf d (xs.take (cap pf d))) (canon pf d (xs.drop (cap pf d)))

theorem canon_nil (pf : Option Nat) (d : Nat) : canon pf d ([] : List T) = .zero d := by
  cases d <;> simp [canon]

theorem canon_succ_cons (pf : Option Nat) (d : Nat) (x : T) (xs : List T) :
    canon pf (d+1) (x :: xs) =
      .node (canon pf d ((x :: xs).take (cap pf d))) (canon pf d ((x :: xs).drop (cap pf d))) := by
  simp [canon]

/-- elements stored under a shape, in order. -/
def Shape.toList : Shape T → List T
  | .leaf v => [v]
  | .packed vs => vs
  | .node l r => l.toList ++ r.toList
  | .zero _ => []

def Tree.toList (t : Tree T) : List T := t.erase.toList

theorem toList_canon (pf : Option Nat) (hpf : PfOK pf) :
    ∀ (d : Nat) (xs : List T), xs.length ≤ cap pf d → (canon pf d xs).toList = xs := by
  intro d
  induction d with
  | zero =>
    intro xs h
    cases xs with
    | nil => simp [canon, Shape.toList]
    | cons x rest =>
      cases pf with
      | none =>
        simp [cap, lcap] at h; subst h; simp [canon, Shape.toList]
      | some p => simp [canon, Shape.toList]
  | succ d ih =>
    intro xs h
    have hc := cap_pos pf hpf d
    rw [cap_succ] at h
    cases xs with
    | nil => simp [canon, Shape.toList]
    | cons x rest =>
      simp only [canon, Shape.toList]
      rw [ih _ (by simp only [List.length_take]; omega),
          ih _ (by simp only [List.length_drop, List.length_cons] at *; omega)]
      exact List.take_append_drop _ _

/-- `getRec` on trees only looks at the shape. -/
def sGetRec (pf : Option Nat) : Shape T → Nat → Nat → Option T
  | .leaf v, _, 0 => some v
  | .packed vs, i, 0 => vs[i % pf.getD 1]?
  | .node l r, i, d+1 =>
    if i / 2 ^ (d + pdOf pf) % 2 = 0 then sGetRec pf l i d else sGetRec pf r i d
  | _, _, _ => none

theorem getRec_erase (pf : Option Nat) (t : Tree T) (i d : Nat) :
    getRec pf t i d = sGetRec pf t.erase i d := by
  induction t generalizing d with
  | leaf id v => cases d <;> simp [getRec, sGetRec, Tree.erase]
  | packed id vs => cases d <;> simp [getRec, sGetRec, Tree.erase]
  | zero id zd => cases d <;> simp [getRec, sGetRec, Tree.erase]
  | node id l r ihl ihr =>
    cases d with
    | zero => simp [getRec, sGetRec, Tree.erase]
    | succ d => simp only [getRec, sGetRec, Tree.erase, ihl, ihr]

/-- Reading the canonical tree is reading the list. The Rust passes the same index down and only
looks at its low bits, hence the `%`. -/
theorem sGetRec_canon (pf : Option Nat) (hpf : PfOK pf) :
    ∀ (d : Nat) (xs : List T) (i : Nat), xs.length ≤ cap pf d →
      sGetRec pf (canon pf d xs) i d = xs[i % cap pf d]? := by
  intro d
  induction d with
  | zero =>
    intro xs i hlen
    cases xs with
    | nil => simp [canon, sGetRec]
    | cons x rest =>
      cases pf with
      | none =>
        simp [cap, lcap] at hlen
        subst hlen
        simp [canon, sGetRec, cap, lcap, Nat.mod_one]
      | some p =>
        simp [canon, sGetRec, lcap, cap]
  | succ d ih =>
    intro xs i hlen
    have hc := cap_pos pf hpf d
    have hce := cap_eq_pow pf hpf d
    rw [cap_succ] at hlen
    cases xs with
    | nil => simp [canon, sGetRec]
    | cons x rest =>
      simp only [canon, sGetRec]
      rw [← hce]
      have hmod : i % cap pf (d+1) = (i / cap pf d % 2) * cap pf d + i % cap pf d := by
        rw [cap_succ, Nat.mul_comm 2, Nat.mod_mul]; ac_rfl
      rcases Nat.mod_two_eq_zero_or_one (i / cap pf d) with h0 | h1
      · simp only [h0, if_true]
        rw [ih _ _ (by simp only [List.length_take]; omega)]
        have hlt := Nat.mod_lt i hc
        rw [hmod, h0]; simp [hlt]
      · simp only [h1, show (1 = 0) = False by decide, if_false]
        rw [ih _ _ (by simp only [List.length_drop, List.length_cons] at *; omega)]
        rw [hmod, h1]; simp [List.getElem?_drop]

/-- **L2**: for a tree whose shape is canonical, `get_recursive` at an in-capacity index reads the
sequence. -/
theorem getRec_canon (pf : Option Nat) (hpf : PfOK pf) (t : Tree T) (d : Nat) (xs : List T)
    (ht : t.erase = canon pf d xs) (hlen : xs.length ≤ cap pf d) (i : Nat) (hi : i < cap pf d) :
    getRec pf t i d = xs[i]? := by
  rw [getRec_erase, ht, sGetRec_canon pf hpf d xs i hlen, Nat.mod_eq_of_lt hi]

theorem computeLen_erase (t : Tree T) : t.computeLen = t.erase.toList.length := by
  induction t with
  | leaf id v => simp [Tree.computeLen, Tree.erase, Shape.toList]
  | packed id vs => simp [Tree.computeLen, Tree.erase, Shape.toList]
  | zero id d => simp [Tree.computeLen, Tree.erase, Shape.toList]
  | node id l r ihl ihr => simp [Tree.computeLen, Tree.erase, Shape.toList, ihl, ihr]

/-- `compute_len` of a canonical tree is the number of elements. -/
theorem computeLen_canon (pf : Option Nat) (hpf : PfOK pf) (t : Tree T) (d : Nat) (xs : List T)
    (ht : t.erase = canon pf d xs) (hlen : xs.length ≤ cap pf d) : t.computeLen = xs.length := by
  rw [computeLen_erase, ht, toList_canon pf hpf d xs hlen]

/-- `canon` is injective on sequences that fit: the derived structural equality on canonical
trees is equality of contents (the heart of C06). -/
theorem canon_injective (pf : Option Nat) (hpf : PfOK pf) (d : Nat) (xs ys : List T)
    (hx : xs.length ≤ cap pf d) (hy : ys.length ≤ cap pf d)
    (h : canon pf d xs = canon pf d ys) : xs = ys := by
  have := congrArg Shape.toList h
  rwa [toList_canon pf hpf d xs hx, toList_canon pf hpf d ys hy] at this

/-- joining two canonical halves: `node (canon d A) (canon d B) = canon (d+1) (A ++ B)` when the
left half is full or the right half is empty, and the whole is non-empty. -/
theorem canon_node (pf : Option Nat) (d : Nat) (A B : List T)
    (hA : A ≠ []) (hfull : A.length = cap pf d ∨ B = []) (hAle : A.length ≤ cap pf d) :
    Shape.node (canon pf d A) (canon pf d B) = canon pf (d+1) (A ++ B) := by
  cases A with
  | nil => exact absurd rfl hA
  | cons a A' =>
    rw [show (a :: A') ++ B = a :: (A' ++ B) from rfl, canon_succ_cons]
    rcases hfull with hf | hB
    · have h1 : (a :: (A' ++ B)).take (cap pf d) = a :: A' := by
        rw [show a :: (A' ++ B) = (a :: A') ++ B from rfl, List.take_append_of_le_length (by omega)]
        rw [List.take_of_length_le (by omega)]
      have h2 : (a :: (A' ++ B)).drop (cap pf d) = B := by
        rw [show a :: (A' ++ B) = (a :: A') ++ B from rfl, List.drop_append_of_le_length (by omega)]
        rw [List.drop_of_length_le (by omega)]; rfl
      rw [h1, h2]
    · subst hB
      simp only [List.append_nil]
      rw [List.take_of_length_le hAle, List.drop_of_length_le hAle, canon_nil]

end Milhouse
