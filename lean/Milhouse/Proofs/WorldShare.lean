import Milhouse.Proofs.WorldClosed
import Milhouse.Proofs.Ssz
/-!
# C08 (sharing after `rebase_on`) closed over multi-handle histories

`Proofs/Rebase.lean` proves the sharing property of `rebase_on` for two trees that have no node
identity in common (`Tree.Disjoint`) — there a bare hypothesis. This file discharges it for the
situation the documentation describes ("a collection decoded from storage / built independently is
rebased on one that is already in memory"):

1. **Freshness.** Every node of a collection built from plain values (`List::try_from_iter`,
   `Vector::try_from_iter`, `from_ssz_bytes`, serde `Deserialize`) is newly allocated:
   `tryFromIter_fresh`, `vectorFromIter_fresh`, `sszDecodeList_fresh`, `sszDecodeVector_fresh`,
   `serdeDe_fresh` (via the builder: `push_fresh`, `pushAll_fresh`, `finish_fresh`).
2. `registered_ids_lt`, `fresh_disjoint`: a registered tree only has ids below `h.next`, so a tree
   allocated afterwards shares no node with it.
3. `C08_history_closed`, `C08_history_same_elements`, `C08_history_equal_shares_root`: after EVERY
   history from the empty world, `newFromIter` followed by `rebase` on any existing handle shares
   every position of equal shape / equal contents with that handle.
4. `C08_sszDecodeList_shares`, `C08_sszDecodeVector_shares` (and the `C08_history_ssz…` forms
   after every history): the same with the fresh handle produced by SSZ decoding (`C08Shares`).
5. Non-vacuity examples at the end.
-/
set_option linter.unusedSectionVars false

namespace Milhouse
variable {T H : Type}

/-! ## 1. Freshness of independently built collections -/

/-- every node identity of `t` lies in `[lo, hi)`. -/
def Tree.FreshIn (lo hi : Nat) (t : Tree T) : Prop := ∀ i ∈ t.ids, lo ≤ i ∧ i < hi

/-- every entry of a builder stack only has node identities in `[lo, hi)`. -/
def StackFresh (lo hi : Nat) (st : List (Tree T × Bool)) : Prop := ∀ p ∈ st, p.1.FreshIn lo hi

theorem Tree.FreshIn.mono {lo hi hi' : Nat} {t : Tree T} (h : t.FreshIn lo hi) (hle : hi ≤ hi') :
    t.FreshIn lo hi' := fun i hi => ⟨(h i hi).1, Nat.lt_of_lt_of_le (h i hi).2 hle⟩

theorem StackFresh.mono {lo hi hi' : Nat} {st : List (Tree T × Bool)} (h : StackFresh lo hi st)
    (hle : hi ≤ hi') : StackFresh lo hi' st := fun p hp => (h p hp).mono hle

theorem StackFresh.nil (lo hi : Nat) : StackFresh lo hi ([] : List (Tree T × Bool)) := by
  intro p hp; cases hp

theorem StackFresh.cons_iff {lo hi : Nat} {p : Tree T × Bool} {st : List (Tree T × Bool)} :
    StackFresh lo hi (p :: st) ↔ p.1.FreshIn lo hi ∧ StackFresh lo hi st := by
  simp [StackFresh]

theorem Tree.FreshIn.leaf {lo hi id : Nat} (v : T) (h1 : lo ≤ id) (h2 : id < hi) :
    (Tree.leaf id v).FreshIn lo hi := by
  intro i hi'; simp only [Tree.ids, List.mem_singleton] at hi'; subst hi'; exact ⟨h1, h2⟩

theorem Tree.FreshIn.packed {lo hi id : Nat} (vs : List T) (h1 : lo ≤ id) (h2 : id < hi) :
    (Tree.packed id vs : Tree T).FreshIn lo hi := by
  intro i hi'; simp only [Tree.ids, List.mem_singleton] at hi'; subst hi'; exact ⟨h1, h2⟩

theorem Tree.FreshIn.zero {lo hi id : Nat} (d : Nat) (h1 : lo ≤ id) (h2 : id < hi) :
    (Tree.zero id d : Tree T).FreshIn lo hi := by
  intro i hi'; simp only [Tree.ids, List.mem_singleton] at hi'; subst hi'; exact ⟨h1, h2⟩

theorem Tree.FreshIn.node {lo hi id : Nat} {l r : Tree T} (h1 : lo ≤ id) (h2 : id < hi)
    (hl : l.FreshIn lo hi) (hr : r.FreshIn lo hi) : (Tree.node id l r).FreshIn lo hi := by
  intro i hi'
  simp only [Tree.ids, List.mem_cons, List.mem_append] at hi'
  rcases hi' with rfl | hi' | hi'
  · exact ⟨h1, h2⟩
  · exact hl i hi'
  · exact hr i hi'

/-- growing a packed leaf in place keeps its identity. -/
theorem Tree.FreshIn.packed_congr {lo hi id : Nat} {vs : List T} (vs' : List T)
    (h : (Tree.packed id vs : Tree T).FreshIn lo hi) : (Tree.packed id vs' : Tree T).FreshIn lo hi :=
  fun i hi' => h i (by simpa [Tree.ids] using hi')

/-- a node allocated now over two fresh children is fresh. -/
theorem ws_fresh_alloc_node {lo : Nat} {h : Heap H} (z : H) {l r : Tree T} (hlo : lo ≤ h.next)
    (hl : l.FreshIn lo h.next) (hr : r.FreshIn lo h.next) :
    (Tree.node (h.alloc z).1 l r).FreshIn lo (h.alloc z).2.next := by
  rw [Heap.next_alloc]
  exact Tree.FreshIn.node hlo (Nat.lt_succ_self _) (hl.mono (Nat.le_succ _)) (hr.mono (Nat.le_succ _))

/-- the merge loop of `push`. -/
theorem mergeStrict_fresh (z : H) (lo : Nat) :
    ∀ (n : Nat) (h : Heap H) (top : Tree T) (st : List (Tree T × Bool))
      (top' : Tree T) (st' : List (Tree T × Bool)) (h' : Heap H),
      lo ≤ h.next → top.FreshIn lo h.next → StackFresh lo h.next st →
      Builder.mergeStrict z n h top st = .ok (top', st', h') →
      h.next ≤ h'.next ∧ top'.FreshIn lo h'.next ∧ StackFresh lo h'.next st' := by
  intro n
  induction n with
  | zero =>
    intro h top st top' st' h' hlo ht hs he
    simp only [Builder.mergeStrict, Except.ok.injEq, Prod.mk.injEq] at he
    obtain ⟨rfl, rfl, rfl⟩ := he
    exact ⟨Nat.le_refl _, ht, hs⟩
  | succ n ih =>
    intro h top st top' st' h' hlo ht hs he
    cases st with
    | nil => simp [Builder.mergeStrict] at he
    | cons q st2 =>
      obtain ⟨left, fl⟩ := q
      simp only [Builder.mergeStrict] at he
      obtain ⟨hl, hs2⟩ := StackFresh.cons_iff.1 hs
      have hn := Heap.next_alloc h z
      obtain ⟨a, b, c⟩ := ih _ _ st2 top' st' h' (by rw [hn]; omega)
        (ws_fresh_alloc_node z hlo hl ht) (hs2.mono (by rw [hn]; omega)) he
      exact ⟨by rw [hn] at a; omega, b, c⟩

/-- **`Builder::push`**: every node on the stack stays inside `[lo, next)`. A packed leaf that is
mutated in place keeps its identity. -/
theorem push_fresh (z : H) (lo : Nat) (b b' : Builder T) (h h' : Heap H) (x : T)
    (hlo : lo ≤ h.next) (hs : StackFresh lo h.next b.stack)
    (he : b.push z h x = .ok (b', h')) :
    h.next ≤ h'.next ∧ StackFresh lo h'.next b'.stack := by
  simp only [Builder.push] at he
  split at he
  · cases he
  · split at he
    · cases he
    · rename_i top st h1 hstart
      have key : h.next ≤ h1.next ∧ top.FreshIn lo h1.next ∧ StackFresh lo h1.next st := by
        split at hstart
        · split at hstart
          · cases hstart
          · split at hstart
            · simp only [Except.ok.injEq, Prod.mk.injEq] at hstart
              obtain ⟨rfl, rfl, rfl⟩ := hstart
              have hn := Heap.next_alloc h z
              refine ⟨by rw [hn]; omega, ?_, hs.mono (by rw [hn]; omega)⟩
              rw [hn]
              exact Tree.FreshIn.packed _ hlo (Nat.lt_succ_self _)
            · split at hstart
              · rename_i id vs st0 hst
                rw [hst] at hs
                split at hstart
                · cases hstart
                · simp only [Except.ok.injEq, Prod.mk.injEq] at hstart
                  obtain ⟨rfl, rfl, rfl⟩ := hstart
                  obtain ⟨hp, hs0⟩ := StackFresh.cons_iff.1 hs
                  exact ⟨Nat.le_refl _, hp.packed_congr _, hs0⟩
              · cases hstart
        · simp only [Except.ok.injEq, Prod.mk.injEq] at hstart
          obtain ⟨rfl, rfl, rfl⟩ := hstart
          have hn := Heap.next_alloc h z
          refine ⟨by rw [hn]; omega, ?_, hs.mono (by rw [hn]; omega)⟩
          rw [hn]
          exact Tree.FreshIn.leaf _ hlo (Nat.lt_succ_self _)
      obtain ⟨k1, k2, k3⟩ := key
      split at he
      · cases he
      · rename_i top' st' h2 hm
        simp only [Except.ok.injEq, Prod.mk.injEq] at he
        obtain ⟨rfl, rfl⟩ := he
        obtain ⟨a, b, c⟩ := mergeStrict_fresh z lo _ h1 top st top' st' h2 (by omega) k2 k3 hm
        exact ⟨by omega, StackFresh.cons_iff.2 ⟨b, c⟩⟩

/-- **`pushAll`** (the loop of `try_from_iter`). -/
theorem pushAll_fresh (z : H) (lo : Nat) :
    ∀ (xs : List T) (b b' : Builder T) (h h' : Heap H),
      lo ≤ h.next → StackFresh lo h.next b.stack →
      Coll.pushAll z b h xs = .ok (b', h') →
      h.next ≤ h'.next ∧ StackFresh lo h'.next b'.stack := by
  intro xs
  induction xs with
  | nil =>
    intro b b' h h' hlo hs he
    simp only [Coll.pushAll, Except.ok.injEq, Prod.mk.injEq] at he
    obtain ⟨rfl, rfl⟩ := he
    exact ⟨Nat.le_refl _, hs⟩
  | cons x xs ih =>
    intro b b' h h' hlo hs he
    simp only [Coll.pushAll] at he
    split at he
    · cases he
    · rename_i b1 h1 e1
      obtain ⟨a1, s1⟩ := push_fresh z lo b b1 h h1 x hlo hs e1
      obtain ⟨a2, s2⟩ := ih b1 b' h1 h' (by omega) s1 he
      exact ⟨by omega, s2⟩

/-- one merge of the two top entries (shared by both merge loops of `finish`). -/
theorem ws_fresh_merge_top (z : H) {lo : Nat} {h : Heap H} {right left : Tree T} {fr fl : Bool}
    {st2 : List (Tree T × Bool)} (hlo : lo ≤ h.next)
    (hs : StackFresh lo h.next ((right, fr) :: (left, fl) :: st2)) :
    StackFresh lo (h.alloc z).2.next ((.node (h.alloc z).1 left right, true) :: st2) := by
  obtain ⟨hr, hs1⟩ := StackFresh.cons_iff.1 hs
  obtain ⟨hl, hs2⟩ := StackFresh.cons_iff.1 hs1
  exact StackFresh.cons_iff.2 ⟨ws_fresh_alloc_node z hlo hl hr,
    hs2.mono (by rw [Heap.next_alloc]; omega)⟩

theorem finishPackedMerge_fresh (z : H) (lo : Nat) (b : Builder T) (next : Nat) :
    ∀ (n i : Nat) (h : Heap H) (st st' : List (Tree T × Bool)) (h' : Heap H),
      lo ≤ h.next → StackFresh lo h.next st →
      Builder.finishPackedMerge z b next n i h st = .ok (st', h') →
      h.next ≤ h'.next ∧ StackFresh lo h'.next st' := by
  intro n
  induction n with
  | zero =>
    intro i h st st' h' hlo hs he
    simp only [Builder.finishPackedMerge, Except.ok.injEq, Prod.mk.injEq] at he
    obtain ⟨rfl, rfl⟩ := he
    exact ⟨Nat.le_refl _, hs⟩
  | succ n ih =>
    intro i h st st' h' hlo hs he
    simp only [Builder.finishPackedMerge] at he
    split at he
    · split at he
      · cases he
      · split at he
        · cases he
        · have hn := Heap.next_alloc h z
          obtain ⟨a, s⟩ := ih _ _ _ st' h' (by rw [hn]; omega) (ws_fresh_merge_top z hlo hs) he
          exact ⟨by rw [hn] at a; omega, s⟩
    · simp only [Except.ok.injEq, Prod.mk.injEq] at he
      obtain ⟨rfl, rfl⟩ := he
      exact ⟨Nat.le_refl _, hs⟩

theorem finishMergeUp_fresh (z : H) (lo : Nat) (b : Builder T) (next : Nat) :
    ∀ (n i : Nat) (h : Heap H) (st st' : List (Tree T × Bool)) (h' : Heap H),
      lo ≤ h.next → StackFresh lo h.next st →
      Builder.finishMergeUp z b next n i h st = .ok (st', h') →
      h.next ≤ h'.next ∧ StackFresh lo h'.next st' := by
  intro n
  induction n with
  | zero =>
    intro i h st st' h' hlo hs he
    simp only [Builder.finishMergeUp, Except.ok.injEq, Prod.mk.injEq] at he
    obtain ⟨rfl, rfl⟩ := he
    exact ⟨Nat.le_refl _, hs⟩
  | succ n ih =>
    intro i h st st' h' hlo hs he
    simp only [Builder.finishMergeUp] at he
    split at he
    · split at he
      · cases he
      · split at he
        · cases he
        · have hn := Heap.next_alloc h z
          obtain ⟨a, s⟩ := ih _ _ _ st' h' (by rw [hn]; omega) (ws_fresh_merge_top z hlo hs) he
          exact ⟨by rw [hn] at a; omega, s⟩
    · simp only [Except.ok.injEq, Prod.mk.injEq] at he
      obtain ⟨rfl, rfl⟩ := he
      exact ⟨Nat.le_refl _, hs⟩

theorem finishPad_fresh (z : H) (lo : Nat) (b : Builder T) :
    ∀ (fuel next : Nat) (h : Heap H) (st st' : List (Tree T × Bool)) (h' : Heap H),
      lo ≤ h.next → StackFresh lo h.next st →
      Builder.finishPad z b fuel next h st = .ok (st', h') →
      h.next ≤ h'.next ∧ StackFresh lo h'.next st' := by
  intro fuel
  induction fuel with
  | zero =>
    intro next h st st' h' hlo hs he
    simp [Builder.finishPad] at he
  | succ fuel ih =>
    intro next h st st' h' hlo hs he
    simp only [Builder.finishPad] at he
    split at he
    · simp only [Except.ok.injEq, Prod.mk.injEq] at he
      obtain ⟨rfl, rfl⟩ := he
      exact ⟨Nat.le_refl _, hs⟩
    · split at he
      · cases he
      · rename_i top fl st1
        obtain ⟨ht, hs1⟩ := StackFresh.cons_iff.1 hs
        have hn1 := Heap.next_alloc h z
        have hn2 := Heap.next_alloc (h.alloc z).2 z
        have s2 : StackFresh lo ((h.alloc z).2.alloc z).2.next
            ((Tree.node ((h.alloc z).2.alloc z).1 top
              (.zero (h.alloc z).1 (tz next + b.level - b.pd)), true) :: st1) := by
          refine StackFresh.cons_iff.2 ⟨?_, hs1.mono (by rw [hn2, hn1]; omega)⟩
          apply ws_fresh_alloc_node z (by rw [hn1]; omega) (ht.mono (by rw [hn1]; omega))
          rw [hn1]
          exact Tree.FreshIn.zero _ hlo (Nat.lt_succ_self _)
        split at he
        · cases he
        · rename_i st3 h3 e3
          obtain ⟨a3, s3⟩ := finishMergeUp_fresh z lo b next _ _ _ _ st3 h3
            (by rw [hn2, hn1]; omega) s2 e3
          rw [hn2, hn1] at a3
          split at he
          · cases he
          · obtain ⟨a4, s4⟩ := ih _ h3 st3 st' h' (by omega) s3 he
            exact ⟨by omega, s4⟩

/-- **`Builder::finish`**: the resulting tree only has identities in `[lo, next)`. -/
theorem finish_fresh (z : H) (lo : Nat) (b : Builder T) (h h' : Heap H) (t : Tree T) (d n : Nat)
    (hlo : lo ≤ h.next) (hs : StackFresh lo h.next b.stack)
    (he : b.finish z h = .ok ((t, d, n), h')) :
    h.next ≤ h'.next ∧ t.FreshIn lo h'.next := by
  simp only [Builder.finish] at he
  split at he
  · simp only [Except.ok.injEq, Prod.mk.injEq] at he
    obtain ⟨⟨rfl, -, -⟩, rfl⟩ := he
    have hn := Heap.next_alloc h z
    refine ⟨by rw [hn]; omega, ?_⟩
    rw [hn]
    exact Tree.FreshIn.zero _ hlo (Nat.lt_succ_self _)
  · split at he
    · cases he
    · rename_i next st1 h1 hstage
      have key : h.next ≤ h1.next ∧ StackFresh lo h1.next st1 := by
        split at hstage
        · split at hstage
          · cases hstage
          · split at hstage
            · split at hstage
              · cases hstage
              · rename_i st2 h2 e2
                simp only [Except.ok.injEq, Prod.mk.injEq] at hstage
                obtain ⟨-, rfl, rfl⟩ := hstage
                exact finishPackedMerge_fresh z lo b _ _ _ h _ _ _ hlo hs e2
            · simp only [Except.ok.injEq, Prod.mk.injEq] at hstage
              obtain ⟨-, rfl, rfl⟩ := hstage
              exact ⟨Nat.le_refl _, hs⟩
        · simp only [Except.ok.injEq, Prod.mk.injEq] at hstage
          obtain ⟨-, rfl, rfl⟩ := hstage
          exact ⟨Nat.le_refl _, hs⟩
      obtain ⟨a1, s1⟩ := key
      split at he
      · cases he
      · rename_i st2 h2 e2
        obtain ⟨a2, s2⟩ := finishPad_fresh z lo b _ _ h1 st1 st2 h2 (by omega) s1 e2
        split at he
        · cases he
        · split at he
          · simp only [Except.ok.injEq, Prod.mk.injEq] at he
            obtain ⟨⟨rfl, -, -⟩, rfl⟩ := he
            exact ⟨by omega, (StackFresh.cons_iff.1 s2).1⟩
          · cases he

/-- **`List::try_from_iter`**: every node of the result is newly allocated, and the result has no
pending writes (literally the default map). -/
theorem tryFromIter_fresh (pf : Option Nat) (z : H) (cfg : Cfg) (xs : List T) (h h' : Heap H)
    (c : Coll T) (he : Coll.tryFromIter pf z cfg xs h = .ok (c, h')) :
    (∀ i ∈ c.tree.ids, h.next ≤ i ∧ i < h'.next) ∧ h.next ≤ h'.next ∧
      c.updates = UMap.empty cfg.map := by
  simp only [Coll.tryFromIter] at he
  split at he
  · cases he
  · rename_i b hb
    have hst : b.stack = [] := by
      simp only [Builder.new] at hb
      split at hb
      · cases hb
      · simp only [Except.ok.injEq] at hb; subst hb; rfl
    split at he
    · cases he
    · rename_i b1 h1 e1
      obtain ⟨a1, s1⟩ := pushAll_fresh z h.next xs b b1 h h1 (Nat.le_refl _)
        (by rw [hst]; exact StackFresh.nil _ _) e1
      split at he
      · cases he
      · rename_i tree depth length h2 e2
        split at he
        · cases he
        · simp only [Except.ok.injEq, Prod.mk.injEq] at he
          obtain ⟨rfl, rfl⟩ := he
          obtain ⟨a2, f2⟩ := finish_fresh z h.next b1 h1 h2 tree depth length a1 s1 e2
          exact ⟨f2, by omega, rfl⟩

/-- **`List::empty`**: one new zero node. -/
theorem empty_fresh (pf : Option Nat) (z : H) (cfg : Cfg) (h : Heap H) :
    (∀ i ∈ (Coll.empty (T := T) pf z cfg h).1.tree.ids,
      h.next ≤ i ∧ i < (Coll.empty (T := T) pf z cfg h).2.next) ∧
    h.next ≤ (Coll.empty (T := T) pf z cfg h).2.next ∧
    (Coll.empty (T := T) pf z cfg h).1.updates = UMap.empty cfg.map := by
  have hn := Heap.next_alloc h z
  refine ⟨?_, by simp only [Coll.empty]; rw [hn]; omega, rfl⟩
  simp only [Coll.empty, Coll.fromParts]
  rw [hn]
  exact Tree.FreshIn.zero _ (Nat.le_refl _) (Nat.lt_succ_self _)

/-- **`TryFrom<List> for Vector`** in the only form in which it keeps the tree: a list without
pending writes is converted without touching the tree or the heap. (With pending writes the flush
rebuilds part of the tree and keeps the rest: not fresh, not claimed.) -/
theorem toVector_flushed_tree (pf : Option Nat) (z : H) (cfg : Cfg) (c c' : Coll T) (h h' : Heap H)
    (hu : c.updates.isEmpty = true) (he : Coll.toVector pf z cfg c h = .ok (c', h')) :
    c'.tree = c.tree ∧ h' = h ∧ c'.updates = c.updates ∧ c'.depth = c.depth := by
  unfold Coll.toVector at he
  split at he
  · rw [cvApplyUpdates_of_isEmpty pf z cfg c h hu] at he
    simp only [Except.ok.injEq, Prod.mk.injEq] at he
    obtain ⟨rfl, rfl⟩ := he
    exact ⟨rfl, rfl, rfl, rfl⟩
  · cases he

/-- **`Vector::try_from_iter`**: every node of the result is newly allocated. -/
theorem vectorFromIter_fresh (pf : Option Nat) (z : H) (cfg : Cfg) (xs : List T) (h h' : Heap H)
    (c : Coll T) (he : Coll.vectorFromIter pf z cfg xs h = .ok (c, h')) :
    (∀ i ∈ c.tree.ids, h.next ≤ i ∧ i < h'.next) ∧ h.next ≤ h'.next := by
  unfold Coll.vectorFromIter at he
  split at he
  · cases he
  · rename_i c0 h0 e0
    obtain ⟨f0, a0, u0⟩ := tryFromIter_fresh pf z cfg xs h h0 c0 e0
    obtain ⟨ht, rfl, -, -⟩ := toVector_flushed_tree pf z cfg c0 c h0 h'
      (by rw [u0]; exact cvIsEmpty_empty _) he
    rw [ht]
    exact ⟨f0, a0⟩

/-- **`List::from_ssz_bytes`**: every node of the decoded list is newly allocated. -/
theorem sszDecodeList_fresh (E : Elem T H) (z : H) (cfg : Cfg) (bs : List UInt8) (h h' : Heap H)
    (c : Coll T) (he : sszDecodeList E z cfg bs h = .ok (c, h')) :
    (∀ i ∈ c.tree.ids, h.next ≤ i ∧ i < h'.next) ∧ h.next ≤ h'.next ∧
      c.updates = UMap.empty cfg.map := by
  rcases C12_decodeList_ok E z cfg bs h c h' he with ⟨-, e⟩ | ⟨-, xs, -, e⟩
  · have := empty_fresh (T := T) E.pf z cfg h
    rw [e] at this
    exact this
  · exact tryFromIter_fresh E.pf z cfg xs h h' c e

/-- **`Vector::from_ssz_bytes`**: every node of the decoded vector is newly allocated. -/
theorem sszDecodeVector_fresh (E : Elem T H) (z : H) (cfg : Cfg) (bs : List UInt8) (h h' : Heap H)
    (c : Coll T) (he : sszDecodeVector E z cfg bs h = .ok (c, h')) :
    (∀ i ∈ c.tree.ids, h.next ≤ i ∧ i < h'.next) ∧ h.next ≤ h'.next := by
  obtain ⟨c0, h0, e0, -, e1⟩ := C12_decodeVector_ok E z cfg bs h c h' he
  obtain ⟨f0, a0, u0⟩ := sszDecodeList_fresh E z cfg bs h h0 c0 e0
  obtain ⟨ht, rfl, -, -⟩ := toVector_flushed_tree E.pf z cfg c0 c h0 h'
    (by rw [u0]; exact cvIsEmpty_empty _) e1
  rw [ht]
  exact ⟨f0, a0⟩

/-- **serde `Deserialize`** (`List` and `Vector`): every node of the result is newly allocated. -/
theorem serdeDe_fresh (k : CKind) (pf : Option Nat) (z : H) (cfg : Cfg) (vs : List T)
    (h h' : Heap H) (c : Coll T) (he : serdeDe k pf z cfg vs h = .ok (c, h')) :
    (∀ i ∈ c.tree.ids, h.next ≤ i ∧ i < h'.next) ∧ h.next ≤ h'.next := by
  cases k with
  | list =>
    simp only [serdeDe] at he
    cases e : Coll.tryFromIter pf z cfg vs h with
    | error err => rw [e] at he; cases he
    | ok r =>
      rw [e] at he
      simp only [serdeMapErr, Except.ok.injEq] at he
      subst he
      obtain ⟨a, b, -⟩ := tryFromIter_fresh pf z cfg vs h h' c e
      exact ⟨a, b⟩
  | vector =>
    simp only [serdeDe] at he
    cases e : Coll.vectorFromIter pf z cfg vs h with
    | error err => rw [e] at he; cases he
    | ok r =>
      rw [e] at he
      simp only [serdeMapErr, Except.ok.injEq] at he
      subst he
      exact vectorFromIter_fresh pf z cfg vs h h' c e

/-! ## 2. Registered trees live below `h.next`; later allocations are disjoint from them -/

theorem Tree.exists_subtree_of_mem_ids (t : Tree T) (i : Nat) (hi : i ∈ t.ids) :
    ∃ s ∈ t.subtrees, s.id = i := by
  induction t with
  | leaf id v =>
    simp only [Tree.ids, List.mem_singleton] at hi
    exact ⟨_, Tree.self_mem_subtrees _, hi.symm⟩
  | packed id vs =>
    simp only [Tree.ids, List.mem_singleton] at hi
    exact ⟨_, Tree.self_mem_subtrees _, hi.symm⟩
  | zero id d =>
    simp only [Tree.ids, List.mem_singleton] at hi
    exact ⟨_, Tree.self_mem_subtrees _, hi.symm⟩
  | node id l r ihl ihr =>
    simp only [Tree.ids, List.mem_cons, List.mem_append] at hi
    rcases hi with rfl | hi | hi
    · exact ⟨_, Tree.self_mem_subtrees _, rfl⟩
    · obtain ⟨s, hs, e⟩ := ihl hi
      exact ⟨s, by simp [Tree.subtrees, hs], e⟩
    · obtain ⟨s, hs, e⟩ := ihr hi
      exact ⟨s, by simp [Tree.subtrees, hs], e⟩

/-- every node identity of a registered tree has been allocated. -/
theorem registered_ids_lt {E : Elem T H} {A : HashAlg H} {f : Registry T} {h : Heap H}
    {t : Tree T} (hok : HeapOK E A f h) (hr : Registered f t) : ∀ i ∈ t.ids, i < h.next := by
  intro i hi
  obtain ⟨s, hs, rfl⟩ := t.exists_subtree_of_mem_ids i hi
  exact hok.bound _ _ (hr s hs)

/-- a tree all of whose nodes were allocated at or after `h.next` shares no node with any tree
registered at `h`. -/
theorem fresh_disjoint {E : Elem T H} {A : HashAlg H} {f : Registry T} {h : Heap H}
    {t b : Tree T} (hok : HeapOK E A f h) (hb : Registered f b)
    (ht : ∀ i ∈ t.ids, h.next ≤ i) : t.Disjoint b := by
  intro i hi hi'
  have h1 := ht i hi
  have h2 := registered_ids_lt hok hb i hi'
  omega

/-! ## 3. C08 over multi-handle histories -/

section World
variable [DecidableEq T] [DecidableEq H]
variable {E : Elem T H} {A : HashAlg H} {mixIn : H → Nat → H} {cfg : Cfg}

/-- **The sharing statement, for two registered collections with no node in common.** `c` (backing
contents `ys`, any pending writes) is rebased on `base` (backing contents `xs`, any pending
writes, memos present or not): the rebase succeeds, and
* every position at which both trees have subtrees of the same shape holds `base`'s node;
* every position present in both trees below which both hold the same elements holds `base`'s node;
* if the backing contents are equal, the result's tree IS `base`'s tree and the heap is unchanged;
* kind, cached length, depth and pending writes of `c` are unchanged. -/
theorem C08_rebase_disjoint_core (K : CfgOK E.pf cfg) (hcf : CollisionFree E A)
    {f1 : Registry T} {h1 : Heap H} (hok1 : HeapOK E A f1 h1) (c base : Coll T) (ys xs : List T)
    (Ic : CollInv E.pf cfg c ys) (Ib : CollInv E.pf cfg base xs)
    (rc : Registered f1 c.tree) (rb : Registered f1 base.tree)
    (hdis : c.tree.Disjoint base.tree) (hvec : c.kind = .vector → base.kind = .vector) :
    ∃ c' h2, c.rebaseOnColl E.pf A.zero base h1 = .ok (c', h2) ∧
      (∀ p a b, subAt c.tree p = some a → subAt base.tree p = some b → a.erase = b.erase →
        subAt c'.tree p = some b) ∧
      (∀ p a b, subAt c.tree p = some a → subAt base.tree p = some b →
        sliceAt E.pf (listDepth E.pf cfg.N) p ys = sliceAt E.pf (listDepth E.pf cfg.N) p xs →
        subAt c'.tree p = some b) ∧
      (ys = xs → c'.tree = base.tree ∧ h2 = h1) ∧
      c'.kind = c.kind ∧ c'.length = c.length ∧ c'.depth = c.depth ∧ c'.updates = c.updates := by
  have hvec' : c.kind = .vector → c.length = base.length := by
    intro hk
    have b1 := Ic.bound
    have b2 := Ib.bound
    rw [hk] at b1
    rw [hvec hk] at b2
    simp only at b1 b2
    rw [Ic.len, Ib.len, b1, b2]
  obtain ⟨c', h2, f', e, he, hl, hd, hu, hk, _⟩ :=
    C07_rebase_preserves_meaning E A hcf E.pf K.pf f1 h1 c base ys xs hok1
      ⟨Ic.shape, Ic.len, ws_cap K Ic, rc⟩ ⟨Ib.shape, Ib.len, ws_cap K Ib, rb⟩
      (Ic.depth.trans Ib.depth.symm) hvec'
  have hpos : ∀ p a b, subAt c.tree p = some a → subAt base.tree p = some b → a.erase = b.erase →
      subAt c'.tree p = some b := fun p a b ha hb hab =>
    C08_shared_positions E.pf A.zero c base c' h1 h2 ys Ic.shape hdis e p a b ha hb hab
  refine ⟨c', h2, e, hpos, ?_, ?_, hk, hl, hd, hu⟩
  · intro p a b ha hb hs
    have e1 := (subAt_canon E.pf p c.depth c.tree ys a Ic.shape ha).2
    have e2 := (subAt_canon E.pf p base.depth base.tree xs b Ib.shape hb).2
    rw [Ic.depth] at e1
    rw [Ib.depth] at e2
    exact hpos p a b ha hb (by rw [e1, e2, hs])
  · intro hxy
    subst hxy
    have heq : c.tree.erase = base.tree.erase := by
      rw [Ic.shape, Ib.shape, Ic.depth, Ib.depth]
    have hrun := C08_equal_collections_share_tree E.pf A.zero c base h1 ys Ic.shape heq hdis
    rw [e] at hrun
    simp only [Except.ok.injEq, Prod.mk.injEq] at hrun
    obtain ⟨rfl, rfl⟩ := hrun
    exact ⟨rfl, rfl⟩

/-- the condition on the plain sequence under which `newFromIter k ys` succeeds. -/
def NewOK (cfg : Cfg) (k : CKind) (ys : List T) : Prop :=
  match k with
  | .list => ys.length ≤ cfg.N
  | .vector => ys.length = cfg.N

/-- `newFromIter k ys` from any world: it succeeds exactly when `NewOK`, appends one handle of
kind `k` with backing contents `ys` and no pending writes, all of whose nodes are new. -/
theorem ws_newFromIter (K : CfgOK E.pf cfg) (w : MWorld T H) (k : CKind) (ys : List T) :
    (NewOK cfg k ys → ∃ cj h1,
      wstep E A mixIn cfg w (.newFromIter k ys) = (.out .ok, ⟨h1, w.colls ++ [cj]⟩) ∧
      cj.kind = k ∧ CollInv E.pf cfg cj ys ∧ cj.updates = UMap.empty cfg.map ∧
      (∀ i ∈ cj.tree.ids, w.heap.next ≤ i ∧ i < h1.next)) ∧
    (¬ NewOK cfg k ys → ∃ e, wstep E A mixIn cfg w (.newFromIter k ys) = (.out (.error e), w)) := by
  cases k with
  | list =>
    constructor
    · intro hl
      obtain ⟨c, h', e, I, hk, hu, _⟩ := C05_tryFromIter_inv K A.zero ys hl w.heap
      refine ⟨c, h', by simp only [wstep, e], hk, I, hu, ?_⟩
      exact (tryFromIter_fresh E.pf A.zero cfg ys w.heap h' c e).1
    · intro hl
      have e := C05_tryFromIter_rejects E.pf K.pf A.zero cfg K.le ys
        (by simp only [NewOK] at hl; omega) w.heap
      exact ⟨.builderFull, by simp only [wstep, e]⟩
  | vector =>
    obtain ⟨b1, b2, b3⟩ := C05_vectorFromIter E.pf A.zero cfg K ys w.heap
    constructor
    · intro hl
      obtain ⟨c, h', e, hk, I, hu⟩ := b1 hl
      refine ⟨c, h', by simp only [wstep, e], hk, I, hu, ?_⟩
      exact (vectorFromIter_fresh E.pf A.zero cfg ys w.heap h' c e).1
    · intro hl
      simp only [NewOK] at hl
      rcases Nat.lt_or_gt_of_ne hl with hlt | hgt
      · exact ⟨.wrongVectorLength ys.length cfg.N, by simp only [wstep, b2 hlt]⟩
      · exact ⟨.builderFull, by simp only [wstep, b3 hgt]⟩

/-- `newFromIter k ys` answers `ok` exactly when the plain sequence is admissible. -/
theorem newFromIter_ok_iff (K : CfgOK E.pf cfg) (w : MWorld T H) (k : CKind) (ys : List T) :
    (wstep E A mixIn cfg w (.newFromIter k ys)).1 = .out .ok ↔ NewOK cfg k ys := by
  obtain ⟨a, b⟩ := ws_newFromIter (mixIn := mixIn) (A := A) K w k ys
  constructor
  · intro h
    apply Classical.byContradiction
    intro hn
    obtain ⟨e, he⟩ := b hn
    rw [he] at h
    cases h
  · intro h
    obtain ⟨cj, h1, e, _⟩ := a h
    rw [e]

omit [DecidableEq T] [DecidableEq H] in
/-- what the world invariant says about one handle. -/
theorem WInv.handle {w : MWorld T H} {sw : SWorld T} (W : WInv E A cfg w sw) {i : Nat}
    {base : Coll T} (hi : w.colls[i]? = some base) :
    ∃ f s xs, HeapOK E A f w.heap ∧ Registered f base.tree ∧ sw[i]? = some s ∧
      base.kind = s.1 ∧ base.hasPending = s.2.2 ∧ CollInv E.pf cfg base xs ∧
      Coll.view xs base = s.2.1 := by
  obtain ⟨f, hok, Hs⟩ := W
  obtain ⟨s, hs, hI⟩ := Hs.get_some hi
  obtain ⟨xs, I, hv⟩ := hI.inv
  exact ⟨f, s, xs, hok, hI.reg, hs, hI.kind, hI.pending, I, hv⟩

omit [DecidableEq T] [DecidableEq H] in
/-- a handle which the plain-sequence state shows as `(k, xs, false)` (no pending writes) has kind
`k`, no pending writes, and backing contents `xs`. -/
theorem WInv.flushed_handle {w : MWorld T H} {sw : SWorld T} (W : WInv E A cfg w sw) {i : Nat}
    {k : CKind} {xs : List T} (hs : sw[i]? = some (k, xs, false)) :
    ∃ base, w.colls[i]? = some base ∧ base.kind = k ∧ base.hasPending = false ∧
      CollInv E.pf cfg base xs := by
  obtain ⟨f, hok, Hs⟩ := W
  have hi : i < w.colls.length := by
    rw [Hs.1]
    rcases Nat.lt_or_ge i sw.length with h | h
    · exact h
    · rw [List.getElem?_eq_none h] at hs; cases hs
  have hI := Hs.2 i _ _ (List.getElem?_eq_getElem hi) hs
  obtain ⟨xs', I, hv⟩ := hI.inv
  have hp : (w.colls[i]).hasPending = false := hI.pending
  have hx : xs' = xs := by
    rw [← C01_view_of_not_pending xs' _ hp]; exact hv
  exact ⟨_, List.getElem?_eq_getElem hi, hI.kind, hp, hx ▸ I⟩

/-- **C08 from any world satisfying the invariant.** `i` is any existing handle (hashed or not,
with or without pending writes), `ys` any sequence admissible for `i`'s kind. `newFromIter` creates
the handle `j = w.colls.length`; `rebase j i` then succeeds, leaves every other handle alone, and the
tree of `j` afterwards shares with `i`'s tree every position of equal shape / equal elements; with
equal backing contents it is `i`'s tree itself and the rebase allocates nothing. -/
theorem C08_world (K : CfgOK E.pf cfg) (hcf : CollisionFree E A) (nz : NoZeroNode A)
    {w : MWorld T H} {sw : SWorld T} (W : WInv E A cfg w sw) (i : Nat) (base : Coll T)
    (hi : w.colls[i]? = some base) (ys : List T) (hnew : NewOK cfg base.kind ys) :
    ∃ cj h1 cj' h2,
      wstep E A mixIn cfg w (.newFromIter base.kind ys) = (.out .ok, ⟨h1, w.colls ++ [cj]⟩) ∧
      wstep E A mixIn cfg ⟨h1, w.colls ++ [cj]⟩ (.rebase w.colls.length i) =
        (.out .ok, ⟨h2, w.colls ++ [cj']⟩) ∧
      (w.colls ++ [cj'])[w.colls.length]? = some cj' ∧ (w.colls ++ [cj'])[i]? = some base ∧
      -- the new handle is fresh, hence shares no node with handle `i`
      (∀ id ∈ cj.tree.ids, w.heap.next ≤ id ∧ id < h1.next) ∧ cj.tree.Disjoint base.tree ∧
      CollInv E.pf cfg cj ys ∧ cj.updates = UMap.empty cfg.map ∧
      -- sharing, by shape
      (∀ p a b, subAt cj.tree p = some a → subAt base.tree p = some b → a.erase = b.erase →
        subAt cj'.tree p = some b) ∧
      -- sharing, by elements (`xs` = backing contents of `i`)
      (∀ xs, CollInv E.pf cfg base xs → ∀ p a b, subAt cj.tree p = some a →
        subAt base.tree p = some b →
        sliceAt E.pf (listDepth E.pf cfg.N) p ys = sliceAt E.pf (listDepth E.pf cfg.N) p xs →
        subAt cj'.tree p = some b) ∧
      -- equal contents: the whole tree is shared, nothing is allocated
      (CollInv E.pf cfg base ys → cj'.tree = base.tree ∧ h2 = h1) ∧
      cj'.kind = cj.kind ∧ cj'.length = cj.length ∧ cj'.depth = cj.depth ∧
      cj'.updates = cj.updates := by
  obtain ⟨cj, h1, e1, hkj, Ij, huj, hfresh⟩ :=
    (ws_newFromIter (mixIn := mixIn) (A := A) K w base.kind ys).1 hnew
  -- the invariant after the first step
  have W1 := (wstep_refines (mixIn := mixIn) K hcf nz (regFacts_holds E A cfg) W
    (.newFromIter base.kind ys)).2
  rw [e1] at W1
  obtain ⟨f, hok, Hs⟩ := W
  obtain ⟨s, hs, hI⟩ := Hs.get_some hi
  obtain ⟨xs0, Ib, hv⟩ := hI.inv
  have hilt : i < w.colls.length := by
    rcases Nat.lt_or_ge i w.colls.length with h | h
    · exact h
    · rw [List.getElem?_eq_none h] at hi; cases hi
  have hdis : cj.tree.Disjoint base.tree :=
    fresh_disjoint hok hI.reg (fun id hid => (hfresh id hid).1)
  obtain ⟨f1, hok1, Hs1⟩ := W1
  have hj1 : (w.colls ++ [cj])[w.colls.length]? = some cj := by
    rw [List.getElem?_append_right (Nat.le_refl _)]; simp
  have hi1 : (w.colls ++ [cj])[i]? = some base := by
    rw [List.getElem?_append_left hilt]; exact hi
  obtain ⟨sj, hsj, hIj⟩ := Hs1.get_some hj1
  obtain ⟨si, hsi, hIi⟩ := Hs1.get_some hi1
  obtain ⟨cj', h2, e2, hpos, hel, heq, hk', hl', hd', hu'⟩ :=
    C08_rebase_disjoint_core K hcf hok1 cj base ys xs0 Ij Ib hIj.reg hIi.reg hdis
      (fun hv => by rw [← hkj]; exact hv)
  have hset : (w.colls ++ [cj]).set w.colls.length cj' = w.colls ++ [cj'] := by
    rw [List.set_append_right _ _ (Nat.le_refl _)]; simp
  refine ⟨cj, h1, cj', h2, e1, ?_, ?_, ?_, hfresh, hdis, Ij, huj, hpos, ?_, ?_, hk', hl', hd', hu'⟩
  · simp only [wstep, hj1, hi1, if_pos hkj, e2, hset]
  · rw [List.getElem?_append_right (Nat.le_refl _)]; simp
  · rw [List.getElem?_append_left hilt]; exact hi
  · intro xs Ix
    have hx : xs = xs0 := canon_injective E.pf K.pf base.depth xs xs0 (ws_cap K Ix) (ws_cap K Ib)
      (Ix.shape.symm.trans Ib.shape)
    subst hx
    exact hel
  · intro Iy
    have hx : ys = xs0 := canon_injective E.pf K.pf base.depth ys xs0 (ws_cap K Iy) (ws_cap K Ib)
      (Iy.shape.symm.trans Ib.shape)
    exact heq hx

/-- a two-operation history, spelled out. -/
theorem wrun_two (w : MWorld T H) (a b : WOp T) :
    wrun E A mixIn cfg w [a, b] =
      ([(wstep E A mixIn cfg w a).1, (wstep E A mixIn cfg (wstep E A mixIn cfg w a).2 b).1],
        (wstep E A mixIn cfg (wstep E A mixIn cfg w a).2 b).2) := rfl

/-- **C08, closed over histories (by shape).** Let `ops` be ANY finite history from the empty
world, with outputs `outs` and final world `w`; let `i` be any existing handle of `w` (hashed or
not, with or without pending writes) and `ys` a sequence admissible for its kind. Continue the
history with `newFromIter` (creating handle `j = w.colls.length` from plain values) and
`rebase j i`. Then both steps answer `ok`; all handles of `w` are untouched; and for every position
`p` at which `j`'s tree before the rebase (`cj.tree`) and `i`'s tree have subtrees `a`, `b` of the
same shape, the subtree of `j`'s tree after the rebase at `p` is `b` itself — the same `Tree` value,
node identities included. There is no disjointness hypothesis: `j`'s nodes are new (fifth
conjunct), `i`'s are registered, hence older (`fresh_disjoint`). -/
theorem C08_history_closed (K : CfgOK E.pf cfg) (hcf : CollisionFree E A) (nz : NoZeroNode A)
    (ops : List (WOp T)) (outs : List (WOut T H)) (w : MWorld T H)
    (hrun : wrun E A mixIn cfg MWorld.empty ops = (outs, w))
    (i : Nat) (base : Coll T) (hi : w.colls[i]? = some base)
    (ys : List T) (hnew : NewOK cfg base.kind ys) :
    ∃ cj h1 cj' h2,
      wrun E A mixIn cfg MWorld.empty (ops ++ [.newFromIter base.kind ys]) =
        (outs ++ [.out .ok], ⟨h1, w.colls ++ [cj]⟩) ∧
      wrun E A mixIn cfg MWorld.empty
          (ops ++ [.newFromIter base.kind ys, .rebase w.colls.length i]) =
        (outs ++ [.out .ok, .out .ok], ⟨h2, w.colls ++ [cj']⟩) ∧
      (w.colls ++ [cj'])[w.colls.length]? = some cj' ∧ (w.colls ++ [cj'])[i]? = some base ∧
      (∀ id ∈ cj.tree.ids, w.heap.next ≤ id ∧ id < h1.next) ∧ cj.tree.Disjoint base.tree ∧
      CollInv E.pf cfg cj ys ∧ cj.updates = UMap.empty cfg.map ∧
      (∀ p a b, subAt cj.tree p = some a → subAt base.tree p = some b → a.erase = b.erase →
        subAt cj'.tree p = some b) ∧
      (∀ xs, CollInv E.pf cfg base xs → ∀ p a b, subAt cj.tree p = some a →
        subAt base.tree p = some b →
        sliceAt E.pf (listDepth E.pf cfg.N) p ys = sliceAt E.pf (listDepth E.pf cfg.N) p xs →
        subAt cj'.tree p = some b) ∧
      (CollInv E.pf cfg base ys → cj'.tree = base.tree ∧ h2 = h1) ∧
      cj'.kind = cj.kind ∧ cj'.length = cj.length ∧ cj'.depth = cj.depth ∧
      cj'.updates = cj.updates := by
  have W := (world_refines (mixIn := mixIn) K hcf nz ops).2
  rw [hrun] at W
  obtain ⟨cj, h1, cj', h2, e1, e2, rest⟩ :=
    C08_world (mixIn := mixIn) K hcf nz W i base hi ys hnew
  refine ⟨cj, h1, cj', h2, ?_, ?_, rest⟩
  · rw [wrun_append, hrun]
    simp only [wrun, e1]
  · rw [wrun_append, hrun, wrun_two]
    simp only [e1, e2]

/-- **C08, closed over histories (by elements).** The hypotheses only mention the plain
sequences: after the history `ops` the specification shows handle `i` as `(k, xs, false)` (kind
`k`, contents `xs`, no pending writes) and `ys` is admissible for kind `k`. Then `newFromIter k ys`
and `rebase j i` (`j` the new handle) both answer `ok`, and wherever `j`'s tree and `i`'s tree both
have a subtree at `p` and `xs`, `ys` have the same elements below `p` (`sliceAt`, an index range by
`sliceAt_eq_range`), the tree of `j` after the rebase has `i`'s node at `p`. -/
theorem C08_history_same_elements (K : CfgOK E.pf cfg) (hcf : CollisionFree E A)
    (nz : NoZeroNode A) (ops : List (WOp T)) (outs : List (WOut T H)) (w : MWorld T H)
    (hrun : wrun E A mixIn cfg MWorld.empty ops = (outs, w))
    (i : Nat) (k : CKind) (xs ys : List T)
    (hs : (wsrun E A mixIn cfg.N [] ops).2[i]? = some (k, xs, false))
    (hnew : NewOK cfg k ys) :
    ∃ base cj h1 cj' h2, w.colls[i]? = some base ∧ base.kind = k ∧ base.hasPending = false ∧
      wrun E A mixIn cfg MWorld.empty (ops ++ [.newFromIter k ys]) =
        (outs ++ [.out .ok], ⟨h1, w.colls ++ [cj]⟩) ∧
      wrun E A mixIn cfg MWorld.empty (ops ++ [.newFromIter k ys, .rebase w.colls.length i]) =
        (outs ++ [.out .ok, .out .ok], ⟨h2, w.colls ++ [cj']⟩) ∧
      (w.colls ++ [cj'])[w.colls.length]? = some cj' ∧ (w.colls ++ [cj'])[i]? = some base ∧
      ∀ p a b, subAt cj.tree p = some a → subAt base.tree p = some b →
        sliceAt E.pf (listDepth E.pf cfg.N) p ys = sliceAt E.pf (listDepth E.pf cfg.N) p xs →
        subAt cj'.tree p = some b := by
  have W := (world_refines (mixIn := mixIn) K hcf nz ops).2
  rw [hrun] at W
  obtain ⟨base, hi, hk, hp, Ib⟩ := W.flushed_handle hs
  subst hk
  obtain ⟨cj, h1, cj', h2, r1, r2, g1, g2, -, -, -, -, -, hel, -⟩ :=
    C08_history_closed K hcf nz ops outs w hrun i base hi ys hnew
  exact ⟨base, cj, h1, cj', h2, hi, rfl, hp, r1, r2, g1, g2, hel xs Ib⟩

/-- **C08, closed over histories (equal contents share the root).** If moreover `ys` is the
contents of the flushed handle `i`, then after the rebase `j`'s tree IS `i`'s tree, and the rebase
step leaves the heap as it was (nothing allocated, no memo written). -/
theorem C08_history_equal_shares_root (K : CfgOK E.pf cfg) (hcf : CollisionFree E A)
    (nz : NoZeroNode A) (ops : List (WOp T)) (outs : List (WOut T H)) (w : MWorld T H)
    (hrun : wrun E A mixIn cfg MWorld.empty ops = (outs, w))
    (i : Nat) (k : CKind) (ys : List T)
    (hs : (wsrun E A mixIn cfg.N [] ops).2[i]? = some (k, ys, false)) :
    ∃ base cj h1 cj', w.colls[i]? = some base ∧ base.kind = k ∧ base.hasPending = false ∧
      wrun E A mixIn cfg MWorld.empty (ops ++ [.newFromIter k ys]) =
        (outs ++ [.out .ok], ⟨h1, w.colls ++ [cj]⟩) ∧
      wrun E A mixIn cfg MWorld.empty (ops ++ [.newFromIter k ys, .rebase w.colls.length i]) =
        (outs ++ [.out .ok, .out .ok], ⟨h1, w.colls ++ [cj']⟩) ∧
      (w.colls ++ [cj'])[w.colls.length]? = some cj' ∧ (w.colls ++ [cj'])[i]? = some base ∧
      cj.tree.Disjoint base.tree ∧ cj'.tree = base.tree := by
  have W := (world_refines (mixIn := mixIn) K hcf nz ops).2
  rw [hrun] at W
  obtain ⟨base, hi, hk, hp, Ib⟩ := W.flushed_handle hs
  subst hk
  have hnew : NewOK cfg base.kind ys := by
    have hb := Ib.bound
    unfold NewOK
    cases hk : base.kind with
    | list => rw [hk] at hb; exact hb
    | vector => rw [hk] at hb; exact hb
  obtain ⟨cj, h1, cj', h2, r1, r2, g1, g2, -, hdis, -, -, -, -, heq, -⟩ :=
    C08_history_closed K hcf nz ops outs w hrun i base hi ys hnew
  obtain ⟨ht, rfl⟩ := heq Ib
  exact ⟨base, cj, h2, cj', hi, rfl, hp, r1, r2, g1, g2, hdis, ht⟩

/-! ## 4. The fresh handle produced by SSZ decoding

`WOp` has no SSZ constructor, so this is stated on the model functions: from any world satisfying
the invariant, decode bytes on the world's heap, then rebase the result on any handle. -/

/-- what "`c'` is `c` (backing contents `ys`, heap `h1`) rebased on `base`, now sharing with it"
says; `h2` is the heap after the rebase. -/
structure C08Shares (E : Elem T H) (cfg : Cfg) (c base c' : Coll T) (ys : List T)
    (h1 h2 : Heap H) : Prop where
  /-- no node in common before the rebase -/
  disjoint : c.tree.Disjoint base.tree
  /-- every position with subtrees of equal shape holds the base's node -/
  byShape : ∀ p a b, subAt c.tree p = some a → subAt base.tree p = some b → a.erase = b.erase →
    subAt c'.tree p = some b
  /-- every position present in both trees with equal elements below holds the base's node
  (`xs` = the backing contents of the base) -/
  byElems : ∀ xs, CollInv E.pf cfg base xs → ∀ p a b, subAt c.tree p = some a →
    subAt base.tree p = some b →
    sliceAt E.pf (listDepth E.pf cfg.N) p ys = sliceAt E.pf (listDepth E.pf cfg.N) p xs →
    subAt c'.tree p = some b
  /-- equal backing contents: the root is shared and the rebase changes nothing in the heap -/
  equal : CollInv E.pf cfg base ys → c'.tree = base.tree ∧ h2 = h1
  kind : c'.kind = c.kind
  length : c'.length = c.length
  depth : c'.depth = c.depth
  updates : c'.updates = c.updates

omit [DecidableEq T] [DecidableEq H] in
/-- the backing contents of a collection are determined by it. -/
theorem CollInv.contents_unique (K : CfgOK E.pf cfg) {c : Coll T} {xs ys : List T}
    (I : CollInv E.pf cfg c xs) (J : CollInv E.pf cfg c ys) : xs = ys :=
  canon_injective E.pf K.pf c.depth xs ys (ws_cap K I) (ws_cap K J) (I.shape.symm.trans J.shape)

/-- **a collection allocated after the world's heap, rebased on a handle of the world.** -/
theorem C08_fresh_rebase_world (K : CfgOK E.pf cfg) (hcf : CollisionFree E A)
    {w : MWorld T H} {sw : SWorld T} (W : WInv E A cfg w sw) (i : Nat) (base : Coll T)
    (hi : w.colls[i]? = some base) (c : Coll T) (h' : Heap H) (ys : List T)
    (Ic : CollInv E.pf cfg c ys) (hfresh : ∀ id ∈ c.tree.ids, w.heap.next ≤ id)
    (hreg : ∀ f, HeapOK E A f w.heap → RegPost E A f w.heap c.tree h')
    (hvec : c.kind = .vector → base.kind = .vector) :
    ∃ c' h2, c.rebaseOnColl E.pf A.zero base h' = .ok (c', h2) ∧
      C08Shares E cfg c base c' ys h' h2 := by
  obtain ⟨f, hok, Hs⟩ := W
  obtain ⟨s, hs, hI⟩ := Hs.get_some hi
  obtain ⟨xs0, Ib, hv⟩ := hI.inv
  obtain ⟨f1, x1, hok1, rc⟩ := hreg f hok
  have hdis : c.tree.Disjoint base.tree := fresh_disjoint hok hI.reg hfresh
  obtain ⟨c', h2, e2, hpos, hel, heq, hk', hl', hd', hu'⟩ :=
    C08_rebase_disjoint_core K hcf hok1 c base ys xs0 Ic Ib rc (hI.reg.ext hok x1) hdis hvec
  refine ⟨c', h2, e2, hdis, hpos, ?_, ?_, hk', hl', hd', hu'⟩
  · intro xs Ix
    rw [CollInv.contents_unique K Ix Ib]
    exact hel
  · intro Iy
    exact heq (CollInv.contents_unique K Iy Ib)

omit [DecidableEq T] [DecidableEq H] in
/-- `List::from_ssz_bytes`, when it succeeds, yields a list satisfying the invariant whose backing
contents are the decoded items. -/
theorem sszDecodeList_collInv (K : CfgOK E.pf cfg) (z : H) (bs : List UInt8) (h h' : Heap H)
    (c : Coll T) (he : sszDecodeList E z cfg bs h = .ok (c, h')) :
    ∃ ys, sszDecodeItems E cfg.N bs = some ys ∧ CollInv E.pf cfg c ys ∧ c.kind = .list ∧
      c.updates = UMap.empty cfg.map := by
  rcases C12_decodeList_ok E z cfg bs h c h' he with ⟨hb, e⟩ | ⟨-, xs, hxs, e⟩
  · subst hb
    obtain ⟨I, hk, hu, -⟩ := C05_empty (T := T) E.pf z cfg h
    rw [e] at I hk hu
    exact ⟨[], by simp [sszDecodeItems], I, hk, hu⟩
  · have hl : xs.length ≤ cfg.N := by
      apply Classical.byContradiction
      intro hn
      rw [C05_tryFromIter_rejects E.pf K.pf z cfg K.le xs (by omega) h] at e
      cases e
    obtain ⟨c0, h0, e0, I, hk, hu, -⟩ := C05_tryFromIter_inv K z xs hl h
    rw [e] at e0
    cases e0
    exact ⟨xs, hxs, I, hk, hu⟩

omit [DecidableEq T] [DecidableEq H] in
/-- `Vector::from_ssz_bytes`, when it succeeds, yields a vector satisfying the invariant whose
backing contents are the decoded items; its tree is the tree of the decoded list. -/
theorem sszDecodeVector_collInv (K : CfgOK E.pf cfg) (z : H) (bs : List UInt8) (h h' : Heap H)
    (c : Coll T) (he : sszDecodeVector E z cfg bs h = .ok (c, h')) :
    ∃ ys, sszDecodeItems E cfg.N bs = some ys ∧ CollInv E.pf cfg c ys ∧ c.kind = .vector ∧
      c.updates = UMap.empty cfg.map := by
  obtain ⟨c0, h0, e0, -, e1⟩ := C12_decodeVector_ok E z cfg bs h c h' he
  obtain ⟨ys, hys, I0, hk0, hu0⟩ := sszDecodeList_collInv K z bs h h0 c0 e0
  obtain ⟨g1, g2⟩ := C05_toVector_flushed E.pf z cfg c0 ys I0 hu0 h0
  by_cases hN : ys.length = cfg.N
  · obtain ⟨c', e', hk', I', hu'⟩ := g1 hN
    rw [e1] at e'
    cases e'
    exact ⟨ys, hys, I', hk', hu'⟩
  · rw [g2 hN] at e1
    cases e1

/-- **C08 for `List::from_ssz_bytes`.** From any world satisfying the invariant, decode `bs` on
the world's heap and rebase the decoded list on any handle `i` (any kind of the same `N`, any
state): every node of the decoded list is new, the rebase succeeds, and the result shares with
handle `i` as described by `C08Shares`. -/
theorem C08_sszDecodeList_shares (K : CfgOK E.pf cfg) (hcf : CollisionFree E A)
    {w : MWorld T H} {sw : SWorld T} (W : WInv E A cfg w sw) (i : Nat) (base : Coll T)
    (hi : w.colls[i]? = some base) (bs : List UInt8) (c : Coll T) (h' : Heap H)
    (hdec : sszDecodeList E A.zero cfg bs w.heap = .ok (c, h')) :
    ∃ ys c' h2, sszDecodeItems E cfg.N bs = some ys ∧ CollInv E.pf cfg c ys ∧ c.kind = .list ∧
      c.updates = UMap.empty cfg.map ∧
      (∀ id ∈ c.tree.ids, w.heap.next ≤ id ∧ id < h'.next) ∧
      c.rebaseOnColl E.pf A.zero base h' = .ok (c', h2) ∧ C08Shares E cfg c base c' ys h' h2 := by
  obtain ⟨ys, hys, Ic, hk, hu⟩ := sszDecodeList_collInv K A.zero bs w.heap h' c hdec
  obtain ⟨hfr, -, -⟩ := sszDecodeList_fresh E A.zero cfg bs w.heap h' c hdec
  obtain ⟨c', h2, e, sh⟩ := C08_fresh_rebase_world K hcf W i base hi c h' ys Ic
    (fun id hid => (hfr id hid).1)
    (fun f hok => sszDecodeList_reg E A cfg bs f w.heap h' c hok hdec)
    (fun hv => by rw [hk] at hv; cases hv)
  exact ⟨ys, c', h2, hys, Ic, hk, hu, hfr, e, sh⟩

/-- **C08 for `Vector::from_ssz_bytes`**, rebased on any vector handle `i`. -/
theorem C08_sszDecodeVector_shares (K : CfgOK E.pf cfg) (hcf : CollisionFree E A)
    {w : MWorld T H} {sw : SWorld T} (W : WInv E A cfg w sw) (i : Nat) (base : Coll T)
    (hi : w.colls[i]? = some base) (hkb : base.kind = .vector) (bs : List UInt8) (c : Coll T)
    (h' : Heap H) (hdec : sszDecodeVector E A.zero cfg bs w.heap = .ok (c, h')) :
    ∃ ys c' h2, sszDecodeItems E cfg.N bs = some ys ∧ CollInv E.pf cfg c ys ∧ c.kind = .vector ∧
      c.updates = UMap.empty cfg.map ∧
      (∀ id ∈ c.tree.ids, w.heap.next ≤ id ∧ id < h'.next) ∧
      c.rebaseOnColl E.pf A.zero base h' = .ok (c', h2) ∧ C08Shares E cfg c base c' ys h' h2 := by
  obtain ⟨ys, hys, Ic, hk, hu⟩ := sszDecodeVector_collInv K A.zero bs w.heap h' c hdec
  obtain ⟨hfr, -⟩ := sszDecodeVector_fresh E A.zero cfg bs w.heap h' c hdec
  obtain ⟨c', h2, e, sh⟩ := C08_fresh_rebase_world K hcf W i base hi c h' ys Ic
    (fun id hid => (hfr id hid).1)
    (fun f hok => sszDecodeVector_reg E A cfg bs f w.heap h' c hok hdec)
    (fun _ => hkb)
  exact ⟨ys, c', h2, hys, Ic, hk, hu, hfr, e, sh⟩

/-- the two SSZ statements after EVERY history from the empty world (the invariant holds there). -/
theorem C08_history_sszDecodeList_shares (K : CfgOK E.pf cfg) (hcf : CollisionFree E A)
    (nz : NoZeroNode A) (ops : List (WOp T)) (outs : List (WOut T H)) (w : MWorld T H)
    (hrun : wrun E A mixIn cfg MWorld.empty ops = (outs, w)) (i : Nat) (base : Coll T)
    (hi : w.colls[i]? = some base) (bs : List UInt8) (c : Coll T) (h' : Heap H)
    (hdec : sszDecodeList E A.zero cfg bs w.heap = .ok (c, h')) :
    ∃ ys c' h2, sszDecodeItems E cfg.N bs = some ys ∧ CollInv E.pf cfg c ys ∧ c.kind = .list ∧
      c.updates = UMap.empty cfg.map ∧
      (∀ id ∈ c.tree.ids, w.heap.next ≤ id ∧ id < h'.next) ∧
      c.rebaseOnColl E.pf A.zero base h' = .ok (c', h2) ∧ C08Shares E cfg c base c' ys h' h2 := by
  have W := (world_refines (mixIn := mixIn) K hcf nz ops).2
  rw [hrun] at W
  exact C08_sszDecodeList_shares K hcf W i base hi bs c h' hdec

theorem C08_history_sszDecodeVector_shares (K : CfgOK E.pf cfg) (hcf : CollisionFree E A)
    (nz : NoZeroNode A) (ops : List (WOp T)) (outs : List (WOut T H)) (w : MWorld T H)
    (hrun : wrun E A mixIn cfg MWorld.empty ops = (outs, w)) (i : Nat) (base : Coll T)
    (hi : w.colls[i]? = some base) (hkb : base.kind = .vector) (bs : List UInt8) (c : Coll T)
    (h' : Heap H) (hdec : sszDecodeVector E A.zero cfg bs w.heap = .ok (c, h')) :
    ∃ ys c' h2, sszDecodeItems E cfg.N bs = some ys ∧ CollInv E.pf cfg c ys ∧ c.kind = .vector ∧
      c.updates = UMap.empty cfg.map ∧
      (∀ id ∈ c.tree.ids, w.heap.next ≤ id ∧ id < h'.next) ∧
      c.rebaseOnColl E.pf A.zero base h' = .ok (c', h2) ∧ C08Shares E cfg c base c' ys h' h2 := by
  have W := (world_refines (mixIn := mixIn) K hcf nz ops).2
  rw [hrun] at W
  exact C08_sszDecodeVector_shares K hcf W i base hi hkb bs c h' hdec

end World

/-! ## 5. Non-vacuity: every hypothesis instantiated on concrete histories, and evaluated runs

`List<_, 8>` / `Vector<_, 8>` of `Nat`, two values per packed leaf, hashes in the free algebra `HT`
(`Proofs/Rebase.lean`), the example history `exOps` of `Proofs/World.lean`. -/

namespace WorldShareExample
open WorldExample RebaseExample

/-- nine operations over two handles: construct `[1,2,3,4,5]`, `clone`, a write and a push on the
clone, a read, a refused root, the flush of the clone, the roots of both handles. -/
def shOps : List (WOp Nat) := exOps.take 9

/-- handle 0 after `shOps`: the seven-node tree of `[1,2,3,4,5]`, every memo computed. -/
def shBase : Coll Nat := ⟨.list, exT, 5, 2, .btree []⟩

/-- the outputs and the world reached by `shOps`. -/
def shOuts : List (WOut Nat HT) :=
  (wrun (HT.elem (some 2)) HT.alg exMix (exCfg .btree) MWorld.empty shOps).1
def shW : MWorld Nat HT :=
  (wrun (HT.elem (some 2)) HT.alg exMix (exCfg .btree) MWorld.empty shOps).2

-- the hypotheses of `C08_history_closed`
theorem shRun : wrun (HT.elem (some 2)) HT.alg exMix (exCfg .btree) MWorld.empty shOps =
    (shOuts, shW) := rfl
example : shOuts = exOuts.take 9 := by decide
example : shW.colls[0]? = some shBase := rfl
example : NewOK (exCfg .btree) shBase.kind [1, 2, 3, 4, 9] := by show 5 ≤ 8; decide
example : ¬ NewOK (exCfg .btree) .vector [1, 2, 3, 4, 9] := by show ¬ (5 = 8); decide

-- the memos of handle 0 are present: the base is "hashed"
example : (wrun (HT.elem (some 2)) HT.alg exMix (exCfg .btree) MWorld.empty shOps).2.heap.read
    HT.z 6 = trueHash (HT.elem (some 2)) HT.alg exT := by decide

/-- `C08_history_closed` on that history, handle 0, fresh contents `[1,2,3,4,9]`. -/
example :=
  C08_history_closed (mixIn := exMix) (exK .btree) (HT.collisionFree _) exNZ shOps shOuts shW shRun 0
    shBase rfl [1, 2, 3, 4, 9] (by show 5 ≤ 8; decide)

-- the same on a handle WITH pending writes (handle 1 after the first four operations: a clone of
-- handle 0 with a pending write and a pending push, tree physically shared with handle 0)
def shW4 : MWorld Nat HT :=
  (wrun (HT.elem (some 2)) HT.alg exMix (exCfg .btree) MWorld.empty (exOps.take 4)).2

example :=
  C08_history_closed (mixIn := exMix) (exK .btree) (HT.collisionFree _) exNZ (exOps.take 4)
    (wrun (HT.elem (some 2)) HT.alg exMix (exCfg .btree) MWorld.empty (exOps.take 4)).1 shW4 rfl
    1 ⟨.list, exT, 5, 2, .btree [(1, 20), (5, 6)]⟩ rfl [1, 2, 3, 4, 9] (by show 5 ≤ 8; decide)

-- by evaluation: the fresh handle (all ids ≥ 12 = `next` after `shOps`) …
example : ((wrun (HT.elem (some 2)) HT.alg exMix (exCfg .btree) MWorld.empty
      (shOps ++ [.newFromIter .list [1, 2, 3, 4, 9]])).2.colls[2]?).map (·.tree) =
    some (.node 18 (.node 14 (.packed 12 [1, 2]) (.packed 13 [3, 4]))
      (.node 17 (.packed 15 [9]) (.zero 16 0))) := rfl
example : (wrun (HT.elem (some 2)) HT.alg exMix (exCfg .btree) MWorld.empty shOps).2.heap.next = 12 :=
  rfl

-- … and after `rebase 2 0`: positions `[false]` (elements 0..3) and `[true, true]` (the zero
-- subtree) hold handle 0's nodes 2 and 4; the path to the differing leaf is rebuilt (19, 20)
example : ((wrun (HT.elem (some 2)) HT.alg exMix (exCfg .btree) MWorld.empty
      (shOps ++ [.newFromIter .list [1, 2, 3, 4, 9], .rebase 2 0])).2.colls[2]?).map (·.tree) =
    some (.node 20 (.node 2 (.packed 0 [1, 2]) (.packed 1 [3, 4]))
      (.node 19 (.packed 15 [9]) (.zero 4 0))) := rfl
example : (wrun (HT.elem (some 2)) HT.alg exMix (exCfg .btree) MWorld.empty
      (shOps ++ [.newFromIter .list [1, 2, 3, 4, 9], .rebase 2 0])).1 =
    exOuts.take 9 ++ [.out .ok, .out .ok] := by decide

-- `C08_history_same_elements`: its hypotheses, and the premise of its conclusion at two positions
example : (wsrun (HT.elem (some 2)) HT.alg exMix (exCfg .btree).N [] shOps).2[0]? =
    some (.list, [1, 2, 3, 4, 5], false) := by decide

example :=
  C08_history_same_elements (mixIn := exMix) (exK .btree) (HT.collisionFree _) exNZ shOps shOuts shW
    shRun 0 .list [1, 2, 3, 4, 5] [1, 2, 3, 4, 9] (by decide) (by show 5 ≤ 8; decide)

example : sliceAt (some 2) (listDepth (some 2) 8) [false] [1, 2, 3, 4, 9] =
    sliceAt (some 2) (listDepth (some 2) 8) [false] [1, 2, 3, 4, 5] := by decide
example : sliceAt (some 2) (listDepth (some 2) 8) [true, true] [1, 2, 3, 4, 9] =
    sliceAt (some 2) (listDepth (some 2) 8) [true, true] [1, 2, 3, 4, 5] := by decide
example : sliceAt (some 2) (listDepth (some 2) 8) [true, false] [1, 2, 3, 4, 9] ≠
    sliceAt (some 2) (listDepth (some 2) 8) [true, false] [1, 2, 3, 4, 5] := by decide

-- `C08_history_equal_shares_root`: equal contents, the whole tree is handle 0's tree
example :=
  C08_history_equal_shares_root (mixIn := exMix) (exK .btree) (HT.collisionFree _) exNZ shOps shOuts
    shW shRun 0 .list [1, 2, 3, 4, 5] (by decide)

example : ((wrun (HT.elem (some 2)) HT.alg exMix (exCfg .btree) MWorld.empty
      (shOps ++ [.newFromIter .list [1, 2, 3, 4, 5], .rebase 2 0])).2.colls[2]?).map (·.tree) =
    some exT := rfl
-- the rebase step left the heap alone
example : (wrun (HT.elem (some 2)) HT.alg exMix (exCfg .btree) MWorld.empty
      (shOps ++ [.newFromIter .list [1, 2, 3, 4, 5], .rebase 2 0])).2.heap =
    (wrun (HT.elem (some 2)) HT.alg exMix (exCfg .btree) MWorld.empty
      (shOps ++ [.newFromIter .list [1, 2, 3, 4, 5]])).2.heap := rfl

/-! ### SSZ: `Nat` elements encoded as one byte -/

/-- `HT.elem (some 2)` with a one-byte codec. -/
def shE : Elem Nat HT :=
  { HT.elem (some 2) with
    fixedLen := some 1
    enc := fun n => [UInt8.ofNat n]
    dec := fun bs => match bs with
      | [b] => some b.toNat
      | _ => none }

theorem shE_cf : CollisionFree shE HT.alg where
  h2_inj := by intro a b c d h; simpa [HT.alg] using h
  leaf_inj := by intro v w h; simpa [shE, HT.elem] using h
  pack_inj := by
    intro vs ws hl h
    simp only [shE, HT.elem, HT.pk.injEq, hl] at h
    exact List.append_cancel_right h

theorem shK : CfgOK shE.pf (exCfg .btree) := exK .btree

/-- a list `[1,2,3,4,5]` (hashed) and a vector `[1..8]`. -/
def shOps2 : List (WOp Nat) :=
  [.newFromIter .list [1, 2, 3, 4, 5], .root 0, .newFromIter .vector [1, 2, 3, 4, 5, 6, 7, 8]]

/-- the world reached by `shOps2` (14 nodes). -/
def shW2 : MWorld Nat HT := (wrun shE HT.alg exMix (exCfg .btree) MWorld.empty shOps2).2

/-- handle 1 after `shOps2`: the vector `[1..8]`. -/
def shVec : Coll Nat :=
  ⟨.vector, .node 13 (.node 9 (.packed 7 [1, 2]) (.packed 8 [3, 4]))
    (.node 12 (.packed 10 [5, 6]) (.packed 11 [7, 8])), 8, 2, .btree []⟩

example : shW2.colls = [shBase, shVec] := rfl
example : shW2.heap.next = 14 := rfl

/-- the list decoded from the bytes `1 2 3 4 9` on the heap of `shW2`. -/
def shDecoded : Coll Nat :=
  ⟨.list, .node 20 (.node 16 (.packed 14 [1, 2]) (.packed 15 [3, 4]))
    (.node 19 (.packed 17 [9]) (.zero 18 0)), 5, 2, .btree []⟩

/-- the vector decoded from the bytes `1 2 3 4 5 6 7 9`. -/
def shDecodedVec : Coll Nat :=
  ⟨.vector, .node 20 (.node 16 (.packed 14 [1, 2]) (.packed 15 [3, 4]))
    (.node 19 (.packed 17 [5, 6]) (.packed 18 [7, 9])), 8, 2, .btree []⟩

/-- `C08_history_sszDecodeList_shares` instantiated: decode, then rebase on handle 0. -/
example :=
  C08_history_sszDecodeList_shares (mixIn := exMix) shK shE_cf exNZ shOps2
    (wrun shE HT.alg exMix (exCfg .btree) MWorld.empty shOps2).1 shW2 rfl 0
    shBase rfl [1, 2, 3, 4, 9] shDecoded _ rfl

/-- `C08_history_sszDecodeVector_shares` instantiated: decode, then rebase on the vector handle 1. -/
example :=
  C08_history_sszDecodeVector_shares (mixIn := exMix) shK shE_cf exNZ shOps2
    (wrun shE HT.alg exMix (exCfg .btree) MWorld.empty shOps2).1 shW2 rfl 1
    shVec rfl rfl [1, 2, 3, 4, 5, 6, 7, 9] shDecodedVec _ rfl

-- by evaluation: the rebased decoded list has handle 0's nodes 2 and 4
example : ∃ h' c' h2,
    sszDecodeList shE HT.z (exCfg .btree) [1, 2, 3, 4, 9] shW2.heap = .ok (shDecoded, h') ∧
    shDecoded.rebaseOnColl (some 2) HT.z shBase h' = .ok (c', h2) ∧
    c'.tree = .node 22 (.node 2 (.packed 0 [1, 2]) (.packed 1 [3, 4]))
      (.node 21 (.packed 17 [9]) (.zero 4 0)) := ⟨_, _, _, rfl, rfl, rfl⟩

-- by evaluation: positions `[false]` and `[true, false]` hold the vector's nodes 9 and 10
example : ∃ h' c' h2,
    sszDecodeVector shE HT.z (exCfg .btree) [1, 2, 3, 4, 5, 6, 7, 9] shW2.heap =
      .ok (shDecodedVec, h') ∧
    shDecodedVec.rebaseOnColl (some 2) HT.z shVec h' = .ok (c', h2) ∧
    c'.tree = .node 22 (.node 9 (.packed 7 [1, 2]) (.packed 8 [3, 4]))
      (.node 21 (.packed 10 [5, 6]) (.packed 18 [7, 9])) := ⟨_, _, _, rfl, rfl, rfl⟩

-- freshness and `registered_ids_lt` on the concrete trees
example : (shDecoded.tree).ids = [20, 16, 14, 15, 19, 17, 18] := rfl
example : exT.ids = [6, 2, 0, 1, 5, 3, 4] := rfl
example : shDecoded.tree.Disjoint exT := by
  intro i hi hi'
  simp only [shDecoded, exT, Tree.ids, List.cons_append, List.nil_append, List.mem_cons,
    List.not_mem_nil, or_false] at hi hi'
  omega

end WorldShareExample

end Milhouse
