import Milhouse.Proofs.Canon
import Milhouse.Model.Collection
/-!
# `repeat_list` builds the canonical tree (C05 / C06 for element repetition)

The layer after `k` iterations of the loop of `repeat_list` is described by `RepeatDesc pf x k q r`:
`q` full subtrees of depth `k` (each holding `cap pf k` copies of `x`), shared as one node with
multiplicity `q`, followed by at most one partial right-edge node holding `r < cap pf k` copies.
`q * cap pf k + r` is the number of elements and is preserved by every step.
-/
namespace Milhouse
variable {T H : Type}

/-- description of the layer at level `k`. -/
inductive RepeatDesc (pf : Option Nat) (x : T) (k : Nat) : Nat → Nat → List (Tree T × Nat) → Prop
  | full (q : Nat) (A : Tree T) (hq : 1 ≤ q)
      (hA : A.erase = canon pf k (List.replicate (cap pf k) x)) :
      RepeatDesc pf x k q 0 [(A, q)]
  | lonely (r : Nat) (B : Tree T) (hr : 0 < r) (hrc : r < cap pf k)
      (hB : B.erase = canon pf k (List.replicate r x)) :
      RepeatDesc pf x k 0 r [(B, 1)]
  | both (q r : Nat) (A B : Tree T) (hq : 1 ≤ q) (hr : 0 < r) (hrc : r < cap pf k)
      (hA : A.erase = canon pf k (List.replicate (cap pf k) x))
      (hB : B.erase = canon pf k (List.replicate r x)) :
      RepeatDesc pf x k q r [(A, q), (B, 1)]

theorem RepeatDesc.r_lt {pf : Option Nat} (hpf : PfOK pf) {x : T} {k q r : Nat}
    {layer : List (Tree T × Nat)} (h : RepeatDesc pf x k q r layer) : r < cap pf k := by
  cases h with
  | full => exact cap_pos pf hpf k
  | lonely _ _ _ hrc => exact hrc
  | both _ _ _ _ _ _ hrc => exact hrc

theorem RepeatDesc.pos {pf : Option Nat} {x : T} {k q r : Nat}
    {layer : List (Tree T × Nat)} (h : RepeatDesc pf x k q r layer) : 0 < q + r := by
  cases h <;> omega

/-! ## joining shapes -/

/-- `node (full) (zero)` -/
private theorem canon_full_zero (pf : Option Nat) (k : Nat) (x : T) (m : Nat)
    (hm : 0 < m) (hle : m ≤ cap pf k) :
    Shape.node (canon pf k (List.replicate m x)) (Shape.zero k) =
      canon pf (k+1) (List.replicate m x) := by
  have := canon_node pf k (List.replicate m x) ([] : List T)
    (by intro h; have := congrArg List.length h; simp at this; omega) (Or.inr rfl)
    (by simpa using hle)
  rw [canon_nil] at this
  simpa using this

/-- `node (full) (anything)` -/
private theorem canon_full_app (pf : Option Nat) (hpf : PfOK pf) (k : Nat) (x : T) (m : Nat) :
    Shape.node (canon pf k (List.replicate (cap pf k) x)) (canon pf k (List.replicate m x)) =
      canon pf (k+1) (List.replicate (cap pf k + m) x) := by
  have hc := cap_pos pf hpf k
  have := canon_node pf k (List.replicate (cap pf k) x) (List.replicate m x)
    (by intro h; have := congrArg List.length h; simp at this; omega) (Or.inl (by simp))
    (by simp)
  rw [this, List.replicate_append_replicate]

/-! ## one step -/

private def Heap.bump (h : Heap H) (z : H) : Heap H := (h.alloc z).2

private theorem Heap.bump_next (h : Heap H) (z : H) : (h.bump z).next = h.next + 1 := by
  simp [Heap.bump, Heap.alloc, Heap.next]

private theorem rs_single_one (z : H) (k : Nat) (h : Heap H) (a : Tree T) :
    repeatStep z k h [(a, 1)] =
      .ok ([(.node (h.next + 1) a (.zero h.next k), 1)], (h.bump z).bump z) := by
  simp [repeatStep, Heap.alloc, Heap.next, Heap.bump]

private theorem rs_single_even (z : H) (k : Nat) (h : Heap H) (a : Tree T) (c : Nat) (h1 : c ≠ 1)
    (h2 : c % 2 = 0) :
    repeatStep z k h [(a, c)] = .ok ([(.node h.next a a, c / 2)], h.bump z) := by
  simp [repeatStep, Heap.alloc, Heap.next, Heap.bump, h1, h2]

private theorem rs_single_odd (z : H) (k : Nat) (h : Heap H) (a : Tree T) (c : Nat) (h1 : c ≠ 1)
    (h2 : c % 2 = 1) :
    repeatStep z k h [(a, c)] =
      .ok ([(.node h.next a a, c / 2), (.node (h.next + 2) a (.zero (h.next + 1) k), 1)],
        ((h.bump z).bump z).bump z) := by
  simp [repeatStep, Heap.alloc, Heap.next, Heap.bump, h1, h2]

private theorem rs_pair_one (z : H) (k : Nat) (h : Heap H) (a b : Tree T) :
    repeatStep z k h [(a, 1), (b, 1)] = .ok ([(.node h.next a b, 1)], h.bump z) := by
  simp [repeatStep, Heap.alloc, Heap.next, Heap.bump]

private theorem rs_pair_even (z : H) (k : Nat) (h : Heap H) (a b : Tree T) (c : Nat) (h1 : c ≠ 1)
    (h2 : c % 2 = 0) :
    repeatStep z k h [(a, c), (b, 1)] =
      .ok ([(.node h.next a a, c / 2), (.node (h.next + 2) b (.zero (h.next + 1) k), 1)],
        ((h.bump z).bump z).bump z) := by
  simp [repeatStep, Heap.alloc, Heap.next, Heap.bump, h1, h2]

private theorem rs_pair_odd (z : H) (k : Nat) (h : Heap H) (a b : Tree T) (c : Nat) (h1 : c ≠ 1)
    (h2 : c % 2 = 1) :
    repeatStep z k h [(a, c), (b, 1)] =
      .ok ([(.node h.next a a, c / 2), (.node (h.next + 1) a b, 1)], (h.bump z).bump z) := by
  simp [repeatStep, Heap.alloc, Heap.next, Heap.bump, h1, h2]

theorem RepeatDesc.cast {pf : Option Nat} {x : T} {k q r q' r' : Nat} {layer : List (Tree T × Nat)}
    (hq : q = q') (hr : r = r') (h : RepeatDesc pf x k q r layer) : RepeatDesc pf x k q' r' layer := by
  subst hq; subst hr; exact h

theorem repeatStep_desc (pf : Option Nat) (hpf : PfOK pf) (z : H) (x : T) (k : Nat) (h : Heap H)
    (q r : Nat) (layer : List (Tree T × Nat)) (hd : RepeatDesc pf x k q r layer) :
    ∃ layer' h', repeatStep z k h layer = .ok (layer', h') ∧
      RepeatDesc pf x (k+1) (q / 2) (q % 2 * cap pf k + r) layer' ∧
      h.next ≤ h'.next ∧ h'.next ≤ h.next + 3 := by
  have hc := cap_pos pf hpf k
  have hcs := cap_succ pf k
  have hAA : ∀ A : Tree T, A.erase = canon pf k (List.replicate (cap pf k) x) →
      Shape.node A.erase A.erase = canon pf (k+1) (List.replicate (cap pf (k+1)) x) := by
    intro A hA
    rw [hA, canon_full_app pf hpf, hcs]; congr 2; omega
  cases hd with
  | full q A hq hA =>
    by_cases h1 : q = 1
    · subst h1
      refine ⟨_, _, rs_single_one z k h A, ?_, ?_, ?_⟩
      · refine RepeatDesc.cast ?_ ?_ (RepeatDesc.lonely (cap pf k) _ (by omega) (by omega) ?_)
        · omega
        · omega
        · simp only [Tree.erase, hA]
          exact canon_full_zero pf k x _ (by omega) (by omega)
      · simp only [Heap.bump_next]; omega
      · simp only [Heap.bump_next]; omega
    · rcases Nat.mod_two_eq_zero_or_one q with h2 | h2
      · refine ⟨_, _, rs_single_even z k h A q h1 h2, ?_, ?_, ?_⟩
        · rw [h2]
          refine RepeatDesc.cast ?_ ?_ (RepeatDesc.full (q / 2) _ (by omega) ?_)
          · rfl
          · omega
          · exact hAA A hA
        · simp only [Heap.bump_next]; omega
        · simp only [Heap.bump_next]; omega
      · refine ⟨_, _, rs_single_odd z k h A q h1 h2, ?_, ?_, ?_⟩
        · rw [h2]
          refine RepeatDesc.cast ?_ ?_ (RepeatDesc.both (q / 2) (cap pf k) _ _ (by omega) (by omega) (by omega)
            ?_ ?_)
          · rfl
          · omega
          · exact hAA A hA
          · simp only [Tree.erase, hA]
            exact canon_full_zero pf k x _ (by omega) (by omega)
        · simp only [Heap.bump_next]; omega
        · simp only [Heap.bump_next]; omega
  | lonely r B hr hrc hB =>
    refine ⟨_, _, rs_single_one z k h B, ?_, ?_, ?_⟩
    · refine RepeatDesc.cast ?_ ?_ (RepeatDesc.lonely r _ (by omega) (by omega) ?_)
      · omega
      · omega
      · simp only [Tree.erase, hB]
        exact canon_full_zero pf k x _ (by omega) (by omega)
    · simp only [Heap.bump_next]; omega
    · simp only [Heap.bump_next]; omega
  | both q r A B hq hr hrc hA hB =>
    by_cases h1 : q = 1
    · subst h1
      refine ⟨_, _, rs_pair_one z k h A B, ?_, ?_, ?_⟩
      · refine RepeatDesc.cast ?_ ?_ (RepeatDesc.lonely (cap pf k + r) _ (by omega) (by omega) ?_)
        · omega
        · omega
        · simp only [Tree.erase, hA, hB]
          exact canon_full_app pf hpf k x r
      · simp only [Heap.bump_next]; omega
      · simp only [Heap.bump_next]; omega
    · rcases Nat.mod_two_eq_zero_or_one q with h2 | h2
      · refine ⟨_, _, rs_pair_even z k h A B q h1 h2, ?_, ?_, ?_⟩
        · rw [h2]
          refine RepeatDesc.cast ?_ ?_ (RepeatDesc.both (q / 2) r _ _ (by omega) (by omega) (by omega) ?_ ?_)
          · rfl
          · omega
          · exact hAA A hA
          · simp only [Tree.erase, hB]
            exact canon_full_zero pf k x _ (by omega) (by omega)
        · simp only [Heap.bump_next]; omega
        · simp only [Heap.bump_next]; omega
      · refine ⟨_, _, rs_pair_odd z k h A B q h1 h2, ?_, ?_, ?_⟩
        · rw [h2]
          refine RepeatDesc.cast ?_ ?_ (RepeatDesc.both (q / 2) (cap pf k + r) _ _ (by omega) (by omega)
            (by omega) ?_ ?_)
          · rfl
          · omega
          · exact hAA A hA
          · simp only [Tree.erase, hA, hB]
            exact canon_full_app pf hpf k x r
        · simp only [Heap.bump_next]; omega
        · simp only [Heap.bump_next]; omega

/-! ## the loop -/

private theorem halves_sum (q c r : Nat) : q / 2 * (2 * c) + (q % 2 * c + r) = q * c + r := by
  have hq : q = 2 * (q / 2) + q % 2 := by omega
  generalize q / 2 = a at *
  generalize q % 2 = b at *
  subst hq
  rw [Nat.add_mul, Nat.mul_assoc, Nat.mul_comm a (2 * c), Nat.mul_assoc, Nat.mul_comm c a]
  omega

theorem repeatLoop_desc (pf : Option Nat) (hpf : PfOK pf) (z : H) (x : T) :
    ∀ (m k : Nat) (h : Heap H) (q r : Nat) (layer : List (Tree T × Nat)),
      RepeatDesc pf x k q r layer →
      ∃ layer' h' q' r', repeatLoop z m k h layer = .ok (layer', h') ∧
        RepeatDesc pf x (k + m) q' r' layer' ∧
        q' * cap pf (k + m) + r' = q * cap pf k + r ∧
        h.next ≤ h'.next ∧ h'.next ≤ h.next + 3 * m := by
  intro m
  induction m with
  | zero =>
    intro k h q r layer hd
    exact ⟨layer, h, q, r, rfl, hd, rfl, Nat.le_refl _, Nat.le_refl _⟩
  | succ m ih =>
    intro k h q r layer hd
    obtain ⟨l1, h1, hs, hd1, hn1, hn2⟩ := repeatStep_desc pf hpf z x k h q r layer hd
    obtain ⟨l2, h2, q', r', hl, hd2, hsum, hn3, hn4⟩ := ih (k+1) h1 _ _ l1 hd1
    refine ⟨l2, h2, q', r', ?_, ?_, ?_, by omega, by omega⟩
    · simp only [repeatLoop, hs, hl]
    · rw [show k + (m + 1) = k + 1 + m by omega]; exact hd2
    · rw [show k + (m + 1) = k + 1 + m by omega, hsum, cap_succ]
      exact halves_sum q (cap pf k) r

/-! ## the initial layer -/

/-- the `init` block of `repeatTree` (`repeat.rs:14-46`). -/
def repeatInit (pf : Option Nat) (z : H) (x : T) (n : Nat) (h : Heap H) :
    Except Err (List (Tree T × Nat) × Heap H) :=
  match pf with
  | some p =>
    if p = 0 then .error .panic
    else
      let repeatCount := n / p
      let lonelyCount := n % p
      let (rid, h) := h.alloc z
      let repeatLeaf : Tree T := .packed rid (List.replicate p x)
      let (lid, h) := h.alloc z
      let lonelyLeaf : Tree T := .packed lid (List.replicate lonelyCount x)
      if repeatCount = 0 && lonelyCount = 0 then .error .panic
      else if lonelyCount = 0 then .ok ([(repeatLeaf, repeatCount)], h)
      else if repeatCount = 0 then .ok ([(lonelyLeaf, 1)], h)
      else .ok ([(repeatLeaf, repeatCount), (lonelyLeaf, 1)], h)
  | none =>
    let (id, h) := h.alloc z
    .ok ([(.leaf id x, n)], h)

theorem repeatTree_eq (pf : Option Nat) (z : H) (N d : Nat) (x : T) (n : Nat) (h : Heap H) :
    repeatTree pf z N d x n h =
      if n > N then .error .builderFull
      else
        match repeatInit pf z x n h with
        | .error e => .error e
        | .ok (layer, h) =>
          match repeatLoop z d 0 h layer with
          | .error e => .error e
          | .ok (layer, h) =>
            match layer.reverse with
            | [] => .error .builderStackEmptyFinalize
            | (root, count) :: rest =>
              if !rest.isEmpty || count ≠ 1 then .error .builderStackLeftover
              else .ok (root, h) := rfl

private theorem canon_zero_packed (p : Nat) (m : Nat) (x : T) (hm : 0 < m) :
    canon (some p) 0 (List.replicate m x) = Shape.packed (List.replicate m x) := by
  cases m with
  | zero => omega
  | succ m => simp [List.replicate_succ, canon]

theorem repeatInit_desc (pf : Option Nat) (hpf : PfOK pf) (z : H) (x : T) (n : Nat) (h : Heap H)
    (hn : 1 ≤ n) :
    ∃ layer h' q r, repeatInit pf z x n h = .ok (layer, h') ∧ RepeatDesc pf x 0 q r layer ∧
      q * cap pf 0 + r = n ∧ h.next ≤ h'.next ∧ h'.next ≤ h.next + 2 := by
  cases pf with
  | none =>
    refine ⟨_, _, n, 0, rfl, RepeatDesc.full n _ hn ?_, ?_, ?_, ?_⟩
    · simp [Tree.erase, cap, lcap, canon]
    · simp [cap, lcap]
    · simp [Heap.next]
    · simp [Heap.next]
  | some p =>
    have hp : 0 < p := by simpa [lcap] using lcap_pos (some p) hpf
    have hcap : cap (some p) 0 = p := by simp [cap, lcap]
    have hdm := Nat.div_add_mod n p
    have hml := Nat.mod_lt n hp
    have hmul : n / p * p = p * (n / p) := Nat.mul_comm _ _
    by_cases hr : n % p = 0
    · have hq : n / p ≠ 0 := by
        intro h0; rw [h0] at hdm; omega
      refine ⟨_, (h.bump z).bump z, n / p, 0, ?_,
        RepeatDesc.full (n / p) (.packed h.next (List.replicate p x)) (Nat.pos_of_ne_zero hq) ?_, ?_, ?_, ?_⟩
      · simp only [repeatInit]
        simp [Nat.ne_of_gt hp, hr, hq, Heap.alloc, Heap.next, Heap.bump]
      · simp only [Tree.erase, hcap]; exact (canon_zero_packed p p x hp).symm
      · rw [hcap, hmul]; omega
      · simp only [Heap.bump_next]; omega
      · simp only [Heap.bump_next]; omega
    · by_cases hq : n / p = 0
      · refine ⟨_, (h.bump z).bump z, 0, n % p, ?_,
          RepeatDesc.lonely (n % p) (.packed (h.next + 1) (List.replicate (n % p) x))
          (by omega) (by omega) ?_, ?_, ?_, ?_⟩
        · simp only [repeatInit]
          simp [Nat.ne_of_gt hp, hr, hq, Heap.alloc, Heap.next, Heap.bump]
        · simp only [Tree.erase]; exact (canon_zero_packed p _ x (by omega)).symm
        · rw [hq] at hdm; omega
        · simp only [Heap.bump_next]; omega
        · simp only [Heap.bump_next]; omega
      · refine ⟨_, (h.bump z).bump z, n / p, n % p, ?_,
          RepeatDesc.both (n / p) (n % p) (.packed h.next (List.replicate p x))
          (.packed (h.next + 1) (List.replicate (n % p) x))
          (Nat.pos_of_ne_zero hq) (by omega) (by omega) ?_ ?_, ?_, ?_, ?_⟩
        · simp only [repeatInit]
          simp [Nat.ne_of_gt hp, hr, hq, Heap.alloc, Heap.next, Heap.bump]
        · simp only [Tree.erase, hcap]; exact (canon_zero_packed p p x hp).symm
        · simp only [Tree.erase]; exact (canon_zero_packed p _ x (by omega)).symm
        · rw [hcap, hmul]; omega
        · simp only [Heap.bump_next]; omega
        · simp only [Heap.bump_next]; omega

/-! ## Target 1: `repeat_list` builds the canonical tree -/

/-- strong form: canonical root, and between 0 and `3 * d + 2` allocations. -/
theorem repeatTree_canon_alloc (pf : Option Nat) (hpf : PfOK pf) (z : H) (N d : Nat) (x : T)
    (n : Nat) (h : Heap H) (hn : 1 ≤ n) (hnN : n ≤ N) (hN : N ≤ cap pf d) :
    ∃ root h', repeatTree pf z N d x n h = .ok (root, h') ∧
      root.erase = canon pf d (List.replicate n x) ∧ h.next ≤ h'.next ∧
      h'.next ≤ h.next + (3 * d + 2) := by
  obtain ⟨l0, h0, q0, r0, hinit, hd0, hsum0, ha0, hb0⟩ := repeatInit_desc pf hpf z x n h hn
  obtain ⟨l1, h1, q, r, hloop, hd1, hsum1, ha1, hb1⟩ :=
    repeatLoop_desc pf hpf z x d 0 h0 q0 r0 l0 hd0
  rw [Nat.zero_add] at hd1 hsum1
  have hc := cap_pos pf hpf d
  have hnot : ¬ n > N := by omega
  rw [repeatTree_eq]
  simp only [hnot, if_false, hinit, hloop]
  cases hd1 with
  | full q A hq hA =>
    have hq1 : q = 1 := by
      apply Nat.le_antisymm _ hq
      apply Nat.le_of_not_lt
      intro h2
      have : 2 * cap pf d ≤ q * cap pf d := Nat.mul_le_mul_right _ h2
      omega
    subst hq1
    refine ⟨A, h1, by simp, ?_, by omega, by omega⟩
    rw [hA]; congr 2; omega
  | lonely r B hr hrc hB =>
    refine ⟨B, h1, by simp, ?_, by omega, by omega⟩
    rw [hB]; congr 2; omega
  | both q r A B hq hr hrc hA hB =>
    exfalso
    have : 1 * cap pf d ≤ q * cap pf d := Nat.mul_le_mul_right _ hq
    omega

/-- **Target 1.** For every admissible length the model of `repeat_list` succeeds and returns
the canonical tree of `n` copies of `x`; the `unreachable!` / leftover outcomes do not occur. -/
theorem repeatTree_canon (pf : Option Nat) (hpf : PfOK pf) (z : H) (N d : Nat) (x : T)
    (n : Nat) (h : Heap H) (hn : 1 ≤ n) (hnN : n ≤ N) (hN : N ≤ cap pf d) :
    ∃ root h', repeatTree pf z N d x n h = .ok (root, h') ∧
      root.erase = canon pf d (List.replicate n x) ∧ h.next ≤ h'.next := by
  obtain ⟨root, h', h1, h2, h3, _⟩ := repeatTree_canon_alloc pf hpf z N d x n h hn hnN hN
  exact ⟨root, h', h1, h2, h3⟩

/-! ### non-vacuity of target 1 -/

private theorem pfOK_some4 : PfOK (some 4) := by
  intro p hp; cases hp; exact ⟨2, by decide, rfl⟩

private theorem pfOK_none : PfOK none := by
  intro p hp; cases hp

/-- the hypotheses of `repeatTree_canon` are satisfiable: 5 copies, packing factor 4, `N = 5`,
depth `listDepth (some 4) 5 = 1` (capacity 8). -/
example : ∃ root h', repeatTree (some 4) (0 : Nat) 5 1 (7 : Nat) 5 Heap.empty = .ok (root, h') ∧
    root.erase = canon (some 4) 1 (List.replicate 5 7) ∧ (Heap.empty : Heap Nat).next ≤ h'.next :=
  repeatTree_canon (some 4) pfOK_some4 0 5 1 7 5 Heap.empty (by decide) (by decide) (by decide)

/-- and the model really computes that tree (evaluation, independent of the theorem). -/
example : (match repeatTree (some 4) (0 : Nat) 5 1 (7 : Nat) 5 Heap.empty with
    | .ok (r, h) => some (r.erase, h.next)
    | .error _ => none) =
    some (Shape.node (.packed [7, 7, 7, 7]) (.packed [7]), 3) := by decide

/-- unpacked, 11 copies at depth 4, `N = 13`: both a repeated node and a lonely edge occur. -/
example : (match repeatTree none (0 : Nat) 13 4 (7 : Nat) 11 Heap.empty with
    | .ok (r, _) => some r.erase
    | .error _ => none) = some (canon none 4 (List.replicate 11 7)) := by decide

/-! ## Target 2: rejection above `N`, allocation bound -/

/-- **Target 2a.** the capacity check of the `fix:` commit. -/
theorem repeatTree_rejects (pf : Option Nat) (z : H) (N d : Nat) (x : T) (n : Nat) (h : Heap H)
    (hn : n > N) : repeatTree pf z N d x n h = .error .builderFull := by
  rw [repeatTree_eq]; simp [hn]

/-- **Target 2b.** Whenever `repeatTree` succeeds it has allocated at most `3 * d + 2` nodes,
whatever `n` and `N` are: the DAG has O(depth) nodes ("size follows length, not N"). -/
theorem repeatTree_alloc_bound (pf : Option Nat) (hpf : PfOK pf) (z : H) (N d : Nat) (x : T)
    (n : Nat) (h : Heap H) (hn : 1 ≤ n) (root : Tree T) (h' : Heap H)
    (hok : repeatTree pf z N d x n h = .ok (root, h')) :
    h.next ≤ h'.next ∧ h'.next - h.next ≤ 3 * d + 2 := by
  obtain ⟨l0, h0, q0, r0, hinit, hd0, hsum0, ha0, hb0⟩ := repeatInit_desc pf hpf z x n h hn
  obtain ⟨l1, h1, q, r, hloop, hd1, hsum1, ha1, hb1⟩ :=
    repeatLoop_desc pf hpf z x d 0 h0 q0 r0 l0 hd0
  rw [repeatTree_eq] at hok
  simp only [hinit, hloop] at hok
  split at hok
  · cases hok
  · split at hok
    · cases hok
    · split at hok
      · cases hok
      · injection hok with hok
        injection hok with _ hh
        subst hh; omega

/-! ### non-vacuity of target 2 -/

example : repeatTree (some 4) (0 : Nat) 5 1 (7 : Nat) 6 Heap.empty = .error .builderFull :=
  repeatTree_rejects (some 4) 0 5 1 7 6 Heap.empty (by decide)

/-- `2^40` copies in a depth-40 tree: at most 122 allocations. -/
example (root : Tree Nat) (h' : Heap Nat)
    (hok : repeatTree none (0 : Nat) (2 ^ 40) 40 (7 : Nat) (2 ^ 40) Heap.empty = .ok (root, h')) :
    h'.next - (Heap.empty : Heap Nat).next ≤ 122 :=
  (repeatTree_alloc_bound none pfOK_none 0 (2 ^ 40) 40 7 (2 ^ 40) Heap.empty
    (Nat.pow_pos (by decide)) root h' hok).2

/-! ## Target 3: the collection constructors `List::repeat` and `Vector::from_elem` -/

/-- `N` fits in the tree of depth `List::depth()`, also when `N` is smaller than the packing
factor (where the subtraction in `listDepth` saturates). -/
private theorem le_cap_listDepth (pf : Option Nat) (hpf : PfOK pf) (N : Nat) (hN : N ≤ 2 ^ 64) :
    N ≤ cap pf (listDepth pf N) := by
  have h1 := le_pow_intLog N hN
  cases pf with
  | none => simpa [cap, lcap, listDepth] using h1
  | some p =>
    obtain ⟨k, hk, rfl⟩ := hpf _ rfl
    simp only [cap, lcap, listDepth, Option.getD_some, intLog_pow k (by omega)]
    rw [← Nat.pow_add]
    exact Nat.le_trans h1 (Nat.pow_le_pow_right (by decide) (by omega))

private theorem UMap.maxIndex_empty (k : MapKind) : (UMap.empty k : UMap T).maxIndex = none := by
  cases k <;> rfl

private theorem UMap.isEmpty_empty (k : MapKind) : (UMap.empty k : UMap T).isEmpty = true := by
  cases k <;> rfl

private theorem UMap.entries_empty (k : MapKind) : (UMap.empty k : UMap T).entries = [] := by
  cases k <;> rfl

private theorem Coll.len_of_updates_empty (c : Coll T) (k : MapKind) (hu : c.updates = UMap.empty k) :
    c.len = c.length := by
  simp [Coll.len, hu, UMap.maxIndex_empty]

/-- **C05 / C06 for `List::repeat`.** Within the bound the result is a list of exactly `n`
elements, no pending writes, whose tree is the canonical tree of `n` copies (for `n = 0` the
single `zero` node of `List::empty`); above the bound the constructor fails with `BuilderFull`.
Holds for every `N ≤ 2^64`, including `N = 0` and `N` smaller than the packing factor. -/
theorem C05_repeat (pf : Option Nat) (hpf : PfOK pf) (z : H) (cfg : Cfg) (x : T) (n : Nat)
    (h : Heap H) (hN : cfg.N ≤ 2 ^ 64) :
    (n ≤ cfg.N → ∃ c h', Coll.repeat_ pf z cfg x n h = .ok (c, h') ∧
      c.kind = .list ∧ c.length = n ∧ c.len = n ∧ c.len ≤ cfg.N ∧
      c.depth = listDepth pf cfg.N ∧
      c.tree.erase = canon pf (listDepth pf cfg.N) (List.replicate n x) ∧
      c.tree.toList = List.replicate n x ∧
      c.updates = UMap.empty cfg.map ∧ h.next ≤ h'.next) ∧
    (n > cfg.N → Coll.repeat_ pf z cfg x n h = .error .builderFull) := by
  have hcap := le_cap_listDepth pf hpf cfg.N hN
  constructor
  · intro hn
    by_cases h0 : n = 0
    · subst h0
      refine ⟨_, _, by simp [Coll.repeat_]; rfl, rfl, rfl, ?_, ?_, rfl, ?_, ?_, rfl, ?_⟩
      · exact Coll.len_of_updates_empty _ cfg.map rfl
      · rw [Coll.len_of_updates_empty _ cfg.map rfl]; exact Nat.zero_le _
      · simp [Coll.fromParts, Tree.erase, canon_nil]
      · simp [Coll.fromParts, Tree.toList, Tree.erase, Shape.toList]
      · simp [Heap.next]
    · obtain ⟨root, h', hr, he, hh⟩ :=
        repeatTree_canon pf hpf z cfg.N (listDepth pf cfg.N) x n h (by omega) hn hcap
      refine ⟨Coll.fromParts cfg root (listDepth pf cfg.N) n, h', ?_, rfl, rfl, ?_, ?_, rfl, he,
        ?_, rfl, hh⟩
      · simp [Coll.repeat_, h0, hr]
      · exact Coll.len_of_updates_empty _ cfg.map rfl
      · rw [Coll.len_of_updates_empty _ cfg.map rfl]; exact hn
      · show root.toList = _
        rw [Tree.toList, he]
        exact toList_canon pf hpf _ _ (by simp; omega)
  · intro hn
    have h0 : n ≠ 0 := by omega
    simp [Coll.repeat_, h0, repeatTree_rejects pf z cfg.N _ x n h hn]

/-- **C05 / C06 for `Vector::from_elem`.** The result is a vector holding exactly `N` copies. -/
theorem C05_vector_from_elem (pf : Option Nat) (hpf : PfOK pf) (z : H) (cfg : Cfg) (x : T)
    (h : Heap H) (hN : cfg.N ≤ 2 ^ 64) :
    ∃ c h', Coll.vectorFromElem pf z cfg x h = .ok (c, h') ∧
      c.kind = .vector ∧ c.length = cfg.N ∧ c.len = cfg.N ∧
      c.depth = listDepth pf cfg.N ∧
      c.tree.erase = canon pf (listDepth pf cfg.N) (List.replicate cfg.N x) ∧
      c.tree.toList = List.replicate cfg.N x ∧
      c.updates = UMap.empty cfg.map ∧ h.next ≤ h'.next := by
  obtain ⟨c, h', hr, hk, hl, hlen, _, hd, he, htl, hu, hh⟩ :=
    (C05_repeat pf hpf z cfg x cfg.N h hN).1 (Nat.le_refl _)
  have hemp : c.updates.isEmpty = true := by rw [hu]; exact UMap.isEmpty_empty _
  refine ⟨{ c with kind := .vector, length := cfg.N }, h', ?_, rfl, rfl, ?_, hd, he, htl, hu, hh⟩
  · simp [Coll.vectorFromElem, hr, Coll.toVector, hlen, Coll.applyUpdates, hemp]
  · exact Coll.len_of_updates_empty _ cfg.map hu

/-! ### non-vacuity of target 3 -/

/-- `N = 5` smaller than the capacity 8 of the tree, packing factor 4. -/
example : ∃ c h', Coll.repeat_ (some 4) (0 : Nat) ⟨5, .maxvec⟩ (7 : Nat) 5 Heap.empty = .ok (c, h') ∧
    c.kind = .list ∧ c.length = 5 ∧ c.len = 5 := by
  obtain ⟨c, h', h1, h2, h3, h4, _⟩ :=
    (C05_repeat (some 4) pfOK_some4 (0 : Nat) ⟨5, .maxvec⟩ (7 : Nat) 5 Heap.empty (by decide)).1
      (by decide)
  exact ⟨c, h', h1, h2, h3, h4⟩

/-- `N = 3` smaller than the packing factor 4 (`listDepth` saturates to 0). -/
example : (match Coll.repeat_ (some 4) (0 : Nat) ⟨3, .btree⟩ (7 : Nat) 3 Heap.empty with
    | .ok (c, _) => some (c.tree.erase, c.length, c.depth)
    | .error _ => none) = some (Shape.packed [7, 7, 7], 3, 0) := by decide

example : Coll.repeat_ (some 4) (0 : Nat) ⟨3, .btree⟩ (7 : Nat) 4 Heap.empty
    = .error .builderFull :=
  (C05_repeat (some 4) pfOK_some4 (0 : Nat) ⟨3, .btree⟩ (7 : Nat) 4 Heap.empty (by decide)).2
    (by decide)

example : (match Coll.vectorFromElem (some 4) (0 : Nat) ⟨5, .vec⟩ (7 : Nat) Heap.empty with
    | .ok (c, _) => some (c.tree.erase, c.length, c.depth, decide (c.kind = .vector))
    | .error _ => none) =
    some (Shape.node (.packed [7, 7, 7, 7]) (.packed [7]), 5, 1, true) := by decide

/-! ## Target 4: `push` -/

private theorem vecEntriesFrom_append (l1 l2 : List (Option T)) : ∀ b,
    vecEntriesFrom b (l1 ++ l2) = vecEntriesFrom b l1 ++ vecEntriesFrom (b + l1.length) l2 := by
  induction l1 with
  | nil => intro b; simp [vecEntriesFrom]
  | cons a l1 ih =>
    intro b
    cases a with
    | none =>
      simp only [List.cons_append, vecEntriesFrom, ih, List.length_cons]
      rw [show b + 1 + l1.length = b + (l1.length + 1) by omega]
    | some y =>
      simp only [List.cons_append, vecEntriesFrom, ih, List.length_cons]
      rw [show b + 1 + l1.length = b + (l1.length + 1) by omega]

private theorem vecEntriesFrom_replicate_none (m : Nat) : ∀ b,
    vecEntriesFrom b (List.replicate m (none : Option T)) = [] := by
  induction m with
  | zero => intro b; rfl
  | succ m ih => intro b; simp [List.replicate_succ, vecEntriesFrom, ih]

private theorem vecEntriesFrom_ge (l : List (Option T)) : ∀ b, ∀ p ∈ vecEntriesFrom b l, b ≤ p.1 := by
  induction l with
  | nil => intro b p hp; simp [vecEntriesFrom] at hp
  | cons a l ih =>
    intro b p hp
    cases a with
    | none =>
      simp only [vecEntriesFrom] at hp
      have := ih (b+1) p hp; omega
    | some y =>
      simp only [vecEntriesFrom, List.mem_cons] at hp
      rcases hp with rfl | hp
      · exact Nat.le_refl _
      · have := ih (b+1) p hp; omega

/-- entries after `VecMap::insert` beyond the end: appended. -/
private theorem vecEntries_vecSet_ge (v : List (Option T)) (k : Nat) (x : T) (hk : v.length ≤ k) :
    vecEntriesFrom 0 (vecSet v k x) = vecEntriesFrom 0 v ++ [(k, x)] := by
  have hset : vecSet v k x = v ++ (List.replicate (k - v.length) none ++ [some x]) := by
    simp only [vecSet, hk, if_true]
    rw [List.set_eq_take_append_cons_drop]
    have hlt : k < (v ++ List.replicate (k - v.length + 1) none).length := by simp; omega
    rw [if_pos hlt, List.drop_of_length_le (by simp; omega)]
    rw [List.take_append, List.take_of_length_le hk, List.take_replicate]
    rw [show min (k - v.length) (k - v.length + 1) = k - v.length by omega]
    simp
  rw [hset, vecEntriesFrom_append, vecEntriesFrom_append, vecEntriesFrom_replicate_none]
  simp only [vecEntriesFrom, List.length_replicate, Nat.zero_add, List.nil_append]
  rw [show v.length + (k - v.length) = k by omega]

private theorem vecEntries_split (v : List (Option T)) (k : Nat) :
    vecEntriesFrom 0 v = vecEntriesFrom 0 (v.take k) ++
      (vecEntriesFrom k ((v.drop k).take 1) ++ vecEntriesFrom (k+1) (v.drop (k+1))) := by
  by_cases hk : k < v.length
  · have h1 : v = v.take k ++ ((v.drop k).take 1 ++ v.drop (k+1)) := by
      rw [← List.drop_drop, List.take_append_drop, List.take_append_drop]
    conv => lhs; rw [h1]
    rw [vecEntriesFrom_append, vecEntriesFrom_append]
    simp only [List.length_take, List.length_drop, Nat.zero_add]
    rw [show min k v.length = k by omega, show min 1 (v.length - k) = 1 by omega]
  · rw [List.take_of_length_le (by omega), List.drop_of_length_le (by omega),
      List.drop_of_length_le (by omega)]
    simp [vecEntriesFrom]

private theorem vecEntries_vecSet_lt (v : List (Option T)) (k : Nat) (x : T) (hk : k < v.length) :
    vecEntriesFrom 0 (vecSet v k x) =
      vecEntriesFrom 0 (v.take k) ++ (k, x) :: vecEntriesFrom (k+1) (v.drop (k+1)) := by
  have hnk : ¬ v.length ≤ k := by omega
  simp only [vecSet, hnk, if_false]
  rw [List.set_eq_take_append_cons_drop, if_pos hk, vecEntriesFrom_append]
  simp only [vecEntriesFrom, List.length_take, Nat.zero_add]
  rw [show min k v.length = k by omega]

private theorem vecEntries_vecSet_ne_nil (v : List (Option T)) (k : Nat) (x : T) :
    vecEntriesFrom 0 (vecSet v k x) ≠ [] := by
  by_cases hk : k < v.length
  · rw [vecEntries_vecSet_lt v k x hk]; simp
  · rw [vecEntries_vecSet_ge v k x (by omega)]; simp

/-- inserting at a key above every present key makes it the last entry. -/
private theorem vecEntries_vecSet_last (v : List (Option T)) (k : Nat) (x : T)
    (hmax : ∀ p, (vecEntriesFrom 0 v).getLast? = some p → p.1 < k) :
    (vecEntriesFrom 0 (vecSet v k x)).getLast? = some (k, x) := by
  by_cases hk : k < v.length
  · rw [vecEntries_vecSet_lt v k x hk]
    have htail : vecEntriesFrom (k+1) (v.drop (k+1)) = [] := by
      cases hE : (vecEntriesFrom (k+1) (v.drop (k+1))).getLast? with
      | none => simpa using hE
      | some p =>
        exfalso
        have hge := vecEntriesFrom_ge _ _ p (List.mem_of_getLast? hE)
        have := hmax p (by
          rw [vecEntries_split v k, List.getLast?_append, List.getLast?_append, hE]; rfl)
        omega
    rw [htail]; simp
  · rw [vecEntries_vecSet_ge v k x (by omega)]; simp

private theorem assocInsert_last (k : Nat) (x : T) (l : List (Nat × T)) (h : ∀ p ∈ l, p.1 < k) :
    assocInsert k x l = l ++ [(k, x)] := by
  induction l with
  | nil => rfl
  | cons a l ih =>
    obtain ⟨k', v'⟩ := a
    have h1 : k' < k := h (k', v') (by simp)
    have h2 : ¬ k < k' := by omega
    have h3 : ¬ k = k' := by omega
    simp only [assocInsert, h2, h3, if_false, List.cons_append]
    rw [ih (fun p hp => h p (by simp [hp]))]

/-- The side condition under which `push` extends the length by exactly one.
* `BTreeMap`: every pending key is below `len` (true for any key-sorted map, see
  `Coll.PushOK_btree_of_sorted`; an association list that is not sorted does not model a
  `BTreeMap`).
* `VecMap`: nothing (keys are positions, so the last entry is the largest key).
* `MaxMap<VecMap>`: a map without entries has `max_key ≤ length` (it is `0` for
  `MaxMap::default()`); with entries nothing is needed because `len ≥ max_key + 1`. -/
def Coll.PushOK (c : Coll T) : Prop :=
  match c.updates with
  | .btree l => ∀ p ∈ l, p.1 < c.len
  | .vec _ => True
  | .maxvec v mkey => vecEntriesFrom 0 v = [] → mkey ≤ c.length

theorem Coll.PushOK_of_updates_empty (c : Coll T) (k : MapKind) (hu : c.updates = UMap.empty k) :
    c.PushOK := by
  unfold Coll.PushOK
  cases k <;> simp [hu, UMap.empty]

/-- a key-sorted `BTreeMap` satisfies the side condition. -/
theorem Coll.PushOK_btree_of_sorted (c : Coll T) (l : List (Nat × T)) (hu : c.updates = .btree l)
    (hs : l.Pairwise (fun a b => a.1 < b.1)) : c.PushOK := by
  unfold Coll.PushOK
  simp only [hu]
  intro p hp
  have hlen : ∀ q, l.getLast? = some q → q.1 < c.len := by
    intro q hq
    simp only [Coll.len, hu, UMap.maxIndex, hq, Option.map_some]
    omega
  have hle : ∀ (l : List (Nat × T)), l.Pairwise (fun a b => a.1 < b.1) → ∀ p ∈ l,
      ∃ q, l.getLast? = some q ∧ p.1 ≤ q.1 := by
    intro l
    induction l with
    | nil => intro _ p hp; simp at hp
    | cons a l ih =>
      intro hs p hp
      cases l with
      | nil =>
        simp only [List.mem_singleton] at hp
        subst hp; exact ⟨p, rfl, Nat.le_refl _⟩
      | cons b l =>
        rw [List.pairwise_cons] at hs
        obtain ⟨q, hq, hbq⟩ := ih hs.2 b (by simp)
        rw [List.getLast?_cons_cons]
        rcases List.mem_cons.1 hp with rfl | hp
        · exact ⟨q, hq, by have := hs.1 b (by simp); omega⟩
        · exact ih hs.2 p hp
  obtain ⟨q, hq, hpq⟩ := hle l hs p hp
  have := hlen q hq
  omega

/-- **C05, `push` on a vector.** -/
theorem C05_push_vector (cfg : Cfg) (c : Coll T) (x : T) (hk : c.kind = .vector) :
    c.push cfg x = .error .pushNotSupported := by
  simp [Coll.push, hk]

/-- **C05, `push` on a full list.** -/
theorem C05_push_full (cfg : Cfg) (c : Coll T) (x : T) (hk : c.kind = .list)
    (hfull : c.len = cfg.N) : c.push cfg x = .error (.listFull cfg.N) := by
  simp [Coll.push, hk, hfull]

private theorem Coll.len_of_maxIndex (c : Coll T) (mx : Nat) (h : c.updates.maxIndex = some mx) :
    c.len = max (mx + 1) c.length := by
  simp [Coll.len, h]

/-- the largest pending key after `insert` at `len` is `len`. -/
theorem Coll.maxIndex_insert_len (c : Coll T) (x : T) (hp : c.PushOK) :
    (c.updates.insert c.len x).maxIndex = some c.len := by
  unfold Coll.PushOK at hp
  cases hu : c.updates with
  | btree l =>
    rw [hu] at hp
    simp only [UMap.insert, UMap.maxIndex]
    rw [assocInsert_last _ _ _ hp]; simp
  | vec v =>
    simp only [UMap.insert, UMap.maxIndex]
    rw [vecEntries_vecSet_last]
    · rfl
    · intro p hpl
      simp only [Coll.len, hu, UMap.maxIndex, hpl, Option.map_some]
      omega
  | maxvec v mk =>
    rw [hu] at hp
    simp only at hp
    simp only [UMap.insert, UMap.maxIndex]
    have hne := vecEntries_vecSet_ne_nil v c.len x
    have hne' : (vecEntriesFrom 0 (vecSet v c.len x)).isEmpty = false := by
      simpa using hne
    rw [hne']
    simp only [Bool.false_eq_true, if_false, Option.some.injEq]
    by_cases hE : vecEntriesFrom 0 v = []
    · have h1 := hp hE
      have h2 : c.len = c.length := by simp [Coll.len, hu, UMap.maxIndex, hE]
      split <;> omega
    · have h2 : c.len = max (mk + 1) c.length := by
        simp [Coll.len, hu, UMap.maxIndex, hE]
      split <;> omega

/-- **C05, `push` on a list with room.** The push succeeds, the reported length grows by exactly
one (so it stays `≤ N`), the backing is untouched and the side condition is preserved. -/
theorem C05_push_ok (cfg : Cfg) (c : Coll T) (x : T) (hk : c.kind = .list)
    (hroom : c.len ≠ cfg.N) (hp : c.PushOK) :
    ∃ c', c.push cfg x = .ok c' ∧ c'.len = c.len + 1 ∧ c'.kind = .list ∧
      c'.length = c.length ∧ c'.tree = c.tree ∧ c'.depth = c.depth ∧
      c'.updates = c.updates.insert c.len x ∧ c'.PushOK := by
  have hmi := Coll.maxIndex_insert_len c x hp
  have hlen : c.length ≤ c.len := by
    unfold Coll.len; split <;> omega
  have hlen' : ({ c with updates := c.updates.insert c.len x } : Coll T).len = c.len + 1 := by
    rw [Coll.len_of_maxIndex _ _ hmi]; show max (c.len + 1) c.length = _; omega
  refine ⟨{ c with updates := c.updates.insert c.len x }, by simp [Coll.push, hk, hroom],
    hlen', hk, rfl, rfl, rfl, rfl, ?_⟩
  unfold Coll.PushOK
  rw [hlen']
  unfold Coll.PushOK at hp
  cases hu : c.updates with
  | btree l =>
    rw [hu] at hp
    simp only [UMap.insert]
    rw [assocInsert_last _ _ _ hp]
    intro p hpm
    rcases List.mem_append.1 hpm with h1 | h1
    · have := hp p h1; omega
    · simp only [List.mem_singleton] at h1; subst h1; simp
  | vec v => simp [UMap.insert]
  | maxvec v mk =>
    simp only [UMap.insert]
    intro hE
    exact absurd hE (vecEntries_vecSet_ne_nil v c.len x)

/-- **C05, `push` never exceeds the bound.** If the reported length is within `N` and `push`
succeeds, there was room, the length grew by exactly one, and it is still within `N`. -/
theorem C05_push_bound (cfg : Cfg) (c c' : Coll T) (x : T) (hp : c.PushOK) (hle : c.len ≤ cfg.N)
    (hok : c.push cfg x = .ok c') :
    c.kind = .list ∧ c.len < cfg.N ∧ c'.len = c.len + 1 ∧ c'.len ≤ cfg.N ∧ c'.PushOK := by
  cases hk : c.kind with
  | vector => rw [C05_push_vector cfg c x hk] at hok; cases hok
  | list =>
    by_cases hfull : c.len = cfg.N
    · rw [C05_push_full cfg c x hk hfull] at hok; cases hok
    · obtain ⟨c'', h1, h2, _, _, _, _, _, h3⟩ := C05_push_ok cfg c x hk hfull hp
      rw [h1] at hok
      injection hok with hok
      subst hok
      exact ⟨rfl, by omega, h2, by omega, h3⟩

/-! ### non-vacuity of target 4 -/

/-- `push` on the result of `repeat` (side condition from `PushOK_of_updates_empty`). -/
example : ∃ c', (Coll.fromParts ⟨5, .maxvec⟩ (Tree.zero 0 1) 1 0 : Coll Nat).push ⟨5, .maxvec⟩ 7
    = .ok c' ∧ c'.len = 1 := by
  obtain ⟨c', h1, h2, _⟩ := C05_push_ok ⟨5, .maxvec⟩
    (Coll.fromParts ⟨5, .maxvec⟩ (Tree.zero 0 1) 1 0 : Coll Nat) 7 rfl (by decide)
    (Coll.PushOK_of_updates_empty _ .maxvec rfl)
  exact ⟨c', h1, h2⟩

/-- the side condition is needed: a `MaxMap` without entries but with a stale `max_key = 7`
reports length 8 after one push onto an empty list. -/
example : (match (⟨.list, Tree.zero 0 1, 0, 1, .maxvec [] 7⟩ : Coll Nat).push ⟨5, .maxvec⟩ 7 with
    | .ok c' => some c'.len
    | .error _ => none) = some 8 := by decide

end Milhouse
