import Milhouse.Proofs.CollOps
import Milhouse.Proofs.UMap
/-!
# C15: `List::bulk_update` with *any* update map constructible through the public API

`C15_bulkUpdate_total` (`Proofs/CollOps.lean`) covers update maps satisfying `UMap.MaxExact`
(`MaxMap`s filled with `insert` only). The `UpdateMap` trait is public, and a `MaxMap` can also be
filled through `get_mut_with` / `get_cow_with` (model: `UMap.insertEntry`), which do **not** raise
`MaxMap::max_key`; such a map under-reports its largest key. The repaired `List::bulk_update`
therefore walks *every* key at or beyond the current length (`for_each_range(len, usize::MAX)`) and
rejects a key that is not the next index or that exceeds `max_index()` (`Coll.gapCheckMax`).

This file proves, for **every** map `u` built by an arbitrary sequence of `insert` / `insertEntry`
calls (`UMap.build kind ops`), and more generally for every well-formed `u` satisfying the invariant
`UMap.Reach` of all such maps:

* `C15_bulkUpdate_any`      – the call ends in exactly one of four ways (never `.panic`):
  `BulkUpdateUnclean`, `InvalidListUpdate`, `OutOfBoundsUpdate k next`, or it is accepted, and then
  the collection invariant holds for the result (*acceptance implies admissibility*) and the result
  shows the entries of `u` folded over the previous contents; an error leaves the state untouched
  (the function returns only the error);
* `C15_bulkUpdate_stale_rejected` – a key `≥ len` above `max_index()` (stale `max_key`) is rejected;
* `C15_bulkUpdate_ok_iff`   – the exact characterisation of acceptance (`UMap.Admissible`);
* `C15_bulk_then_wellformed` – after an accepted bulk update: `len` = number of elements iteration
  yields, `toVec` = the view, indexed reads succeed exactly below `len`.

## The key `usize::MAX` (F9)

The walk `for_each_range(len, usize::MAX)` has an *exclusive* end, so the key `usize::MAX = 2^64 - 1`
itself is never visited. A first version of this file showed that a `MaxMap` holding that key
(inserted through `get_mut_with`, `max_key = 0`) was therefore *accepted*. The `fix:` for F9 checks
`updates.get(usize::MAX)` separately (model: the branch `(u.get (2^64-1)).isSome ⇒ invalidListUpdate`
of `Coll.bulkUpdate`). With it the natural bound suffices: `UMap.Reach` asks of a `maxvec` only that
all keys are `usize` values (`< 2^64`); nothing is asked of the other two kinds.
`C15_bulkUpdate_usizeMax_rejected`: a map with an entry at `2^64 - 1` is always rejected.
-/
namespace Milhouse
variable {T H : Type}

open Coll (gapCheck gapCheckMax)

/-! ## the invariant of every reachable update map -/

/-- What holds of every map built through the public `UpdateMap` API (`insert`, `get_mut_with`,
`get_cow_with`): for a `MaxMap<VecMap>` the cached `max_key` is either its initial value `0` or a
key of the map (but **not** necessarily an upper bound of the keys), and every key is a `usize`
value (`< 2^64`). Nothing is required of the other two kinds. -/
def UMap.Reach (m : UMap T) : Prop :=
  match m with
  | .maxvec v mk => (mk = 0 ∨ ((UMap.maxvec v mk).get mk).isSome) ∧
      ∀ k, ((UMap.maxvec v mk).get k).isSome → k < 2 ^ 64
  | _ => True

theorem UMap.Reach_of_kind_ne (m : UMap T) (h : m.kind ≠ .maxvec) : m.Reach := by
  cases m with
  | btree l => trivial
  | vec v => trivial
  | maxvec v mk => exact absurd rfl h

theorem UMap.Reach_empty (k : MapKind) : (UMap.empty k : UMap T).Reach := by
  cases k
  · trivial
  · trivial
  · refine ⟨Or.inl rfl, ?_⟩
    intro j hj
    have := UMap.get_empty (T := T) .maxvec j
    simp only [UMap.empty] at this
    rw [this] at hj; cases hj

/-- `MaxExact` (maps filled with `insert` only) plus the key bound is a special case. -/
theorem UMap.MaxExact.reach {m : UMap T} (h : m.MaxExact)
    (hk : ∀ k, (m.get k).isSome → k < 2 ^ 64) : m.Reach := by
  cases m with
  | btree l => trivial
  | vec v => trivial
  | maxvec v mk => exact ⟨h.2, hk⟩

theorem UMap.Reach_insert (m : UMap T) (h : m.Reach) (k : Nat) (x : T)
    (hk : m.kind = .maxvec → k < 2 ^ 64) : (m.insert k x).Reach := by
  cases m with
  | btree l => trivial
  | vec v => trivial
  | maxvec v mk =>
    have hk' := hk rfl
    have e := fun j => UMap.get_insert (UMap.maxvec v mk) k j x
    simp only [UMap.insert] at e ⊢
    refine ⟨?_, ?_⟩
    · rw [e]
      by_cases hgt : k > mk
      · right; simp [hgt]
      · rw [if_neg hgt]
        by_cases hkk : mk = k
        · right; simp [hkk]
        · rw [if_neg hkk]; exact h.1
    · intro j hj
      rw [e] at hj
      by_cases hjk : j = k
      · rw [hjk]; exact hk'
      · rw [if_neg hjk] at hj; exact h.2 j hj

/-- unlike `MaxExact`, `Reach` is preserved by `insertEntry` at *any* key (`max_key` stays). -/
theorem UMap.Reach_insertEntry (m : UMap T) (h : m.Reach) (k : Nat) (x : T)
    (hk : m.kind = .maxvec → k < 2 ^ 64) : (m.insertEntry k x).Reach := by
  cases m with
  | btree l => trivial
  | vec v => trivial
  | maxvec v mk =>
    have hk' := hk rfl
    have e := fun j => UMap.get_insertEntry (UMap.maxvec v mk) k j x
    simp only [UMap.insertEntry] at e ⊢
    refine ⟨?_, ?_⟩
    · rw [e]
      by_cases hkk : mk = k
      · right; simp [hkk]
      · rw [if_neg hkk]; exact h.1
    · intro j hj
      rw [e] at hj
      by_cases hjk : j = k
      · rw [hjk]; exact hk'
      · rw [if_neg hjk] at hj; exact h.2 j hj

theorem UMap.Reach_applyOp (m : UMap T) (h : m.Reach) (op : Bool × Nat × T)
    (hk : m.kind = .maxvec → op.2.1 < 2 ^ 64) : (UMap.applyOp m op).Reach := by
  unfold UMap.applyOp; split
  · exact UMap.Reach_insert m h _ _ hk
  · exact UMap.Reach_insertEntry m h _ _ hk

theorem UMap.Reach_foldl (ops : List (Bool × Nat × T)) (m : UMap T) (h : m.Reach)
    (hk : m.kind = .maxvec → ∀ op ∈ ops, op.2.1 < 2 ^ 64) :
    (ops.foldl UMap.applyOp m).Reach := by
  induction ops generalizing m with
  | nil => exact h
  | cons op rest ih =>
    rw [List.foldl_cons]
    apply ih _ (UMap.Reach_applyOp m h op (fun e => hk e op (List.mem_cons_self ..)))
    intro e q hq
    rw [UMap.kind_applyOp] at e
    exact hk e q (List.mem_cons_of_mem _ hq)

/-- **the invariant is established by every sequence of public map operations** (`usize` keys for
a `MaxMap<VecMap>`; any keys for the other kinds). -/
theorem UMap.Reach_build (kind : MapKind) (ops : List (Bool × Nat × T))
    (hk : kind = .maxvec → ∀ op ∈ ops, op.2.1 < 2 ^ 64) : (UMap.build kind ops).Reach :=
  UMap.Reach_foldl ops _ (UMap.Reach_empty kind) (fun e => hk (by rw [UMap.kind_empty] at e; exact e))

/-- what `max_index()` means for a reachable map: it is a key unless it is `0`, and every key above
it is a `MaxMap` key (hence a `usize`: visited by the walk, or `usize::MAX` itself). -/
theorem UMap.Reach.maxIndex_spec {u : UMap T} (hr : u.Reach) (hwf : u.WF) {mx : Nat}
    (h : u.maxIndex = some mx) :
    (∀ k, (u.get k).isSome → k ≤ mx ∨ k < 2 ^ 64) ∧ (mx = 0 ∨ (u.get mx).isSome) := by
  cases u with
  | btree l =>
    obtain ⟨h1, h2⟩ := (UMap.maxIndex_eq_some_iff _ hwf trivial mx).1 h
    exact ⟨fun k hk => Or.inl (h2 k hk), Or.inr h1⟩
  | vec v =>
    obtain ⟨h1, h2⟩ := (UMap.maxIndex_eq_some_iff _ hwf trivial mx).1 h
    exact ⟨fun k hk => Or.inl (h2 k hk), Or.inr h1⟩
  | maxvec v mk =>
    rw [UMap.maxIndex_maxvec] at h
    split at h
    · cases h
    · cases h
      exact ⟨fun k hk => Or.inr (hr.2 k hk), hr.1⟩

/-- `MaxRel` from `Reach`, given that `max_index()` bounds the keys outside the backing contents. -/
theorem UMap.Reach.maxRel {u : UMap T} (hr : u.Reach) (n : Nat)
    (h : ∀ mx, u.maxIndex = some mx → ∀ k, (u.get k).isSome → k ≤ mx ∨ k < n) : u.MaxRel n := by
  cases u with
  | btree l => trivial
  | vec v => trivial
  | maxvec v mk =>
    refine ⟨?_, hr.1⟩
    intro k hk
    have hne : (UMap.maxvec v mk).isEmpty = false :=
      (UMap.isEmpty_eq_false_iff _).2 ⟨k, hk⟩
    have hmi : (UMap.maxvec v mk).maxIndex = some mk := by
      rw [UMap.maxIndex_maxvec, hne]; rfl
    exact h mk hmi k hk

/-! ## the bounded contiguity walk, semantically -/

/-- the walk of the `fix:` for F8 succeeds iff no visited key exceeds `mx` and the plain contiguity
check succeeds. -/
theorem bk_gapCheckMax_none_iff (mx : Nat) : ∀ (l : List (Nat × T)) (n : Nat),
    gapCheckMax mx n l = none ↔ (∀ q ∈ l, q.1 ≤ mx) ∧ gapCheck n l = none := by
  intro l
  induction l with
  | nil => intro n; simp [gapCheckMax, gapCheck]
  | cons p rest ih =>
    intro n
    obtain ⟨k, v⟩ := p
    simp only [gapCheckMax, gapCheck, List.mem_cons, forall_eq_or_imp]
    by_cases hkn : k = n
    · by_cases hmx : k ≤ mx
      · rw [if_pos ⟨hkn, hmx⟩, if_pos hkn, ih]
        constructor
        · rintro ⟨a, b⟩; exact ⟨⟨hmx, a⟩, b⟩
        · rintro ⟨⟨_, a⟩, b⟩; exact ⟨a, b⟩
      · rw [if_neg (fun h => hmx h.2)]
        constructor
        · intro h; cases h
        · rintro ⟨⟨a, _⟩, _⟩; exact absurd a hmx
    · rw [if_neg (fun h => hkn h.1), if_neg hkn]
      constructor
      · intro h; cases h
      · rintro ⟨_, h⟩; cases h

/-- a list that passes the contiguity check from `n` has exactly the keys `n, …, n + length - 1`. -/
theorem bk_gapCheck_none_keys : ∀ (l : List (Nat × T)) (n : Nat), gapCheck n l = none →
    ∀ k, (∃ w, (k, w) ∈ l) ↔ (n ≤ k ∧ k < n + l.length) := by
  intro l
  induction l with
  | nil =>
    intro n _ k
    constructor
    · rintro ⟨w, hw⟩; cases hw
    · rintro ⟨h1, h2⟩; simp at h2; omega
  | cons p rest ih =>
    intro n h k
    obtain ⟨k0, v0⟩ := p
    simp only [gapCheck] at h
    by_cases hk : k0 = n
    · rw [if_pos hk] at h
      have key := ih (n+1) h k
      subst hk
      simp only [List.mem_cons, Prod.mk.injEq, List.length_cons]
      constructor
      · rintro ⟨w, hw | hw⟩
        · omega
        · have := key.1 ⟨w, hw⟩; omega
      · rintro ⟨h1, h2⟩
        by_cases hkk : k = k0
        · exact ⟨v0, Or.inl ⟨hkk, rfl⟩⟩
        · obtain ⟨w, hw⟩ := key.2 ⟨by omega, by omega⟩
          exact ⟨w, Or.inr hw⟩
    · rw [if_neg hk] at h; cases h

/-- what the bounded walk reports when it fails: `next` is the first index at or after `n` that is
not a key `≤ mx`; `k` is the key found in its place: either a larger key (a gap at `next`), or `next`
itself, which then exceeds `mx` (the stale-`max_key` case). -/
theorem bk_gapCheckMax_some_spec (mx : Nat) (es : List (Nat × T)) (hs : KeysAsc es) :
    ∀ (n k nx : Nat), (∀ q ∈ es, n ≤ q.1) → gapCheckMax mx n es = some (k, nx) →
      n ≤ nx ∧ nx ≤ k ∧ (∃ w, (k, w) ∈ es) ∧
      (∀ j, n ≤ j → j < nx → j ≤ mx ∧ ∃ w, (j, w) ∈ es) ∧
      ((nx < k ∧ ¬ ∃ w, (nx, w) ∈ es) ∨ (k = nx ∧ mx < k)) := by
  induction es with
  | nil => intro n k nx _ h; simp [gapCheckMax] at h
  | cons p rest ih =>
    intro n k nx hge h
    obtain ⟨k0, v0⟩ := p
    have hs' := List.pairwise_cons.1 hs
    have hk0 : n ≤ k0 := hge (k0, v0) (by simp)
    simp only [gapCheckMax] at h
    by_cases hc : k0 = n ∧ k0 ≤ mx
    · rw [if_pos hc] at h
      obtain ⟨hkn, hkm⟩ := hc
      subst hkn
      obtain ⟨h1, h2, ⟨w, hw⟩, h4, h5⟩ := ih hs'.2 (k0+1) k nx
        (fun q hq => by have := hs'.1 q hq; simp at this; omega) h
      refine ⟨by omega, h2, ⟨w, by simp [hw]⟩, ?_, ?_⟩
      · intro j hj1 hj2
        by_cases hj : j = k0
        · subst hj; exact ⟨hkm, v0, by simp⟩
        · obtain ⟨hjm, w', hw'⟩ := h4 j (by omega) hj2
          exact ⟨hjm, w', by simp [hw']⟩
      · rcases h5 with ⟨h5a, h5b⟩ | h5
        · left
          refine ⟨h5a, ?_⟩
          rintro ⟨w', hw'⟩
          simp only [List.mem_cons, Prod.mk.injEq] at hw'
          rcases hw' with hw' | hw'
          · omega
          · exact h5b ⟨w', hw'⟩
        · right; exact h5
    · rw [if_neg hc] at h
      simp only [Option.some.injEq, Prod.mk.injEq] at h
      obtain ⟨rfl, rfl⟩ := h
      refine ⟨Nat.le_refl _, hk0, ⟨v0, by simp⟩, ?_, ?_⟩
      · intro j h1 h2; omega
      · by_cases hkn : k0 = n
        · right; exact ⟨hkn, by omega⟩
        · left
          refine ⟨by omega, ?_⟩
          rintro ⟨w', hw'⟩
          simp only [List.mem_cons, Prod.mk.injEq] at hw'
          rcases hw' with hw' | hw'
          · omega
          · have := hs'.1 _ hw'; simp at this; omega

/-- the contiguity check on `range n e`, in terms of lookups: the keys in `[n, e)` are closed
downwards to `n` (no gaps). -/
theorem UMap.bk_contig_iff (u : UMap T) (hwf : u.WF) (n e : Nat) :
    gapCheck n (u.range n e) = none ↔
      ∀ k, (u.get k).isSome → n ≤ k → k < e → ∀ j, n ≤ j → j < k → (u.get j).isSome := by
  constructor
  · intro h k hk h1 h2 j hj1 hj2
    have key := bk_gapCheck_none_keys _ n h
    obtain ⟨w, hw⟩ := Option.isSome_iff_exists.1 hk
    have hin := (key k).1 ⟨w, (UMap.mem_range_iff u hwf n e k w).2 ⟨hw, h1, h2⟩⟩
    obtain ⟨w', hw'⟩ := (key j).2 ⟨hj1, by omega⟩
    rw [((UMap.mem_range_iff u hwf n e j w').1 hw').1]; rfl
  · intro h
    cases hg : gapCheck n (u.range n e) with
    | none => rfl
    | some p =>
      obtain ⟨k, nx⟩ := p
      obtain ⟨h1, h2, h3, h4, _, h6, _⟩ := C15_bulkUpdate_gap_spec u hwf n e k nx hg
      have := h k h4 (by omega) h3 nx h1 h2
      rw [h6] at this; cases this

/-- map-level reading of a failed walk (`OutOfBoundsUpdate k next`). -/
theorem C15_bulkUpdate_any_gap_spec (u : UMap T) (hwf : u.WF) (mx n e k next : Nat)
    (hgap : gapCheckMax mx n (u.range n e) = some (k, next)) :
    n ≤ next ∧ next ≤ k ∧ k < e ∧ (u.get k).isSome ∧
      (∀ j, n ≤ j → j < next → j ≤ mx ∧ (u.get j).isSome) ∧
      ((next < k ∧ u.get next = none) ∨ (k = next ∧ mx < k)) := by
  obtain ⟨h1, h2, ⟨w, hw⟩, h4, h5⟩ := bk_gapCheckMax_some_spec mx _ (UMap.range_keysAsc u hwf n e)
    n k next (fun q hq => (UMap.mem_range_bounds u n e q hq).1) hgap
  have hk := (UMap.mem_range_iff u hwf n e k w).1 hw
  refine ⟨h1, h2, hk.2.2, by rw [hk.1]; rfl, ?_, ?_⟩
  · intro j hj1 hj2
    obtain ⟨hjm, w', hw'⟩ := h4 j hj1 hj2
    refine ⟨hjm, ?_⟩
    rw [((UMap.mem_range_iff u hwf n e j w').1 hw').1]; rfl
  · rcases h5 with ⟨h5a, h5b⟩ | h5
    · left
      refine ⟨h5a, ?_⟩
      cases hg : u.get next with
      | none => rfl
      | some w' =>
        exact absurd ⟨w', (UMap.mem_range_iff u hwf n e next w').2 ⟨hg, h1, by omega⟩⟩ h5b
    · right; exact h5

/-! ## admissible update maps -/

/-- **Admissibility** of an update map for a list with `n` backing elements and capacity `N`:
empty, or `max_index() < N`, every key at or beyond `n` is at most `max_index()`, and the keys at
or beyond `n` have no gaps (they are `n, n+1, …`). -/
def UMap.Admissible (u : UMap T) (n N : Nat) : Prop :=
  u.isEmpty = true ∨ ∃ mx, u.maxIndex = some mx ∧ mx < N ∧
    ∀ k, (u.get k).isSome → n ≤ k → k ≤ mx ∧ ∀ j, n ≤ j → j < k → (u.get j).isSome

/-- for a reachable map the two checks after `max_index() < N` (no entry at `usize::MAX`; the walk
over `[n, usize::MAX)`) succeed exactly when the keys at or beyond `n` are bounded by `max_index()`
and have no gaps. -/
theorem UMap.bk_check_iff (u : UMap T) (hwf : u.WF) (hr : u.Reach) (n N mx : Nat)
    (hN : N < 2 ^ 64) (hn : n ≤ N) (hmi : u.maxIndex = some mx) (hlt : mx < N) :
    ((u.get (2 ^ 64 - 1)).isSome = false ∧ gapCheckMax mx n (u.range n (2 ^ 64 - 1)) = none) ↔
      ∀ k, (u.get k).isSome → n ≤ k → k ≤ mx ∧ ∀ j, n ≤ j → j < k → (u.get j).isSome := by
  rw [bk_gapCheckMax_none_iff]
  constructor
  · rintro ⟨hB, hall, hg⟩ k hk h1
    have hkm : k ≤ mx := by
      rcases (hr.maxIndex_spec hwf hmi).1 k hk with h | h
      · exact h
      · have hkB : k ≠ 2 ^ 64 - 1 := by
          intro e; rw [e, hB] at hk; cases hk
        obtain ⟨w, hw⟩ := Option.isSome_iff_exists.1 hk
        exact hall (k, w) ((UMap.mem_range_iff u hwf n (2 ^ 64 - 1) k w).2 ⟨hw, h1, by omega⟩)
    exact ⟨hkm, (UMap.bk_contig_iff u hwf n (2 ^ 64 - 1)).1 hg k hk h1 (by omega)⟩
  · intro h
    refine ⟨?_, ?_, (UMap.bk_contig_iff u hwf n (2 ^ 64 - 1)).2 (fun k hk h1 _ => (h k hk h1).2)⟩
    · cases hB : (u.get (2 ^ 64 - 1)).isSome with
      | false => rfl
      | true => have := (h _ hB (by omega)).1; omega
    · intro q hq
      obtain ⟨k, w⟩ := q
      have := (UMap.mem_range_iff u hwf n (2 ^ 64 - 1) k w).1 hq
      exact (h k (by rw [this.1]; rfl) this.2.1).1

section MapPart
variable {cfg : Cfg}

/-- **acceptance implies admissibility of the stored map**: an admissible reachable map satisfies
the map part of the collection invariant (keys `< N`, contiguous, `MaxRel`). -/
theorem UMap.Admissible.mapOK {u : UMap T} {n : Nat} (hadm : u.Admissible n cfg.N)
    (hkind : u.kind = cfg.map) (hwf : u.WF) (hr : u.Reach) (hn : n ≤ cfg.N) :
    MapOK cfg u n := by
  rcases hadm with he | ⟨mx, hmi, hlt, hkeys⟩
  · have hent := UMap.co_entries_of_isEmpty u he
    refine ⟨hkind, hwf, ?_, ?_, ?_⟩
    · intro k v hkv; rw [hent] at hkv; cases hkv
    · have : u.range n cfg.N = [] := by rw [UMap.range_def, hent]; rfl
      rw [this]; rfl
    · apply hr.maxRel
      intro mx hmx
      rw [(UMap.maxIndex_eq_none_iff u).2 he] at hmx; cases hmx
  · refine ⟨hkind, hwf, ?_, ?_, ?_⟩
    · intro k v hkv
      have hk : (u.get k).isSome := (UMap.get_isSome_iff u k).2 ⟨v, hkv⟩
      by_cases hkn : n ≤ k
      · have := (hkeys k hk hkn).1; omega
      · omega
    · exact (UMap.bk_contig_iff u hwf n cfg.N).2 (fun k hk h1 _ => (hkeys k hk h1).2)
    · apply hr.maxRel
      intro mx' hmx' k hk
      rw [hmi] at hmx'
      cases hmx'
      by_cases hkn : n ≤ k
      · exact Or.inl (hkeys k hk hkn).1
      · right; omega

/-- the keys of an admissible map at or beyond `n` form an initial segment `n, …, n + r - 1` with
`n + r ≤ N`. -/
theorem UMap.Admissible.interval {u : UMap T} {n : Nat} (hadm : u.Admissible n cfg.N)
    (hkind : u.kind = cfg.map) (hwf : u.WF) (hr : u.Reach) (hn : n ≤ cfg.N) :
    ∃ r, n + r ≤ cfg.N ∧ ∀ k, n ≤ k → ((u.get k).isSome ↔ k < n + r) := by
  have M := hadm.mapOK hkind hwf hr hn
  have key := bk_gapCheck_none_keys _ n M.contiguous
  refine ⟨(u.range n cfg.N).length, ?_, ?_⟩
  · exact gapCheck_length_le n cfg.N _ M.contiguous
      (fun q hq => (UMap.mem_range_bounds u _ _ q hq).2) hn
  · intro k hk
    constructor
    · intro hs
      obtain ⟨w, hw⟩ := Option.isSome_iff_exists.1 hs
      exact ((key k).1 ⟨w, (UMap.mem_range_iff u hwf n cfg.N k w).2
        ⟨hw, hk, M.keys k w ((UMap.get_eq_some_iff u hwf k w).1 hw)⟩⟩).2
    · intro hlt
      obtain ⟨w, hw⟩ := (key k).2 ⟨hk, hlt⟩
      rw [((UMap.mem_range_iff u hwf n cfg.N k w).1 hw).1]; rfl

end MapPart

/-! ## `bulk_update`, any reachable map -/

section Bulk
variable {pf : Option Nat} {cfg : Cfg} {c : Coll T} {xs : List T}

/-- the control flow of `List::bulk_update`, verbatim: six exits. A rejected call returns only the
error (the collection is a value that the function does not return changed), never `.panic`. -/
theorem bk_bulkUpdate_cases (cfg : Cfg) (c : Coll T) (u : UMap T) :
    (c.hasPending = true ∧ c.bulkUpdate cfg u = .error .bulkUpdateUnclean) ∨
    (c.hasPending = false ∧ u.maxIndex = none ∧
      c.bulkUpdate cfg u = .ok { c with updates := u }) ∨
    (c.hasPending = false ∧ ∃ mx, u.maxIndex = some mx ∧ cfg.N ≤ mx ∧
      c.bulkUpdate cfg u = .error .invalidListUpdate) ∨
    (c.hasPending = false ∧ ∃ mx, u.maxIndex = some mx ∧ mx < cfg.N ∧
      (u.get (2 ^ 64 - 1)).isSome = true ∧ c.bulkUpdate cfg u = .error .invalidListUpdate) ∨
    (c.hasPending = false ∧ ∃ mx k next, u.maxIndex = some mx ∧ mx < cfg.N ∧
      (u.get (2 ^ 64 - 1)).isSome = false ∧
      gapCheckMax mx c.length (u.range c.length (2 ^ 64 - 1)) = some (k, next) ∧
      c.bulkUpdate cfg u = .error (.outOfBoundsUpdate k next)) ∨
    (c.hasPending = false ∧ ∃ mx, u.maxIndex = some mx ∧ mx < cfg.N ∧
      (u.get (2 ^ 64 - 1)).isSome = false ∧
      gapCheckMax mx c.length (u.range c.length (2 ^ 64 - 1)) = none ∧
      c.bulkUpdate cfg u = .ok { c with updates := u }) := by
  by_cases hp : c.hasPending = true
  · left; exact ⟨hp, by unfold Coll.bulkUpdate; rw [if_pos hp]⟩
  · right
    have hp' : c.hasPending = false := by simpa using hp
    cases hmi : u.maxIndex with
    | none =>
      left
      refine ⟨hp', rfl, ?_⟩
      unfold Coll.bulkUpdate
      rw [if_neg hp, hmi]
    | some mx =>
      right
      by_cases hge : mx ≥ cfg.N
      · left
        refine ⟨hp', mx, rfl, hge, ?_⟩
        unfold Coll.bulkUpdate
        rw [if_neg hp, hmi]
        simp only
        rw [if_pos hge]
      · right
        by_cases hB : (u.get (2 ^ 64 - 1)).isSome = true
        · left
          refine ⟨hp', mx, rfl, by omega, hB, ?_⟩
          unfold Coll.bulkUpdate
          rw [if_neg hp, hmi]
          simp only
          rw [if_neg hge, if_pos hB]
        · right
          have hB' : (u.get (2 ^ 64 - 1)).isSome = false := by simpa using hB
          cases hg : gapCheckMax mx c.length (u.range c.length (2 ^ 64 - 1)) with
          | some p =>
            obtain ⟨k, nx⟩ := p
            left
            refine ⟨hp', mx, k, nx, rfl, by omega, hB', hg, ?_⟩
            unfold Coll.bulkUpdate
            rw [if_neg hp, hmi]
            simp only
            rw [if_neg hge, if_neg hB, hg]
          | none =>
            right
            refine ⟨hp', mx, rfl, by omega, hB', hg, ?_⟩
            unfold Coll.bulkUpdate
            rw [if_neg hp, hmi]
            simp only
            rw [if_neg hge, if_neg hB, hg]

/-- an accepted `bulk_update` stores exactly the given map and changes nothing else. -/
theorem C15_bulkUpdate_ok_eq (cfg : Cfg) (c c' : Coll T) (u : UMap T)
    (h : c.bulkUpdate cfg u = .ok c') : c' = { c with updates := u } := by
  rcases bk_bulkUpdate_cases cfg c u with ⟨_, e⟩ | ⟨_, _, e⟩ | ⟨_, _, _, _, e⟩ |
    ⟨_, _, _, _, _, e⟩ | ⟨_, _, _, _, _, _, _, _, e⟩ | ⟨_, _, _, _, _, _, e⟩ <;> rw [e] at h <;> cases h <;> rfl

/-- never a panic, whatever the map (not even a reachable one is needed). -/
theorem C15_bulkUpdate_no_panic (cfg : Cfg) (c : Coll T) (u : UMap T) :
    c.bulkUpdate cfg u ≠ .error .panic := by
  intro h
  rcases bk_bulkUpdate_cases cfg c u with ⟨_, e⟩ | ⟨_, _, e⟩ | ⟨_, _, _, _, e⟩ |
    ⟨_, _, _, _, _, e⟩ | ⟨_, _, _, _, _, _, _, _, e⟩ | ⟨_, _, _, _, _, _, e⟩ <;> rw [e] at h <;> cases h

/-- **C15, exact characterisation of acceptance** (model level; only the cached length matters):
`bulk_update` accepts a reachable map iff no writes are pending and the map is admissible. -/
theorem bk_bulkUpdate_ok_iff (cfg : Cfg) (c : Coll T) (u : UMap T) (hwf : u.WF) (hr : u.Reach)
    (hN : cfg.N < 2 ^ 64) (hn : c.length ≤ cfg.N) :
    (∃ c', c.bulkUpdate cfg u = .ok c') ↔
      c.hasPending = false ∧ u.Admissible c.length cfg.N := by
  constructor
  · rintro ⟨c', h⟩
    rcases bk_bulkUpdate_cases cfg c u with ⟨_, e⟩ | ⟨hp, hmi, _⟩ | ⟨_, _, _, _, e⟩ |
      ⟨_, _, _, _, _, e⟩ | ⟨_, _, _, _, _, _, _, _, e⟩ | ⟨hp, mx, hmi, hlt, hB, hg, _⟩
    · rw [e] at h; cases h
    · exact ⟨hp, Or.inl ((UMap.maxIndex_eq_none_iff u).1 hmi)⟩
    · rw [e] at h; cases h
    · rw [e] at h; cases h
    · rw [e] at h; cases h
    · exact ⟨hp, Or.inr ⟨mx, hmi, hlt,
        (UMap.bk_check_iff u hwf hr c.length cfg.N mx hN hn hmi hlt).1 ⟨hB, hg⟩⟩⟩
  · rintro ⟨hp, hadm⟩
    rcases bk_bulkUpdate_cases cfg c u with ⟨hp', _⟩ | ⟨_, _, e⟩ | ⟨_, mx, hmi, hge, _⟩ |
      ⟨_, mx, hmi, hlt, hB, _⟩ | ⟨_, mx, k, nx, hmi, hlt, _, hg, _⟩ | ⟨_, _, _, _, _, _, e⟩
    · rw [hp] at hp'; cases hp'
    · exact ⟨_, e⟩
    · rcases hadm with he | ⟨mx', hmi', hlt', _⟩
      · rw [(UMap.maxIndex_eq_none_iff u).2 he] at hmi; cases hmi
      · rw [hmi] at hmi'; cases hmi'; omega
    · rcases hadm with he | ⟨mx', hmi', hlt', hk⟩
      · rw [(UMap.maxIndex_eq_none_iff u).2 he] at hmi; cases hmi
      · rw [hmi] at hmi'; cases hmi'
        rw [((UMap.bk_check_iff u hwf hr c.length cfg.N mx hN hn hmi hlt).2 hk).1] at hB
        cases hB
    · rcases hadm with he | ⟨mx', hmi', hlt', hk⟩
      · rw [(UMap.maxIndex_eq_none_iff u).2 he] at hmi; cases hmi
      · rw [hmi] at hmi'; cases hmi'
        rw [((UMap.bk_check_iff u hwf hr c.length cfg.N mx hN hn hmi hlt).2 hk).2] at hg
        cases hg
    · exact ⟨_, e⟩

/-- **C15 (target 3), exact characterisation of acceptance**: under the collection invariant, a
reachable map of the configured type is accepted iff no writes are pending and the map is
admissible for the current contents: it is empty, or `max_index() < N`, every key at or beyond the
length is `≤ max_index()`, and those keys are `len, len+1, …` without gaps. -/
theorem C15_bulkUpdate_ok_iff (K : CfgOK pf cfg) (I : CollInv pf cfg c xs) (u : UMap T)
    (hwf : u.WF) (hr : u.Reach) :
    (∃ c', c.bulkUpdate cfg u = .ok c') ↔
      c.hasPending = false ∧
      (u.isEmpty = true ∨ ∃ mx, u.maxIndex = some mx ∧ mx < cfg.N ∧
        ∀ k, (u.get k).isSome → xs.length ≤ k →
          k ≤ mx ∧ ∀ j, xs.length ≤ j → j < k → (u.get j).isSome) := by
  have hN : cfg.N < 2 ^ 64 := Nat.lt_of_le_of_lt K.le (by decide)
  have := bk_bulkUpdate_ok_iff cfg c u hwf hr hN (by rw [I.len]; exact I.le_N)
  rw [I.len] at this
  exact this

/-- **C15 (target 1): `bulk_update` with any reachable map is total, predictable, and acceptance
implies admissibility.** For every well-formed map `u` of the configured type satisfying the
invariant `UMap.Reach` of all maps constructible through the public API (`usize` keys), exactly
one of:

1. writes are pending: `BulkUpdateUnclean`;
2. `max_index() ≥ N`, or the map has an entry at `usize::MAX`: `InvalidListUpdate`;
3. the walk over the keys at or beyond the length finds a key `k` that is not the next index
   `next`, or exceeds `max_index()`: `OutOfBoundsUpdate k next`
   (see `C15_bulkUpdate_any_gap_spec` for what `k`, `next` are);
4. the map is admissible and the call is accepted; the result is `c` with the map stored, it
   satisfies the collection invariant (so keys `< N`, contiguous, `MaxRel`), and shows the plain
   overwrite/append semantics `applyEntries xs u.entries`.

In cases 1–3 the function returns only the error: the collection is unchanged, and the map is not
admissible (cases 2, 3). Never `.panic` (`C15_bulkUpdate_no_panic`). -/
theorem C15_bulkUpdate_any (K : CfgOK pf cfg) (I : CollInv pf cfg c xs) (u : UMap T)
    (hkind : u.kind = cfg.map) (hwf : u.WF) (hr : u.Reach) :
    (c.hasPending = true ∧ c.bulkUpdate cfg u = .error .bulkUpdateUnclean) ∨
    (c.hasPending = false ∧
      (∃ mx, u.maxIndex = some mx ∧ (cfg.N ≤ mx ∨ (u.get (2 ^ 64 - 1)).isSome = true)) ∧
      ¬ u.Admissible xs.length cfg.N ∧
      c.bulkUpdate cfg u = .error .invalidListUpdate) ∨
    (c.hasPending = false ∧ ∃ mx k next, u.maxIndex = some mx ∧ mx < cfg.N ∧
      u.get (2 ^ 64 - 1) = none ∧
      gapCheckMax mx xs.length (u.range xs.length (2 ^ 64 - 1)) = some (k, next) ∧
      ¬ u.Admissible xs.length cfg.N ∧
      c.bulkUpdate cfg u = .error (.outOfBoundsUpdate k next)) ∨
    (c.hasPending = false ∧ u.Admissible xs.length cfg.N ∧
      c.bulkUpdate cfg u = .ok { c with updates := u } ∧
      CollInv pf cfg { c with updates := u } xs ∧
      Coll.view xs { c with updates := u } = applyEntries xs u.entries ∧
      ({ c with updates := u } : Coll T).kind = c.kind) := by
  have hN : cfg.N < 2 ^ 64 := Nat.lt_of_le_of_lt K.le (by decide)
  have hiff := bk_bulkUpdate_ok_iff cfg c u hwf hr hN (by rw [I.len]; exact I.le_N)
  have hcases := bk_bulkUpdate_cases cfg c u
  rw [I.len] at hiff
  have accept : ∀ (hp : c.hasPending = false) (e : c.bulkUpdate cfg u = .ok { c with updates := u }),
      c.hasPending = false ∧ u.Admissible xs.length cfg.N ∧
      c.bulkUpdate cfg u = .ok { c with updates := u } ∧
      CollInv pf cfg { c with updates := u } xs ∧
      Coll.view xs { c with updates := u } = applyEntries xs u.entries ∧
      ({ c with updates := u } : Coll T).kind = c.kind := by
    intro hp e
    have hadm := (hiff.1 ⟨_, e⟩).2
    exact ⟨hp, hadm, e, I.with_updates u (hadm.mapOK hkind hwf hr I.le_N), rfl, rfl⟩
  have reject : ∀ (hp : c.hasPending = false) (er : Err) (e : c.bulkUpdate cfg u = .error er),
      ¬ u.Admissible xs.length cfg.N := by
    intro hp er e hadm
    obtain ⟨c', hc'⟩ := hiff.2 ⟨hp, hadm⟩
    rw [e] at hc'; cases hc'
  rcases hcases with ⟨hp, e⟩ | ⟨hp, _, e⟩ | ⟨hp, mx, hmi, hge, e⟩ | ⟨hp, mx, hmi, hlt, hB, e⟩ |
    ⟨hp, mx, k, nx, hmi, hlt, hB, hg, e⟩ | ⟨hp, _, _, _, _, _, e⟩
  · exact Or.inl ⟨hp, e⟩
  · exact Or.inr (Or.inr (Or.inr (accept hp e)))
  · exact Or.inr (Or.inl ⟨hp, ⟨mx, hmi, Or.inl hge⟩, reject hp _ e, e⟩)
  · exact Or.inr (Or.inl ⟨hp, ⟨mx, hmi, Or.inr hB⟩, reject hp _ e, e⟩)
  · rw [I.len] at hg
    refine Or.inr (Or.inr (Or.inl ⟨hp, mx, k, nx, hmi, hlt, ?_, hg, reject hp _ e, e⟩))
    cases hgB : u.get (2 ^ 64 - 1) with
    | none => rfl
    | some w => rw [hgB] at hB; cases hB
  · exact Or.inr (Or.inr (Or.inr (accept hp e)))

/-- the short form of `C15_bulkUpdate_any`: an error among the three documented ones and nothing
else happens, or the call is accepted and the result is well-formed with the plain semantics. -/
theorem C15_bulkUpdate_any' (K : CfgOK pf cfg) (I : CollInv pf cfg c xs) (u : UMap T)
    (hkind : u.kind = cfg.map) (hwf : u.WF) (hr : u.Reach) :
    (∃ e, c.bulkUpdate cfg u = .error e ∧
      (e = .bulkUpdateUnclean ∨ e = .invalidListUpdate ∨ ∃ k next, e = .outOfBoundsUpdate k next)) ∨
    (∃ c', c.bulkUpdate cfg u = .ok c' ∧ CollInv pf cfg c' xs ∧
      Coll.view xs c' = applyEntries xs u.entries ∧ c'.kind = c.kind ∧
      c'.updates.MaxRel xs.length ∧ (∀ k v, (k, v) ∈ c'.updates.entries → k < cfg.N) ∧
      gapCheck xs.length (c'.updates.range xs.length cfg.N) = none) := by
  rcases C15_bulkUpdate_any K I u hkind hwf hr with ⟨_, e⟩ | ⟨_, _, _, e⟩ |
    ⟨_, _, k, nx, _, _, _, _, _, e⟩ | ⟨_, _, e, hI, hv, hk⟩
  · exact Or.inl ⟨_, e, Or.inl rfl⟩
  · exact Or.inl ⟨_, e, Or.inr (Or.inl rfl)⟩
  · exact Or.inl ⟨_, e, Or.inr (Or.inr ⟨k, nx, rfl⟩)⟩
  · exact Or.inr ⟨_, e, hI, hv, hk, hI.maxRel, hI.keys, hI.contiguous⟩

/-- **C15 (target 2): a stale `MaxMap::max_key` is caught.** If a clean list is given a map that
has some `usize` key `k` at or beyond the current length which exceeds `max_index()` (possible only
for a `MaxMap` filled through `get_mut_with` / `get_cow_with`), the call is rejected: with
`InvalidListUpdate` if `max_index() ≥ N` or the map has an entry at `usize::MAX`, otherwise with
`OutOfBoundsUpdate i next` for the first offending key. Only `k < 2^64` is needed of the map (no
`Reach`, no `WF`). -/
theorem C15_bulkUpdate_stale_rejected (I : CollInv pf cfg c xs) (u : UMap T)
    (hclean : c.hasPending = false) (k mx : Nat) (hk : (u.get k).isSome) (hkn : xs.length ≤ k)
    (hk64 : k < 2 ^ 64) (hmi : u.maxIndex = some mx) (hstale : mx < k) :
    ((cfg.N ≤ mx ∨ (u.get (2 ^ 64 - 1)).isSome = true) ∧
      c.bulkUpdate cfg u = .error .invalidListUpdate) ∨
    (mx < cfg.N ∧ u.get (2 ^ 64 - 1) = none ∧
      ∃ i next, c.bulkUpdate cfg u = .error (.outOfBoundsUpdate i next) ∧
      gapCheckMax mx xs.length (u.range xs.length (2 ^ 64 - 1)) = some (i, next)) := by
  have hnone : ∀ {b : Bool}, (u.get (2 ^ 64 - 1)).isSome = b → b = false →
      u.get (2 ^ 64 - 1) = none := by
    intro b h1 h2
    subst h2
    cases hg : u.get (2 ^ 64 - 1) with
    | none => rfl
    | some w => rw [hg] at h1; cases h1
  rcases bk_bulkUpdate_cases cfg c u with ⟨hp, _⟩ | ⟨_, hmi', _⟩ | ⟨_, mx', hmi', hge, e⟩ |
    ⟨_, mx', hmi', hlt, hB, e⟩ | ⟨_, mx', i, nx, hmi', hlt, hB, hg, e⟩ |
    ⟨_, mx', hmi', hlt, hB, hg, _⟩
  all_goals try rw [I.len] at hg
  · rw [hclean] at hp; cases hp
  · rw [hmi] at hmi'; cases hmi'
  · rw [hmi] at hmi'; cases hmi'
    exact Or.inl ⟨Or.inl hge, e⟩
  · exact Or.inl ⟨Or.inr hB, e⟩
  · rw [hmi] at hmi'; cases hmi'
    exact Or.inr ⟨hlt, hnone hB rfl, i, nx, e, hg⟩
  · rw [hmi] at hmi'; cases hmi'
    exfalso
    have hkB : k ≠ 2 ^ 64 - 1 := by
      intro e; rw [e, hB] at hk; cases hk
    obtain ⟨w, hw⟩ := (UMap.get_isSome_iff u k).1 hk
    have hin : (k, w) ∈ u.range xs.length (2 ^ 64 - 1) := by
      rw [UMap.range_def, List.mem_filter]
      refine ⟨hw, ?_⟩
      simp only [Bool.and_eq_true, decide_eq_true_eq]
      exact ⟨hkn, by omega⟩
    have := ((bk_gapCheckMax_none_iff mx _ _).1 hg).1 (k, w) hin
    simp only at this
    omega

/-- **C15 (F9): an entry at the key `usize::MAX` is always rejected.** The walk
`for_each_range(len, usize::MAX)` excludes that key, so it is checked on its own: a clean collection
rejects such a map with `InvalidListUpdate` (whatever `max_index()` reports, for every kind of map,
no hypothesis on the map), and no collection ever accepts it. -/
theorem C15_bulkUpdate_usizeMax_rejected (cfg : Cfg) (c : Coll T) (u : UMap T)
    (hk : (u.get (2 ^ 64 - 1)).isSome = true) :
    (c.hasPending = false → c.bulkUpdate cfg u = .error .invalidListUpdate) ∧
    (c.hasPending = true → c.bulkUpdate cfg u = .error .bulkUpdateUnclean) ∧
    ¬ ∃ c', c.bulkUpdate cfg u = .ok c' := by
  have hne : u.maxIndex ≠ none := by
    intro h
    have := (UMap.isEmpty_iff u).1 ((UMap.maxIndex_eq_none_iff u).1 h) (2 ^ 64 - 1)
    rw [this] at hk; cases hk
  rcases bk_bulkUpdate_cases cfg c u with ⟨hp, e⟩ | ⟨_, hmi, _⟩ | ⟨hp, _, _, _, e⟩ |
    ⟨hp, _, _, _, _, e⟩ | ⟨_, _, _, _, _, _, hB, _⟩ | ⟨_, _, _, _, hB, _⟩
  · refine ⟨fun h => (by rw [hp] at h; cases h), fun _ => e, ?_⟩
    rintro ⟨c', h⟩; rw [e] at h; cases h
  · exact absurd hmi hne
  · refine ⟨fun _ => e, fun h => (by rw [hp] at h; cases h), ?_⟩
    rintro ⟨c', h⟩; rw [e] at h; cases h
  · refine ⟨fun _ => e, fun h => (by rw [hp] at h; cases h), ?_⟩
    rintro ⟨c', h⟩; rw [e] at h; cases h
  · rw [hk] at hB; cases hB
  · rw [hk] at hB; cases hB

/-- in particular the map of the former counterexample (a `MaxMap` with `max_key = 0` holding only
the key `usize::MAX`, written through `get_mut_with`; it is reachable: `usize` keys) is rejected. -/
theorem C15_bulkUpdate_usizeMax_stale_rejected (cfg : Cfg) (c : Coll T) (x : T)
    (hclean : c.hasPending = false) :
    ((UMap.empty .maxvec : UMap T).insertEntry (2 ^ 64 - 1) x).Reach ∧
    ((UMap.empty .maxvec : UMap T).insertEntry (2 ^ 64 - 1) x).maxIndex = some 0 ∧
    c.bulkUpdate cfg ((UMap.empty .maxvec).insertEntry (2 ^ 64 - 1) x) = .error .invalidListUpdate := by
  have hget : ((UMap.empty .maxvec : UMap T).insertEntry (2 ^ 64 - 1) x).get (2 ^ 64 - 1) = some x := by
    rw [UMap.get_insertEntry, if_pos rfl]
  refine ⟨?_, ?_, ?_⟩
  · exact UMap.Reach_insertEntry _ (UMap.Reach_empty .maxvec) _ _ (fun _ => by decide)
  · have : ((UMap.empty .maxvec : UMap T).insertEntry (2 ^ 64 - 1) x)
        = .maxvec (vecSet [] (2 ^ 64 - 1) x) 0 := rfl
    rw [this, UMap.maxIndex_maxvec, ← this, UMap.co_isEmpty_insertEntry]; rfl
  · exact (C15_bulkUpdate_usizeMax_rejected cfg c _ (by rw [hget]; rfl)).1 hclean

/-- an accepted map has no entry at `usize::MAX` (indeed all its keys are `< N`). -/
theorem C15_bulkUpdate_ok_no_usizeMax (cfg : Cfg) (c c' : Coll T) (u : UMap T)
    (h : c.bulkUpdate cfg u = .ok c') : u.get (2 ^ 64 - 1) = none := by
  cases hg : u.get (2 ^ 64 - 1) with
  | none => rfl
  | some w =>
    exact absurd ⟨c', h⟩ (C15_bulkUpdate_usizeMax_rejected cfg c u (by rw [hg]; rfl)).2.2

/-- **C15 (target 4): after an accepted bulk update of any reachable map the list is well-formed**:
the invariant holds, `len()` is the number of elements iteration yields (`to_vec` returns the shown
sequence), indexed reads return its elements and succeed exactly below `len()`, and `len() ≤ N`. -/
theorem C15_bulk_then_wellformed (K : CfgOK pf cfg) (I : CollInv pf cfg c xs) (u : UMap T)
    (hkind : u.kind = cfg.map) (hwf : u.WF) (hr : u.Reach) (c' : Coll T)
    (h : c.bulkUpdate cfg u = .ok c') :
    CollInv pf cfg c' xs ∧
    Coll.view xs c' = applyEntries xs u.entries ∧
    c'.len = (applyEntries xs u.entries).length ∧
    c'.toVec pf = .ok (applyEntries xs u.entries) ∧
    (∀ i, c'.get pf i = (applyEntries xs u.entries)[i]?) ∧
    (∀ i, (c'.get pf i).isSome ↔ i < c'.len) ∧
    c'.len ≤ cfg.N ∧ xs.length ≤ c'.len := by
  have hc' := C15_bulkUpdate_ok_eq cfg c c' u h
  subst hc'
  rcases C15_bulkUpdate_any K I u hkind hwf hr with ⟨_, e⟩ | ⟨_, _, _, e⟩ |
    ⟨_, _, _, _, _, _, _, _, _, e⟩ | ⟨_, _, _, hI, hv, _⟩
  · rw [e] at h; cases h
  · rw [e] at h; cases h
  · rw [e] at h; cases h
  · have hlen := C01_len hI
    have hget := C01_get K hI
    rw [hv] at hlen hget
    refine ⟨hI, hv, hlen, ?_, hget, ?_, ?_, ?_⟩
    · rw [C01_toVec K hI, hv]
    · intro i
      rw [hget, hlen]
      constructor
      · intro hs
        rcases Nat.lt_or_ge i (applyEntries xs u.entries).length with hlt | hge
        · exact hlt
        · rw [List.getElem?_eq_none hge] at hs; cases hs
      · intro hlt
        rw [List.getElem?_eq_getElem hlt]; rfl
    · exact C05_len_le hI
    · rw [hlen, ← hv]; exact hI.mapOK.length_ge hI.le_N

/-! ## maps built by arbitrary sequences of `insert` / `insertEntry` -/

/-- **C15, every map constructible through the public API.** `C15_bulkUpdate_any` for
`u := UMap.build cfg.map ops`, `ops` an arbitrary list of `insert` (`true`) / `insertEntry`
(`false`) operations whose keys are `usize` values (needed for a `MaxMap<VecMap>` only; for the
other kinds no assumption at all). -/
theorem C15_bulkUpdate_build (K : CfgOK pf cfg) (I : CollInv pf cfg c xs)
    (ops : List (Bool × Nat × T))
    (hkeys : cfg.map = .maxvec → ∀ op ∈ ops, op.2.1 < 2 ^ 64) :
    (∃ e, c.bulkUpdate cfg (UMap.build cfg.map ops) = .error e ∧
      (e = .bulkUpdateUnclean ∨ e = .invalidListUpdate ∨ ∃ k next, e = .outOfBoundsUpdate k next)) ∨
    (∃ c', c.bulkUpdate cfg (UMap.build cfg.map ops) = .ok c' ∧ CollInv pf cfg c' xs ∧
      Coll.view xs c' = applyEntries xs (UMap.build cfg.map ops).entries ∧ c'.kind = c.kind ∧
      c'.len = (Coll.view xs c').length ∧ c'.toVec pf = .ok (Coll.view xs c') ∧
      (∀ i, c'.get pf i = (Coll.view xs c')[i]?) ∧ (∀ i, (c'.get pf i).isSome ↔ i < c'.len)) := by
  have hkind := UMap.kind_build (T := T) cfg.map ops
  have hwf := UMap.WF_build (T := T) cfg.map ops
  have hr := UMap.Reach_build cfg.map ops hkeys
  rcases C15_bulkUpdate_any' K I _ hkind hwf hr with h | ⟨c', h1, h2, h3, h4, _⟩
  · exact Or.inl h
  · obtain ⟨_, _, g3, g4, g5, g6, _⟩ := C15_bulk_then_wellformed K I _ hkind hwf hr c' h1
    rw [← h3] at g3 g4 g5
    exact Or.inr ⟨c', h1, h2, h3, h4, g3, g4, g5, g6⟩

/-- the literal form of the target: every operation list with `usize` keys, every kind. -/
theorem C15_bulkUpdate_build_usize (K : CfgOK pf cfg) (I : CollInv pf cfg c xs)
    (ops : List (Bool × Nat × T)) (hkeys : ∀ op ∈ ops, op.2.1 < 2 ^ 64) :
    (∃ e, c.bulkUpdate cfg (UMap.build cfg.map ops) = .error e ∧
      (e = .bulkUpdateUnclean ∨ e = .invalidListUpdate ∨ ∃ k next, e = .outOfBoundsUpdate k next)) ∨
    (∃ c', c.bulkUpdate cfg (UMap.build cfg.map ops) = .ok c' ∧ CollInv pf cfg c' xs ∧
      Coll.view xs c' = applyEntries xs (UMap.build cfg.map ops).entries ∧ c'.kind = c.kind ∧
      c'.len = (Coll.view xs c').length ∧ c'.toVec pf = .ok (Coll.view xs c') ∧
      (∀ i, c'.get pf i = (Coll.view xs c')[i]?) ∧ (∀ i, (c'.get pf i).isSome ↔ i < c'.len)) :=
  C15_bulkUpdate_build K I ops (fun _ => hkeys)

/-- the acceptance criterion for built maps. -/
theorem C15_bulkUpdate_build_ok_iff (K : CfgOK pf cfg) (I : CollInv pf cfg c xs)
    (ops : List (Bool × Nat × T))
    (hkeys : cfg.map = .maxvec → ∀ op ∈ ops, op.2.1 < 2 ^ 64) :
    (∃ c', c.bulkUpdate cfg (UMap.build cfg.map ops) = .ok c') ↔
      c.hasPending = false ∧ (UMap.build cfg.map ops).Admissible xs.length cfg.N :=
  C15_bulkUpdate_ok_iff K I _ (UMap.WF_build cfg.map ops) (UMap.Reach_build cfg.map ops hkeys)

/-! ## non-vacuity: concrete instances -/

namespace BulkAnyExample
open CollOpsExample

/-- a `MaxMap` holding only a key written through `get_mut_with`: `max_key` stays `0`. -/
def exStaleMap (k v : Nat) : UMap Nat := (UMap.empty .maxvec).insertEntry k v

-- the stale map reports `max_index() = 0` although it holds key 10; it is reachable, not `MaxExact`
example : (exStaleMap 10 5).maxIndex = some 0 ∧ (exStaleMap 10 5).get 10 = some 5 := by decide
example : (exStaleMap 10 5).Reach ∧ (exStaleMap 10 5).WF ∧ ¬ (exStaleMap 10 5).MaxExact := by
  refine ⟨UMap.Reach_build .maxvec [(false, 10, 5)] (by decide), trivial, ?_⟩
  intro h
  have := h.1 10 (by decide)
  omega

/-- `List<_, 16>`, unpacked. -/
def exCfg16 (k : MapKind) : Cfg := ⟨16, k⟩

theorem exCfg16OK (k : MapKind) : CfgOK none (exCfg16 k) :=
  ⟨exPfOKnone, (by show 1 ≤ 16; decide), (by show 16 ≤ 2 ^ 63; decide)⟩

/-- **stale `MaxMap` rejected** (the example of the task): a 4-element `List<_, 16>` built by
`try_from_iter` rejects `(UMap.empty .maxvec).insertEntry 10 v` with `OutOfBoundsUpdate 10 4`. -/
example : ∃ c h', Coll.tryFromIter none (0 : Nat) (exCfg16 .maxvec) [1, 2, 3, 4] Heap.empty
      = .ok (c, h') ∧ CollInv none (exCfg16 .maxvec) c [1, 2, 3, 4] ∧
    c.bulkUpdate (exCfg16 .maxvec) (exStaleMap 10 5) = .error (.outOfBoundsUpdate 10 4) := by
  obtain ⟨c, h', h1, h2, _, h4, _⟩ := C05_tryFromIter_inv (exCfg16OK .maxvec) (0 : Nat)
    [1, 2, 3, 4] (by decide) Heap.empty
  refine ⟨c, h', h1, h2, ?_⟩
  have hclean : c.hasPending = false := by rw [C01_hasPending, h4]; rfl
  rcases C15_bulkUpdate_stale_rejected h2 (exStaleMap 10 5) hclean 10 0 (by decide) (by decide)
    (by decide) (by decide) (by decide) with ⟨h, _⟩ | ⟨_, _, i, nx, e, hg⟩
  · rcases h with h | h
    · exact absurd h (by decide)
    · exact absurd h (by decide)
  · have : gapCheckMax 0 [1, 2, 3, 4].length ((exStaleMap 10 5).range [1, 2, 3, 4].length (2 ^ 64 - 1))
        = some (10, 4) := by decide
    rw [this] at hg; cases hg; exact e

-- the same by evaluation on the concrete 6-element `List<_, 8>` of `CollOps.lean`; a key that *is*
-- the next index (6) is rejected too, because it exceeds `max_index() = 0`
example : (exBaseP .maxvec).bulkUpdate (exCfgP .maxvec) (exStaleMap 7 70)
    = .error (.outOfBoundsUpdate 7 6) := by rfl
example : (exBaseP .maxvec).bulkUpdate (exCfgP .maxvec) (exStaleMap 6 60)
    = .error (.outOfBoundsUpdate 6 6) := by rfl

/-- `get_mut` below the length (key 2, not reflected in `max_key`) and two `insert`ed keys
extending the list. -/
def exOpsOk : List (Bool × Nat × Nat) := [(false, 2, 20), (true, 6, 60), (true, 7, 70)]

/-- **accepted, every kind (in particular `MaxMap` with an `insertEntry` below the length plus an
`insert`ed extension, and the same entries in a `BTreeMap`)**. -/
example (k : MapKind) : ∃ c', (exBaseP k).bulkUpdate (exCfgP k) (UMap.build k exOpsOk) = .ok c' ∧
    CollInv (some 4) (exCfgP k) c' [1, 2, 3, 4, 5, 6] ∧
    Coll.view [1, 2, 3, 4, 5, 6] c' = [1, 2, 20, 4, 5, 6, 60, 70] ∧
    c'.len = 8 ∧ c'.toVec (some 4) = .ok [1, 2, 20, 4, 5, 6, 60, 70] ∧
    c'.get (some 4) 7 = some 70 ∧ c'.get (some 4) 8 = none := by
  have hwf := UMap.WF_build (T := Nat) k exOpsOk
  have hr := UMap.Reach_build k exOpsOk (fun _ => by decide)
  have hok : ∃ c', (exBaseP k).bulkUpdate (exCfgP k) (UMap.build k exOpsOk) = .ok c' :=
    (bk_bulkUpdate_ok_iff (exCfgP k) (exBaseP k) _ hwf hr (by show 8 < 2 ^ 64; decide)
        (by show 6 ≤ 8; decide)).2
      ⟨by cases k <;> decide, Or.inr ⟨7, by cases k <;> decide, by show 7 < 8; decide,
        (UMap.bk_check_iff _ hwf hr 6 8 7 (by decide) (by decide) (by cases k <;> decide)
          (by decide)).1 ⟨by cases k <;> decide, by cases k <;> decide⟩⟩⟩
  obtain ⟨c', h⟩ := hok
  obtain ⟨g1, g2, g3, g4, g5, _⟩ := C15_bulk_then_wellformed (exCfgPOK k) (exBaseP_inv k) _
    (UMap.kind_build k exOpsOk) hwf hr c' h
  have hv : applyEntries [1, 2, 3, 4, 5, 6] (UMap.build k exOpsOk).entries
      = [1, 2, 20, 4, 5, 6, 60, 70] := by cases k <;> decide
  rw [hv] at g2 g3 g4 g5
  exact ⟨c', h, g1, g2, g3, g4, g5 7, g5 8⟩

/-- a reachable `MaxMap` that is **not** `MaxExact` (so outside `C15_bulkUpdate_total`) and is
accepted: a single `get_mut` write below the length; `max_key = 0 < 5`. -/
example : ¬ (exStaleMap 5 50).MaxExact ∧ (exStaleMap 5 50).Admissible 6 8 ∧
    ∃ c', (exBaseP .maxvec).bulkUpdate (exCfgP .maxvec) (exStaleMap 5 50) = .ok c' ∧
      CollInv (some 4) (exCfgP .maxvec) c' [1, 2, 3, 4, 5, 6] ∧
      Coll.view [1, 2, 3, 4, 5, 6] c' = [1, 2, 3, 4, 5, 50] := by
  have hwf : (exStaleMap 5 50).WF := trivial
  have hr : (exStaleMap 5 50).Reach := UMap.Reach_build .maxvec [(false, 5, 50)] (by decide)
  have hadm : (exStaleMap 5 50).Admissible 6 8 :=
    Or.inr ⟨0, by decide, by decide,
      (UMap.bk_check_iff _ hwf hr 6 8 0 (by decide) (by decide) (by decide) (by decide)).1
        ⟨by decide, by decide⟩⟩
  refine ⟨?_, hadm, ?_⟩
  · intro h
    have := h.1 5 (by decide)
    omega
  · obtain ⟨c', h⟩ := (bk_bulkUpdate_ok_iff (exCfgP .maxvec) (exBaseP .maxvec) _ hwf hr
      (by show 8 < 2 ^ 64; decide) (by show 6 ≤ 8; decide)).2 ⟨by decide, hadm⟩
    obtain ⟨g1, g2, _⟩ := C15_bulk_then_wellformed (exCfgPOK .maxvec) (exBaseP_inv .maxvec) _
      rfl hwf hr c' h
    exact ⟨c', h, g1, by rw [g2]; decide⟩

/-- **the same entries in a `BTreeMap` (and a `VecMap`) are accepted** where the stale `MaxMap` is
rejected: `insertEntry 6 60` on the 6-element list appends `60`. -/
example : ((exBaseP .maxvec).bulkUpdate (exCfgP .maxvec) (UMap.build .maxvec [(false, 6, 60)])
      = .error (.outOfBoundsUpdate 6 6)) ∧
    (∃ c', (exBaseP .btree).bulkUpdate (exCfgP .btree) (UMap.build .btree [(false, 6, 60)])
      = .ok c' ∧ CollInv (some 4) (exCfgP .btree) c' [1, 2, 3, 4, 5, 6] ∧
      Coll.view [1, 2, 3, 4, 5, 6] c' = [1, 2, 3, 4, 5, 6, 60]) ∧
    (∃ c', (exBaseP .vec).bulkUpdate (exCfgP .vec) (UMap.build .vec [(false, 6, 60)])
      = .ok c' ∧ CollInv (some 4) (exCfgP .vec) c' [1, 2, 3, 4, 5, 6] ∧
      Coll.view [1, 2, 3, 4, 5, 6] c' = [1, 2, 3, 4, 5, 6, 60]) := by
  refine ⟨by rfl, ?_, ?_⟩
  · rcases C15_bulkUpdate_any (exCfgPOK .btree) (exBaseP_inv .btree)
      (UMap.build .btree [(false, 6, 60)]) rfl (UMap.WF_build _ _) trivial with
      ⟨h, _⟩ | ⟨_, ⟨mx, h, h'⟩, _, _⟩ | ⟨_, mx, k, nx, h, _, _, hg, _⟩ | ⟨_, _, e, hI, hv, _⟩
    · exact absurd h (by decide)
    · have : (UMap.build .btree [(false, 6, (60 : Nat))]).maxIndex = some 6 := by decide
      rw [this] at h; cases h
      rcases h' with h' | h'
      · exact absurd h' (by decide)
      · exact absurd h' (by decide)
    · have : (UMap.build .btree [(false, 6, (60 : Nat))]).maxIndex = some 6 := by decide
      rw [this] at h; cases h
      rw [show gapCheckMax 6 [1, 2, 3, 4, 5, 6].length
        ((UMap.build _ [(false, 6, (60 : Nat))]).range [1, 2, 3, 4, 5, 6].length (2 ^ 64 - 1)) = none
        by decide] at hg
      cases hg
    · exact ⟨_, e, hI, by rw [hv]; decide⟩
  · rcases C15_bulkUpdate_any (exCfgPOK .vec) (exBaseP_inv .vec)
      (UMap.build .vec [(false, 6, 60)]) rfl (UMap.WF_build _ _) trivial with
      ⟨h, _⟩ | ⟨_, ⟨mx, h, h'⟩, _, _⟩ | ⟨_, mx, k, nx, h, _, _, hg, _⟩ | ⟨_, _, e, hI, hv, _⟩
    · exact absurd h (by decide)
    · have : (UMap.build .vec [(false, 6, (60 : Nat))]).maxIndex = some 6 := by decide
      rw [this] at h; cases h
      rcases h' with h' | h'
      · exact absurd h' (by decide)
      · exact absurd h' (by decide)
    · have : (UMap.build .vec [(false, 6, (60 : Nat))]).maxIndex = some 6 := by decide
      rw [this] at h; cases h
      rw [show gapCheckMax 6 [1, 2, 3, 4, 5, 6].length
        ((UMap.build _ [(false, 6, (60 : Nat))]).range [1, 2, 3, 4, 5, 6].length (2 ^ 64 - 1)) = none
        by decide] at hg
      cases hg
    · exact ⟨_, e, hI, by rw [hv]; decide⟩

-- what the rejection `OutOfBoundsUpdate 6 6` of the stale map means (`k = next` but `mx < k`)
example : 6 ≤ 6 ∧ 6 ≤ 6 ∧ 6 < 2 ^ 64 - 1 ∧ ((exStaleMap 6 60).get 6).isSome ∧
    (∀ j, 6 ≤ j → j < 6 → j ≤ 0 ∧ ((exStaleMap 6 60).get j).isSome) ∧
    ((6 < 6 ∧ (exStaleMap 6 60).get 6 = none) ∨ (6 = 6 ∧ 0 < 6)) :=
  C15_bulkUpdate_any_gap_spec (exStaleMap 6 60) trivial 0 6 (2 ^ 64 - 1) 6 6 (by decide)

-- other rejections through the general theorem's hypotheses: pending writes, `max_index() ≥ N`
example (k : MapKind) (u : UMap Nat) :
    (exPending k).bulkUpdate (exCfg k) u = .error .bulkUpdateUnclean :=
  C15_bulkUpdate_unclean _ _ _ (by cases k <;> decide)
example (k : MapKind) : (exBaseP k).bulkUpdate (exCfgP k) (UMap.build k [(false, 2, 20), (true, 8, 80)])
    = .error .invalidListUpdate := by cases k <;> rfl

-- F9: the key `usize::MAX` in a `MaxMap` filled through `get_mut_with` (`max_key = 0`) is rejected
example : (exBaseP .maxvec).bulkUpdate (exCfgP .maxvec) ((UMap.empty .maxvec).insertEntry (2 ^ 64 - 1) 1)
    = .error .invalidListUpdate :=
  (C15_bulkUpdate_usizeMax_stale_rejected (exCfgP .maxvec) (exBaseP .maxvec) 1 (by decide)).2.2
-- … and in a `BTreeMap` (where `max_index()` already catches it)
example : (exBaseP .btree).bulkUpdate (exCfgP .btree) (UMap.build .btree [(false, 2 ^ 64 - 1, 1)])
    = .error .invalidListUpdate :=
  (C15_bulkUpdate_usizeMax_rejected (exCfgP .btree) (exBaseP .btree) _ (by decide)).1 (by decide)

end BulkAnyExample

end Bulk

end Milhouse
