import Milhouse.Model.Basic
/-!
# Bit arithmetic facts (L1)

`tz` (the fuelled model of `usize::trailing_zeros`) agrees with the mathematical trailing-zero
count `tzr` below `2^64`; `intLog` is the least exponent; `computeLevel` characterisation.
-/
namespace Milhouse

/-- mathematical trailing-zero count (0 for 0). -/
def tzr (i : Nat) : Nat := if h : i = 0 then 0 else if i % 2 = 1 then 0 else 1 + tzr (i / 2)
decreasing_by omega

theorem tzr_dvd (i : Nat) : 2 ^ tzr i ∣ i := by
  induction i using Nat.strongRecOn with
  | _ i ih =>
    unfold tzr
    split
    · simp [*]
    · split
      · simp
      · have h2 : i % 2 = 0 := by omega
        have := ih (i / 2) (by omega)
        rw [Nat.pow_add, Nat.pow_one]
        have e : i = 2 * (i / 2) := by omega
        rw [e]
        exact Nat.mul_dvd_mul (Nat.dvd_refl 2) (by simpa using this)

theorem tzr_not_dvd (i : Nat) (hi : i ≠ 0) : ¬ 2 ^ (tzr i + 1) ∣ i := by
  induction i using Nat.strongRecOn with
  | _ i ih =>
    unfold tzr
    simp only [hi, dite_false]
    split
    · intro h; simp at h; omega
    · have h2 : i % 2 = 0 := by omega
      have := ih (i / 2) (by omega) (by omega)
      intro hd
      apply this
      have e : i = 2 * (i / 2) := by omega
      have hp : 2 ^ (1 + tzr (i / 2) + 1) = 2 * 2 ^ (tzr (i/2) + 1) := by
        rw [show 1 + tzr (i / 2) + 1 = (tzr (i/2) + 1) + 1 by omega, Nat.pow_succ]; omega
      rw [hp] at hd
      generalize i / 2 = j at *
      subst e
      exact Nat.dvd_of_mul_dvd_mul_left (by decide) hd

/-- `k ≤ tzr i ↔ 2^k ∣ i` for `i ≠ 0`. -/
theorem le_tzr_iff (i k : Nat) (hi : i ≠ 0) : k ≤ tzr i ↔ 2 ^ k ∣ i := by
  constructor
  · intro h; exact Nat.dvd_trans (Nat.pow_dvd_pow 2 h) (tzr_dvd i)
  · intro h
    apply Nat.le_of_not_lt
    intro hlt
    exact tzr_not_dvd i hi (Nat.dvd_trans (Nat.pow_dvd_pow 2 (by omega)) h)

theorem tzr_lt_of_lt_pow (i n : Nat) (hi : i ≠ 0) (h : i < 2 ^ n) : tzr i < n := by
  apply Nat.lt_of_not_le
  intro hle
  have hd : 2 ^ n ∣ i := (le_tzr_iff i n hi).1 hle
  have := Nat.le_of_dvd (by omega) hd
  omega

theorem tzAux_eq (fuel i : Nat) (hi : i ≠ 0) (h : i < 2 ^ fuel) : tzAux fuel i = tzr i := by
  induction fuel generalizing i with
  | zero => simp at h; omega
  | succ fuel ih =>
    unfold tzAux tzr
    simp only [hi, dite_false]
    by_cases h2 : i % 2 = 0
    · have h1 : ¬ (i % 2 = 1) := by omega
      rw [if_pos h2, if_neg h1]
      rw [ih (i / 2) (by omega) (by rw [Nat.pow_succ] at h; omega)]
      omega
    · have h1 : i % 2 = 1 := by omega
      rw [if_neg h2, if_pos h1]

/-- the model's `trailing_zeros` is the mathematical one on non-zero `usize` values. -/
theorem tz_eq_tzr (i : Nat) (hi : i ≠ 0) (h : i < 2 ^ 64) : tz i = tzr i := by
  unfold tz; simp only [hi, if_false]; exact tzAux_eq 64 i hi h

/-- `i` and `i+1` agree on all bits strictly above `tzr (i+1)`. -/
theorem div_succ_eq (i h : Nat) (hh : tzr (i+1) < h) : (i + 1) / 2 ^ h = i / 2 ^ h := by
  have hnd : ¬ 2 ^ h ∣ (i + 1) := by
    intro hd
    apply tzr_not_dvd (i+1) (by omega)
    exact Nat.dvd_trans (Nat.pow_dvd_pow 2 (by omega)) hd
  rw [Nat.succ_div]; simp [hnd]

/-! ## `intLog` -/

theorem intLogAux_spec (fuel d n : Nat) :
    d ≤ intLogAux fuel d n ∧ intLogAux fuel d n ≤ d + fuel ∧
    (intLogAux fuel d n < d + fuel → n ≤ 2 ^ intLogAux fuel d n) ∧
    (∀ e, d ≤ e → e < intLogAux fuel d n → ¬ n ≤ 2 ^ e) := by
  induction fuel generalizing d with
  | zero =>
    refine ⟨by simp [intLogAux], by simp [intLogAux], by simp [intLogAux], ?_⟩
    intro e h1 h2; simp [intLogAux] at h2; omega
  | succ fuel ih =>
    unfold intLogAux
    by_cases h : n ≤ 2 ^ d
    · rw [if_pos h]
      refine ⟨Nat.le_refl _, by omega, fun _ => h, fun e h1 h2 => by omega⟩
    · rw [if_neg h]
      obtain ⟨a, b, c, e⟩ := ih (d+1)
      refine ⟨by omega, by omega, fun hlt => c (by omega), ?_⟩
      intro e' h1 h2
      by_cases he : e' = d
      · subst he; exact h
      · exact e e' (by omega) h2

/-- for `n ≤ 2^63` … `2^64`: `intLog n` is the least `d` with `n ≤ 2^d`. -/
theorem le_pow_intLog (n : Nat) (h : n ≤ 2 ^ 64) : n ≤ 2 ^ intLog n := by
  unfold intLog
  obtain ⟨_, b, c, _⟩ := intLogAux_spec 64 0 n
  by_cases hlt : intLogAux 64 0 n < 0 + 64
  · exact c hlt
  · have : intLogAux 64 0 n = 64 := by omega
    rw [this]; exact h

theorem intLog_le (n d : Nat) (h : n ≤ 2 ^ d) : intLog n ≤ d := by
  unfold intLog
  obtain ⟨_, _, _, e⟩ := intLogAux_spec 64 0 n
  apply Nat.le_of_not_lt
  intro hlt
  exact e d (by omega) hlt h

theorem intLog_le_64 (n : Nat) : intLog n ≤ 64 := by
  unfold intLog
  obtain ⟨_, b, _, _⟩ := intLogAux_spec 64 0 n
  omega

theorem intLog_pow (k : Nat) (hk : k ≤ 64) : intLog (2 ^ k) = k := by
  apply Nat.le_antisymm
  · exact intLog_le _ _ (Nat.le_refl _)
  · have h1 := le_pow_intLog (2 ^ k) (Nat.pow_le_pow_right (by decide) hk)
    exact (Nat.pow_le_pow_iff_right (by decide)).1 h1

/-! ## packing factors -/

/-- The packing factor, when present, is a power of two not exceeding 32 (`tree_hash`'s basic
types: 1, 2, 4, 8, 16, 32 values per 32-byte chunk). -/
def PfOK (pf : Option Nat) : Prop := ∀ p, pf = some p → ∃ k, k ≤ 5 ∧ p = 2 ^ k

/-- values per depth-0 node -/
def lcap (pf : Option Nat) : Nat := pf.getD 1
/-- element capacity of a subtree of depth `d` -/
def cap (pf : Option Nat) (d : Nat) : Nat := 2 ^ d * lcap pf

theorem lcap_eq_pow (pf : Option Nat) (h : PfOK pf) : lcap pf = 2 ^ pdOf pf := by
  cases pf with
  | none => simp [lcap, pdOf]
  | some p =>
    obtain ⟨k, hk, rfl⟩ := h p rfl
    simp [lcap, pdOf, intLog_pow k (by omega)]

theorem cap_eq_pow (pf : Option Nat) (h : PfOK pf) (d : Nat) : cap pf d = 2 ^ (d + pdOf pf) := by
  unfold cap; rw [lcap_eq_pow pf h, Nat.pow_add]

theorem lcap_pos (pf : Option Nat) (h : PfOK pf) : 0 < lcap pf := by
  rw [lcap_eq_pow pf h]; exact Nat.pow_pos (by decide)

theorem cap_pos (pf : Option Nat) (h : PfOK pf) (d : Nat) : 0 < cap pf d := by
  rw [cap_eq_pow pf h]; exact Nat.pow_pos (by decide)

theorem cap_succ (pf : Option Nat) (d : Nat) : cap pf (d+1) = 2 * cap pf d := by
  unfold cap; rw [Nat.pow_succ]; ac_rfl

theorem cap_zero (pf : Option Nat) : cap pf 0 = lcap pf := by simp [cap]

theorem pdOf_le (pf : Option Nat) (h : PfOK pf) : pdOf pf ≤ 5 := by
  cases pf with
  | none => simp [pdOf]
  | some p =>
    obtain ⟨k, hk, rfl⟩ := h p rfl
    simp [pdOf, intLog_pow k (by omega)]; exact hk

end Milhouse
