import Milhouse.Proofs.Ssz
/-!
# C12 — the element-codec laws are closed under nesting

`C12_*` are stated for an abstract element codec satisfying `CodecOK`.  The quantifier of C12 ranges
over "composite and variable-size containers", among them collections used *as elements* of an
outer collection (`List<List<u8, U8>, U4>`, `List<Vector<u64, U8>, N>` …: the kinds `nest`, `nest2`,
`nestv` of the correspondence).  This file discharges `CodecOK` for those kinds *from* `CodecOK` of
the inner element, so the hypothesis of the C12 theorems is met at every nesting depth by induction
on the type, not assumed afresh per kind:

* `nestedListElem E N`   — an inner `List<T, N>` as element (variable size: `fixedLen = none`);
* `nestedVectorElem E N` — an inner `Vector<T, N>` of *fixed-size* `T` as element
  (`fixedLen = some (k * N)`, `vector.rs` `ssz_fixed_len`).

Carriers are subtypes, as in `sszExFixed2`: the values of the nested kind are exactly the in-bounds
sequences (`length ≤ N`, resp. `= N`).  For the list kind the carrier also asks that the encoding is
shorter than `2^32` bytes — the range in which four-byte offsets can address it, and the range in
which an inner value can occur inside an outer encoding that itself satisfies the size hypothesis
of `C12_roundtrip_items`; the decoder of the nested kind rejects longer strings (the code would
accept a ≥ 4 GiB string of fixed-size items as a top-level list; as an *element* such a value
cannot be written by the four-byte offset table).
-/
namespace Milhouse
variable {T H : Type}

/-- the values of an inner `List<T, N>` used as an element. -/
def NestedSeq (E : Elem T H) (N : Nat) : Type :=
  {xs : List T // xs.length ≤ N ∧ (sszEncode E xs).length < 2 ^ 32}

/-- `List::<T, N>::from_ssz_bytes` as the element decoder of the outer collection. -/
def nestedListDec (E : Elem T H) (N : Nat) (bs : List UInt8) : Option (NestedSeq E N) :=
  match sszDecodeItems E N bs with
  | none => none
  | some xs =>
    if h : xs.length ≤ N ∧ (sszEncode E xs).length < 2 ^ 32 then some ⟨xs, h⟩ else none

/-- an inner `List<T, N>` as an element kind: variable size, encoded by `ssz_append`, decoded by
`from_ssz_bytes`.  The hash functions are parameters (C12 does not mention them). -/
def nestedListElem (E : Elem T H) (N : Nat) (leafHash : NestedSeq E N → H)
    (packHash : List (NestedSeq E N) → H) : Elem (NestedSeq E N) H where
  pf := none
  leafHash := leafHash
  packHash := packHash
  fixedLen := none
  enc := fun x => sszEncode E x.1
  dec := nestedListDec E N

/-- **C12 (nesting, lists)**: if the inner element codec satisfies the codec laws, so does the
codec of `List<T, N>` used as an element. -/
theorem C12_nested_list_codecOK {E : Elem T H} (hE : CodecOK E) (N : Nat)
    (lh : NestedSeq E N → H) (ph : List (NestedSeq E N) → H) :
    CodecOK (nestedListElem E N lh ph) where
  dec_enc := by
    intro x
    obtain ⟨xs, hx⟩ := x
    have hrt := C12_roundtrip_items hE N xs hx.1 hx.2
    simp only [nestedListElem, nestedListDec, hrt]
    rw [dif_pos hx]
  enc_dec := by
    intro bs x h
    simp only [nestedListElem, nestedListDec] at h ⊢
    cases hd : sszDecodeItems E N bs with
    | none => rw [hd] at h; cases h
    | some xs =>
      rw [hd] at h
      simp only at h
      split at h
      · cases h
        exact (C12_strict hE N bs xs hd).1
      · cases h
  fixed_len := by intro k x h; simp [nestedListElem] at h
  fixed_pos := by intro k h; simp [nestedListElem] at h

/-- the outer round trip for a list of lists, for every inner codec satisfying the laws: the
hypothesis of `C12_roundtrip_items` is discharged by `C12_nested_list_codecOK`. -/
theorem C12_nested_list_roundtrip {E : Elem T H} (hE : CodecOK E) (N M : Nat)
    (lh : NestedSeq E N → H) (ph : List (NestedSeq E N) → H) (xss : List (NestedSeq E N))
    (hM : xss.length ≤ M) (h32 : (sszEncode (nestedListElem E N lh ph) xss).length < 2 ^ 32) :
    sszDecodeItems (nestedListElem E N lh ph) M (sszEncode (nestedListElem E N lh ph) xss)
      = some xss :=
  C12_roundtrip_items (C12_nested_list_codecOK hE N lh ph) M xss hM h32

/-- the outer strictness for a list of lists: an accepted byte string is the canonical encoding of
the decoded sequence of in-bounds inner sequences. -/
theorem C12_nested_list_strict {E : Elem T H} (hE : CodecOK E) (N M : Nat)
    (lh : NestedSeq E N → H) (ph : List (NestedSeq E N) → H) (bs : List UInt8)
    (xss : List (NestedSeq E N))
    (h : sszDecodeItems (nestedListElem E N lh ph) M bs = some xss) :
    sszEncode (nestedListElem E N lh ph) xss = bs ∧ xss.length ≤ M ∧
      ∀ xs ∈ xss, xs.1.length ≤ N :=
  let r := C12_strict (C12_nested_list_codecOK hE N lh ph) M bs xss h
  ⟨r.1, r.2, fun xs _ => xs.2.1⟩

/-- two levels (`List<List<List<T, N>, M>, K>`): the closure theorem applied twice. -/
theorem C12_nested_twice_codecOK {E : Elem T H} (hE : CodecOK E) (N M : Nat)
    (lh : NestedSeq E N → H) (ph : List (NestedSeq E N) → H)
    (lh2 : NestedSeq (nestedListElem E N lh ph) M → H)
    (ph2 : List (NestedSeq (nestedListElem E N lh ph) M) → H) :
    CodecOK (nestedListElem (nestedListElem E N lh ph) M lh2 ph2) :=
  C12_nested_list_codecOK (C12_nested_list_codecOK hE N lh ph) M lh2 ph2

/-! ## An inner `Vector<T, N>` of fixed-size items as element -/

/-- the values of an inner `Vector<T, N>` used as an element. -/
def NestedVec (_E : Elem T H) (N : Nat) : Type := {xs : List T // xs.length = N}

/-- `Vector::<T, N>::from_ssz_bytes` as the element decoder of the outer collection: decode as a
list of at most `N` items, then require exactly `N` (`vector.rs:372-380`). -/
def nestedVectorDec (E : Elem T H) (N : Nat) (bs : List UInt8) : Option (NestedVec E N) :=
  match sszDecodeItems E N bs with
  | none => none
  | some xs => if h : xs.length = N then some ⟨xs, h⟩ else none

/-- an inner `Vector<T, N>` over fixed-size `T` (`ssz_fixed_len = k * N`). -/
def nestedVectorElem (E : Elem T H) (N k : Nat) (leafHash : NestedVec E N → H)
    (packHash : List (NestedVec E N) → H) : Elem (NestedVec E N) H where
  pf := none
  leafHash := leafHash
  packHash := packHash
  fixedLen := some (k * N)
  enc := fun x => sszEncode E x.1
  dec := nestedVectorDec E N

/-- **C12 (nesting, vectors)**: for a fixed-size inner codec (`fixedLen = some k`) satisfying the
laws and `N ≥ 1`, the codec of `Vector<T, N>` used as an element satisfies them, with fixed length
`k * N`. -/
theorem C12_nested_vector_codecOK {E : Elem T H} (hE : CodecOK E) {k : Nat}
    (hk : E.fixedLen = some k) (N : Nat) (hN : 0 < N)
    (lh : NestedVec E N → H) (ph : List (NestedVec E N) → H) :
    CodecOK (nestedVectorElem E N k lh ph) where
  dec_enc := by
    intro x
    obtain ⟨xs, hx⟩ := x
    have hrt := C12_roundtrip_items_fixed hE hk N xs (by omega)
    simp only [nestedVectorElem, nestedVectorDec, hrt]
    rw [dif_pos hx]
  enc_dec := by
    intro bs x h
    simp only [nestedVectorElem, nestedVectorDec] at h ⊢
    cases hd : sszDecodeItems E N bs with
    | none => rw [hd] at h; cases h
    | some xs =>
      rw [hd] at h
      simp only at h
      split at h
      · cases h
        exact (C12_strict hE N bs xs hd).1
      · cases h
  fixed_len := by
    intro k' x h
    simp only [nestedVectorElem, Option.some.injEq] at h ⊢
    have hl := C12_len hE x.1
    simp only [sszBytesLen, hk] at hl
    rw [← h, ← hl, x.2]
  fixed_pos := by
    intro k' h
    simp only [nestedVectorElem, Option.some.injEq] at h
    have := hE.fixed_pos k hk
    rw [← h]
    exact Nat.mul_pos this hN

/-- a list of vectors (`List<Vector<u64, U8>, M>`, kind `nestv`): fixed-size round trip, no size
hypothesis needed. -/
theorem C12_nested_vector_roundtrip {E : Elem T H} (hE : CodecOK E) {k : Nat}
    (hk : E.fixedLen = some k) (N M : Nat) (hN : 0 < N)
    (lh : NestedVec E N → H) (ph : List (NestedVec E N) → H) (xss : List (NestedVec E N))
    (hM : xss.length ≤ M) :
    sszDecodeItems (nestedVectorElem E N k lh ph) M (sszEncode (nestedVectorElem E N k lh ph) xss)
      = some xss :=
  C12_roundtrip_items_fixed (C12_nested_vector_codecOK hE hk N hN lh ph) rfl M xss hM

/-! ## An inner `Vector<T, N>` of variable-size items as element -/

/-- the values of an inner `Vector<T, N>` of variable-size items used as an element. -/
def NestedVecVar (E : Elem T H) (N : Nat) : Type :=
  {xs : List T // xs.length = N ∧ (sszEncode E xs).length < 2 ^ 32}

/-- `Vector::<T, N>::from_ssz_bytes` for variable-size `T` as the element decoder. -/
def nestedVectorVarDec (E : Elem T H) (N : Nat) (bs : List UInt8) : Option (NestedVecVar E N) :=
  match sszDecodeItems E N bs with
  | none => none
  | some xs =>
    if h : xs.length = N ∧ (sszEncode E xs).length < 2 ^ 32 then some ⟨xs, h⟩ else none

/-- an inner `Vector<T, N>` over variable-size `T`: itself variable size. -/
def nestedVectorVarElem (E : Elem T H) (N : Nat) (leafHash : NestedVecVar E N → H)
    (packHash : List (NestedVecVar E N) → H) : Elem (NestedVecVar E N) H where
  pf := none
  leafHash := leafHash
  packHash := packHash
  fixedLen := none
  enc := fun x => sszEncode E x.1
  dec := nestedVectorVarDec E N

/-- **C12 (nesting, vectors of variable-size items)**: `Vector<List<…>, N>` as an element. -/
theorem C12_nested_vector_var_codecOK {E : Elem T H} (hE : CodecOK E) (N : Nat)
    (lh : NestedVecVar E N → H) (ph : List (NestedVecVar E N) → H) :
    CodecOK (nestedVectorVarElem E N lh ph) where
  dec_enc := by
    intro x
    obtain ⟨xs, hx⟩ := x
    have hrt := C12_roundtrip_items hE N xs (by omega) hx.2
    simp only [nestedVectorVarElem, nestedVectorVarDec, hrt]
    rw [dif_pos hx]
  enc_dec := by
    intro bs x h
    simp only [nestedVectorVarElem, nestedVectorVarDec] at h ⊢
    cases hd : sszDecodeItems E N bs with
    | none => rw [hd] at h; cases h
    | some xs =>
      rw [hd] at h
      simp only at h
      split at h
      · cases h
        exact (C12_strict hE N bs xs hd).1
      · cases h
  fixed_len := by intro k x h; simp [nestedVectorVarElem] at h
  fixed_pos := by intro k h; simp [nestedVectorVarElem] at h

/-! ## Non-vacuity: concrete nested kinds over the example codecs of `Ssz.lean` -/

/-- `List<List<[u8;2], 3>, 2>` over the fixed-size example codec: a concrete value, its codec
satisfies the laws, and the nested round trip holds for it. -/
example :
    let E := sszExFixed2
    let inner : NestedSeq E 3 := ⟨[⟨[1, 2], rfl⟩, ⟨[3, 4], rfl⟩], by decide⟩
    CodecOK (nestedListElem E 3 (fun _ => ()) (fun _ => ())) ∧
      (nestedListElem E 3 (fun _ => ()) (fun _ => ())).dec
        ((nestedListElem E 3 (fun _ => ()) (fun _ => ())).enc inner) = some inner := by
  intro E inner
  exact ⟨C12_nested_list_codecOK sszExFixed2_ok 3 _ _,
    (C12_nested_list_codecOK sszExFixed2_ok 3 _ _).dec_enc inner⟩

/-- the shape of the correspondence's `nest2` kind, `List<List<u8, U8>, U4>`, over the variable-size
example codec: a concrete two-item value decodes back from its offset-table encoding, and a list of
such lists (three levels of nesting in all) round-trips through the outer offset table. -/
example :
    let E := sszExVar
    let K := nestedListElem E 4 (fun _ => ()) (fun _ => ())
    let v : NestedSeq E 4 := ⟨[⟨[7], by decide⟩, ⟨[8, 9, 10], by decide⟩], by decide⟩
    let w : NestedSeq E 4 := ⟨[], by decide⟩
    K.dec (K.enc v) = some v ∧ sszDecodeItems K 2 (sszEncode K [v, w]) = some [v, w] := by
  intro E K v w
  refine ⟨(C12_nested_list_codecOK sszExVar_ok 4 _ _).dec_enc v, ?_⟩
  exact C12_nested_list_roundtrip sszExVar_ok 4 2 _ _ [v, w] (by decide) (by decide)

example : CodecOK (nestedVectorElem sszExFixed2 4 2 (fun _ => ()) (fun _ => ())) :=
  C12_nested_vector_codecOK sszExFixed2_ok rfl 4 (by decide) _ _

end Milhouse
