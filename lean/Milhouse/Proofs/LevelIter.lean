import Milhouse.Proofs.CollInv
/-!
# The level iterator (`level_iter.rs`) — C11 (level part), C10 (items are the old nodes)

`LevelIter.next` (transliteration of `level_iter.rs:65-161`) walks the tree like `Iter.next` but
stops at the nodes whose height (in element bits) equals `level`, yields the node itself and
advances the index by `2^level`. For ANY well-formed tree and any `2^level`-aligned index on a
zero-free path it returns exactly the node `descend … index (D - s)` (`s = level - pd` the tree
depth of the yielded nodes), never reports a `debug_assert`/underflow panic, and keeps its stack
equal to a path towards the new index. At `level = 0 < pd` it coincides with `Iter.next`
(packed values one by one).
-/
namespace Milhouse
variable {T H : Type}

/-! ## Arithmetic: advancing by `2^ℓ` -/

theorem li_tzr_add_pow (i ℓ : Nat) (hd : 2 ^ ℓ ∣ i) :
    tzr (i + 2 ^ ℓ) = tzr (i / 2 ^ ℓ + 1) + ℓ := by
  obtain ⟨q, rfl⟩ := hd
  have hp : 0 < 2 ^ ℓ := Nat.pow_pos (by decide)
  rw [Nat.mul_div_cancel_left _ hp]
  have : 2 ^ ℓ * q + 2 ^ ℓ = (q + 1) * 2 ^ ℓ := by
    rw [Nat.add_mul, Nat.one_mul, Nat.mul_comm]
  rw [this, tzr_mul_pow _ _ (Nat.succ_ne_zero _)]

/-- `i` and `i + 2^ℓ` (for `2^ℓ ∣ i`) agree on all bits strictly above `tzr (i + 2^ℓ)`. -/
theorem li_div_add_pow_eq (i ℓ h : Nat) (hd : 2 ^ ℓ ∣ i) (hh : tzr (i + 2 ^ ℓ) < h) :
    (i + 2 ^ ℓ) / 2 ^ h = i / 2 ^ h := by
  rw [li_tzr_add_pow i ℓ hd] at hh
  obtain ⟨q, rfl⟩ := hd
  have hp : 0 < 2 ^ ℓ := Nat.pow_pos (by decide)
  rw [Nat.mul_div_cancel_left _ hp] at hh
  obtain ⟨h', rfl⟩ : ∃ h', h = ℓ + h' := ⟨h - ℓ, by omega⟩
  have e1 : 2 ^ ℓ * q + 2 ^ ℓ = 2 ^ ℓ * (q + 1) := by rw [Nat.mul_add, Nat.mul_one]
  rw [e1, Nat.pow_add, ← Nat.div_div_eq_div_mul, ← Nat.div_div_eq_div_mul,
    Nat.mul_div_cancel_left _ hp, Nat.mul_div_cancel_left _ hp]
  exact div_succ_eq q h' (by omega)

theorem li_le_tzr_add_pow (i ℓ : Nat) (hd : 2 ^ ℓ ∣ i) : ℓ ≤ tzr (i + 2 ^ ℓ) := by
  rw [li_tzr_add_pow i ℓ hd]; omega

theorem li_dvd_add_pow (i ℓ : Nat) (hd : 2 ^ ℓ ∣ i) : 2 ^ ℓ ∣ i + 2 ^ ℓ :=
  Nat.dvd_add hd (Nat.dvd_refl _)

/-! ## The level-iterator invariant -/

/-- state invariant of `LevelIter` at level `s + pd`: the stack is a prefix (at most `D - s`
descents) of the path towards `index`, or the walk is over. -/
def LPathOK (pf : Option Nat) (root : Tree T) (D s length : Nat) (st : IterState T) : Prop :=
  (st.stack = [] ∧ length ≤ st.index) ∨
  ∃ k, k ≤ D - s ∧ st.stack = pathStack (pdOf pf) root D st.index k

theorem LPathOK.fromIndex (pf : Option Nat) (root : Tree T) (D s length i : Nat) :
    LPathOK pf root D s length (Iter.fromIndex i root) :=
  Or.inr ⟨0, Nat.zero_le _, rfl⟩

/-- popping `tz (i + 2^ℓ) + 1 - ℓ` frames from the path of `D - s` descents towards `i` gives a
path towards `i + 2^ℓ`. -/
theorem lpop_pathOK (pf : Option Nat) (root : Tree T) (D s ℓ length i : Nat)
    (hℓ : ℓ = s + pdOf pf) (hs : s ≤ D) (hlen : length ≤ 2 ^ (D + pdOf pf)) (hd : 2 ^ ℓ ∣ i) :
    LPathOK pf root D s length
      ⟨(pathStack (pdOf pf) root D i (D - s)).drop (tzr (i + 2 ^ ℓ) + 1 - ℓ), i + 2 ^ ℓ⟩ := by
  have hle := li_le_tzr_add_pow i ℓ hd
  by_cases hcase : tzr (i + 2 ^ ℓ) + 1 - ℓ ≤ D - s
  · right
    refine ⟨D - s - (tzr (i + 2 ^ ℓ) + 1 - ℓ), by omega, ?_⟩
    show List.drop _ _ = _
    rw [pathStack_drop _ _ _ _ _ _ hcase]
    symm
    apply pathStack_congr
    intro h hh
    exact li_div_add_pow_eq i ℓ h hd (by omega)
  · left
    refine ⟨?_, ?_⟩
    · show List.drop _ _ = []
      apply List.drop_eq_nil_of_le
      rw [pathStack_length]; omega
    · show length ≤ i + 2 ^ ℓ
      have hdv := tzr_dvd (i + 2 ^ ℓ)
      have hp : 0 < 2 ^ ℓ := Nat.pow_pos (by decide)
      have : 2 ^ (D + pdOf pf) ∣ i + 2 ^ ℓ :=
        Nat.dvd_trans (Nat.pow_dvd_pow 2 (by omega)) hdv
      have := Nat.le_of_dvd (by omega) this
      omega

theorem li_lt_two_pow_64 (pf : Option Nat) (D s ℓ length i : Nat) (hℓ : ℓ = s + pdOf pf)
    (hs : s ≤ D) (hD : D + pdOf pf ≤ 63) (hlen : length ≤ 2 ^ (D + pdOf pf)) (hi : i < length) :
    i + 2 ^ ℓ < 2 ^ 64 := by
  have h1 : 2 ^ (D + pdOf pf) ≤ 2 ^ 63 := Nat.pow_le_pow_right (by decide) hD
  have h2 : 2 ^ ℓ ≤ 2 ^ 63 := Nat.pow_le_pow_right (by decide) (by omega)
  have h3 : (2:Nat) ^ 64 = 2 ^ 63 + 2 ^ 63 := by decide
  omega

theorem getRec_zero_none (pf : Option Nat) (id d i m : Nat) :
    getRec pf (Tree.zero id d : Tree T) i m = none := by
  cases m <;> simp [getRec]

/-- the internal-node case of `LevelIter::next`: from a path of `k ≤ D - s` descents towards an
aligned, readable `index < length` the call yields the depth-`s` node on the path and moves to the
next aligned index. -/
theorem lnext_core (pf : Option Nat) (hpf : PfOK pf) (root : Tree T) (D s ℓ length : Nat)
    (hwf : WFTree pf root D) (hℓ : ℓ = s + pdOf pf) (hs : s ≤ D)
    (hD : D + pdOf pf ≤ 63) (hlen : length ≤ cap pf D) :
    ∀ (n k fuel : Nat) (st : IterState T), n = D - s - k → k ≤ D - s → n < fuel →
      st.stack = pathStack (pdOf pf) root D st.index k → st.index < length →
      2 ^ ℓ ∣ st.index → (getRec pf root st.index D).isSome →
      ∃ st', LevelIter.next pf D ℓ length fuel st =
          .ok (some (.internal (descend (pdOf pf) root D st.index (D - s))), st') ∧
        st'.index = st.index + 2 ^ ℓ ∧ LPathOK pf root D s length st' := by
  rw [cap_eq_pow pf hpf] at hlen
  intro n
  induction n with
  | zero =>
    intro k fuel st hn hk hf hst hi hdv hsome
    have hkD : D - s = k := by omega
    have hDk : D - k = s := by omega
    have h64 := li_lt_two_pow_64 pf D s ℓ length st.index hℓ hs hD hlen hi
    have hp : 0 < 2 ^ ℓ := Nat.pow_pos (by decide)
    have htz : tz (st.index + 2 ^ ℓ) = tzr (st.index + 2 ^ ℓ) := tz_eq_tzr _ (by omega) h64
    have hle := li_le_tzr_add_pow st.index ℓ hdv
    have hpop := lpop_pathOK pf root D s ℓ length st.index hℓ hs hlen hdv
    rw [hkD] at hpop ⊢
    obtain ⟨rest, hrest⟩ := pathStack_head (pdOf pf) root D st.index k
    obtain ⟨hw, hg⟩ := descend_spec hwf st.index k (by omega)
    have hrl : rest.length = k := by
      have := congrArg List.length hrest
      rw [pathStack_length] at this; simpa using this.symm
    have hkDs : k + s = D := by omega
    clear hkD hn hk
    cases fuel with
    | zero => omega
    | succ fuel =>
      rw [hDk] at hw hg
      clear hDk
      generalize htop : descend (pdOf pf) root D st.index k = top at hw hrest hg
      rcases hw with hw | ⟨id, d, rfl⟩
      · cases hw with
        | zero id =>
          rw [getRec_zero_none] at hg; rw [← hg] at hsome; cases hsome
        | leaf id v hnone =>
          subst hnone
          have hℓ0 : ℓ = 0 := by simpa [pdOf] using hℓ
          subst hℓ0
          refine ⟨⟨st.stack.drop (tz (st.index + 1) + 1), st.index + 1⟩, ?_, rfl, ?_⟩
          · simp [LevelIter.next, Nat.not_le.mpr hi, hst, hrest]
          · have h1 : tz (st.index + 1) = tzr (st.index + 1) := by simpa using htz
            rw [hst, h1]
            simpa using hpop
        | packed id p vs hsome' hl1 hl2 =>
          subst hsome'
          refine ⟨⟨st.stack.drop (tz (st.index + 2 ^ ℓ) + 1 - ℓ), st.index + 2 ^ ℓ⟩, ?_, rfl, ?_⟩
          · have hnd : D + pdOf (some p) + 1 - (k + 1) = ℓ := by omega
            have hnu : ¬ (D + pdOf (some p) + 1 < k + 1) := by omega
            simp [LevelIter.next, Nat.not_le.mpr hi, hst, hrest, hrl, hnd, hnu, htz,
              Nat.not_lt.mpr hle]
          · rw [hst, htz]; exact hpop
        | @node id l r h' hl hr =>
          refine ⟨⟨st.stack.drop (tz (st.index + 2 ^ ℓ) + 1 - ℓ), st.index + 2 ^ ℓ⟩, ?_, rfl, ?_⟩
          · have hnd : D + pdOf pf - (k + 1) + 1 = ℓ := by omega
            have hnu : ¬ (D + pdOf pf < k + 1) := by omega
            simp [LevelIter.next, Nat.not_le.mpr hi, hst, hrest, hrl, hnd, hnu, htz,
              Nat.not_lt.mpr hle]
          · rw [hst, htz]; exact hpop
      · rw [getRec_zero_none] at hg; rw [← hg] at hsome; cases hsome
  | succ n ih =>
    intro k fuel st hn hk hf hst hi hdv hsome
    obtain ⟨rest, hrest⟩ := pathStack_head (pdOf pf) root D st.index k
    obtain ⟨hw, hg⟩ := descend_spec hwf st.index k (by omega)
    have hrl : rest.length = k := by
      have := congrArg List.length hrest
      rw [pathStack_length] at this; simpa using this.symm
    cases fuel with
    | zero => omega
    | succ fuel =>
      have hDk : D - k = (D - (k+1)) + 1 := by omega
      generalize htop : descend (pdOf pf) root D st.index k = top at hw hrest hg
      rw [hDk] at hw hg
      rcases hw with hw | ⟨id, d, rfl⟩
      · generalize hm : D - (k+1) + 1 = m1 at hw
        cases hw with
        | leaf => omega
        | packed => omega
        | zero id d =>
          rw [getRec_zero_none] at hg; rw [← hg] at hsome; cases hsome
        | @node id l r h' hl hr =>
          have hh' : h' = D - (k+1) := by omega
          subst hh'
          have hchild : descend (pdOf pf) root D st.index (k+1) =
              if (st.index / 2 ^ (D - (k+1) + pdOf pf)) % 2 = 0 then l else r := by
            simp [descend, htop, child]
          have hnu : ¬ (D + pdOf pf < k + 1) := by omega
          have hnd : ¬ (D - (k + 1) + pdOf pf + 1 = ℓ) := by omega
          have hcd : D + pdOf pf - (k + 1) = D - (k + 1) + pdOf pf := by omega
          by_cases hb : (st.index / 2 ^ (D - (k+1) + pdOf pf)) % 2 = 0
          · have hstep : LevelIter.next pf D ℓ length (fuel+1) st =
                LevelIter.next pf D ℓ length fuel ⟨l :: st.stack, st.index⟩ := by
              simp [LevelIter.next, Nat.not_le.mpr hi, hst, hrest, hrl, hnu, hnd, hcd, hb]
            rw [hstep]
            exact ih (k+1) fuel ⟨l :: st.stack, st.index⟩ (by omega) (by omega) (by omega)
              (by simp only [pathStack, hchild, hb, if_true, hst]) hi hdv hsome
          · have hstep : LevelIter.next pf D ℓ length (fuel+1) st =
                LevelIter.next pf D ℓ length fuel ⟨r :: st.stack, st.index⟩ := by
              simp [LevelIter.next, Nat.not_le.mpr hi, hst, hrest, hrl, hnu, hnd, hcd, hb]
            rw [hstep]
            exact ih (k+1) fuel ⟨r :: st.stack, st.index⟩ (by omega) (by omega) (by omega)
              (by simp only [pathStack, hchild, hb, if_false, hst]) hi hdv hsome
      · rw [getRec_zero_none] at hg; rw [← hg] at hsome; cases hsome

/-- **`LevelIter::next`, internal level** (`level = s + pd`, `s ≤ D` the tree depth of the nodes
on that level; `s = 0` are the leaves / packed leaves). For any tree well formed for depth `D`,
any state whose stack is a path prefix towards an aligned `index < length` that can be read
(`getRec` is `some`, i.e. the path does not run into a `zero`): the call succeeds (none of the
`debug_assert`s, no underflow, no fuel exhaustion), yields the node of depth `s` above `index`
*as a `Tree` value of the old tree*, advances the index by `2^level` and leaves a path prefix
towards the new index. -/
theorem LevelIter.next_spec (pf : Option Nat) (hpf : PfOK pf) (root : Tree T) (D s ℓ length : Nat)
    (hwf : WFTree pf root D) (hℓ : ℓ = s + pdOf pf) (hs : s ≤ D)
    (hD : D + pdOf pf ≤ 63) (hlen : length ≤ cap pf D)
    (st : IterState T) (hst : LPathOK pf root D s length st) (hi : st.index < length)
    (hdv : 2 ^ ℓ ∣ st.index) (hsome : (getRec pf root st.index D).isSome) :
    ∃ st', LevelIter.next pf D ℓ length (D + 2) st =
        .ok (some (.internal (descend (pdOf pf) root D st.index (D - s))), st') ∧
      st'.index = st.index + 2 ^ ℓ ∧ LPathOK pf root D s length st' := by
  rcases hst with ⟨_, h⟩ | ⟨k, hk, hstk⟩
  · omega
  · exact lnext_core pf hpf root D s ℓ length hwf hℓ hs hD hlen (D - s - k) k (D + 2) st rfl hk
      (by omega) hstk hi hdv hsome

/-- past the end the level iterator answers `None` and does not move. -/
theorem LevelIter.next_done (pf : Option Nat) (D ℓ length fuel : Nat) (st : IterState T)
    (h : length ≤ st.index) : LevelIter.next pf D ℓ length (fuel + 1) st = .ok (none, st) := by
  simp [LevelIter.next, h]

/-! ## Draining: the internal levels -/

/-- number of level-`ℓ` items from the aligned index `i`: `ceil((length - i) / 2^ℓ)`. -/
def levelCount (length ℓ i : Nat) : Nat := (length - i + 2 ^ ℓ - 1) / 2 ^ ℓ

theorem levelCount_done (length ℓ i : Nat) (h : length ≤ i) : levelCount length ℓ i = 0 := by
  unfold levelCount
  have hp : 0 < 2 ^ ℓ := Nat.pow_pos (by decide)
  rw [show length - i + 2 ^ ℓ - 1 = 2 ^ ℓ - 1 by omega]
  exact Nat.div_eq_of_lt (by omega)

theorem levelCount_step (length ℓ i : Nat) (h : i < length) :
    levelCount length ℓ i = levelCount length ℓ (i + 2 ^ ℓ) + 1 := by
  unfold levelCount
  have hp : 0 < 2 ^ ℓ := Nat.pow_pos (by decide)
  generalize 2 ^ ℓ = w at hp
  rw [show length - i + w - 1 = (length - i - 1) + w by omega, Nat.add_div_right _ hp]
  congr 1
  by_cases hc : i + w ≤ length
  · congr 1; omega
  · rw [show length - (i + w) + w - 1 = w - 1 by omega, Nat.div_eq_of_lt (by omega),
      Nat.div_eq_of_lt (by omega)]

theorem levelCount_le (length ℓ i : Nat) : levelCount length ℓ i ≤ length - i := by
  unfold levelCount
  have hp : 0 < 2 ^ ℓ := Nat.pow_pos (by decide)
  generalize 2 ^ ℓ = w at hp
  by_cases h : length - i = 0
  · rw [h, Nat.zero_add, Nat.div_eq_of_lt (by omega)]; omega
  · rw [Nat.div_le_iff_le_mul_add_pred hp]
    have : length - i ≤ w * (length - i) := Nat.le_mul_of_pos_left _ hp
    omega

/-- the items of a level walk from the aligned index `i`: the depth-`s` nodes above
`i, i + 2^ℓ, …` of the old tree. -/
def levelItems (pd : Nat) (root : Tree T) (D s ℓ length i : Nat) : List (LevelNode T) :=
  (List.range (levelCount length ℓ i)).map
    (fun k => LevelNode.internal (descend pd root D (i + k * 2 ^ ℓ) (D - s)))

theorem levelItems_done (pd : Nat) (root : Tree T) (D s ℓ length i : Nat) (h : length ≤ i) :
    levelItems pd root D s ℓ length i = [] := by
  simp [levelItems, levelCount_done length ℓ i h]

theorem levelItems_step (pd : Nat) (root : Tree T) (D s ℓ length i : Nat) (h : i < length) :
    levelItems pd root D s ℓ length i =
      LevelNode.internal (descend pd root D i (D - s)) ::
        levelItems pd root D s ℓ length (i + 2 ^ ℓ) := by
  unfold levelItems
  rw [levelCount_step length ℓ i h, List.range_succ_eq_map, List.map_cons, List.map_map]
  congr 1
  · simp
  · apply List.map_congr_left
    intro k _
    simp only [Function.comp]
    congr 2
    rw [Nat.succ_mul]; omega

/-- **draining the level iterator on an internal level**: every item until the first `None`, for
any well-formed tree in which every index below `length` is readable. No error. -/
theorem lcollect_core (pf : Option Nat) (hpf : PfOK pf) (root : Tree T) (D s ℓ length : Nat)
    (hwf : WFTree pf root D) (hℓ : ℓ = s + pdOf pf) (hs : s ≤ D)
    (hD : D + pdOf pf ≤ 63) (hlen : length ≤ cap pf D)
    (hread : ∀ i, i < length → (getRec pf root i D).isSome) :
    ∀ (fuel : Nat) (st : IterState T), LPathOK pf root D s length st → 2 ^ ℓ ∣ st.index →
      levelCount length ℓ st.index ≤ fuel →
      LevelIter.collect pf D ℓ length fuel st =
        .ok (levelItems (pdOf pf) root D s ℓ length st.index) := by
  intro fuel
  induction fuel with
  | zero =>
    intro st _ _ hc
    have : levelCount length ℓ st.index = 0 := by omega
    simp [LevelIter.collect, levelItems, this]
  | succ fuel ih =>
    intro st hst hdv hc
    by_cases hi : st.index < length
    · obtain ⟨st', hnext, hidx, hst'⟩ := LevelIter.next_spec pf hpf root D s ℓ length hwf hℓ hs hD
        hlen st hst hi hdv (hread _ hi)
      rw [levelCount_step length ℓ st.index hi] at hc
      rw [levelItems_step _ _ _ _ _ _ _ hi]
      simp only [LevelIter.collect, hnext]
      rw [ih st' hst' (by rw [hidx]; exact li_dvd_add_pow _ _ hdv) (by rw [hidx]; omega), hidx]
    · rw [levelItems_done _ _ _ _ _ _ _ (by omega)]
      simp only [LevelIter.collect, LevelIter.next_done pf D ℓ length (D+1) st (by omega)]

/-! ## Level 0 below the packing depth: packed values one by one -/

/-- the shape of either iterator's stack on a path in a well-formed tree. -/
def StackWF (pf : Option Nat) (D : Nat) (stack : List (Tree T)) : Prop :=
  stack = [] ∨ ∃ top rest, stack = top :: rest ∧
    ((∃ d, d + rest.length = D ∧ WFTree pf top d) ∨ ∃ id d, top = Tree.zero id d)

/-- for a packed kind with `pd > 0`, `LevelIter::next` at level 0 is `Iter::next` with the value
wrapped in `PackedLeaf`: same outcome, same successor state. -/
theorem lnext_packed_sim (p : Nat) (hpd : 0 < pdOf (some p)) (D length : Nat) :
    ∀ (fuel : Nat) (st : IterState T), StackWF (some p) D st.stack →
      LevelIter.next (some p) D 0 length fuel st =
        match Iter.next (some p) D length fuel st with
        | .ok (o, st') => .ok (o.map LevelNode.packedLeaf, st')
        | .error e => .error e := by
  intro fuel
  induction fuel with
  | zero => intro st _; simp [LevelIter.next, Iter.next]
  | succ fuel ih =>
    intro st hst
    by_cases hi : length ≤ st.index
    · simp [LevelIter.next, Iter.next, hi]
    · rcases hst with hnil | ⟨top, rest, hstk, hwf | ⟨id, d, rfl⟩⟩
      · simp [LevelIter.next, Iter.next, hi, hnil]
      · obtain ⟨d, hd, hwf⟩ := hwf
        cases hwf with
        | leaf id v hnone => cases hnone
        | zero id => simp [LevelIter.next, Iter.next, hi, hstk]
        | packed id p' vs hsome hl1 hl2 =>
          have hnd : ¬ (D + pdOf (some p) - rest.length = 0) := by omega
          have hnu : rest.length ≤ D + pdOf (some p) := by omega
          by_cases hp0 : p = 0
          · subst hp0
            simp [LevelIter.next, Iter.next, hi, hstk, hnd]
          · by_cases hend : st.index % p + 1 = p
            · by_cases htz : tz (st.index + 1) < pdOf (some p)
              · simp [LevelIter.next, Iter.next, hi, hstk, hnd, hp0, hend, htz]
              · simp [LevelIter.next, Iter.next, hi, hstk, hnd, hnu, hp0, hend, htz]
            · simp [LevelIter.next, Iter.next, hi, hstk, hnd, hnu, hp0, hend]
        | @node id l r h' hl hr =>
          have hnu : ¬ (D + pdOf (some p) < rest.length + 1) := by omega
          have hnu' : ¬ (D < rest.length + 1) := by omega
          have hcd : D + pdOf (some p) - (rest.length + 1) = h' + pdOf (some p) := by omega
          have hcd' : D - (rest.length + 1) = h' := by omega
          by_cases hb : st.index / 2 ^ (h' + pdOf (some p)) % 2 = 0
          · have h1 := ih ⟨l :: st.stack, st.index⟩
              (Or.inr ⟨l, st.stack, rfl, Or.inl ⟨h', by simp [hstk]; omega, hl⟩⟩)
            simp [LevelIter.next, Iter.next, hi, hstk, hnu, hnu', hcd, hcd', hb]
            simpa [hstk] using h1
          · have h1 := ih ⟨r :: st.stack, st.index⟩
              (Or.inr ⟨r, st.stack, rfl, Or.inl ⟨h', by simp [hstk]; omega, hr⟩⟩)
            simp [LevelIter.next, Iter.next, hi, hstk, hnu, hnu', hcd, hcd', hb]
            simpa [hstk] using h1
      · simp [LevelIter.next, Iter.next, hi, hstk]

theorem stackWF_of_pathOK (pf : Option Nat) (root : Tree T) (D length : Nat)
    (hwf : WFTree pf root D) (st : IterState T) (hst : PathOK pf root D length st) :
    StackWF pf D st.stack := by
  rcases hst with ⟨h, _⟩ | ⟨k, hk, hstk⟩
  · exact Or.inl h
  · obtain ⟨rest, hrest⟩ := pathStack_head (pdOf pf) root D st.index k
    obtain ⟨hw, _⟩ := descend_spec hwf st.index k hk
    have hrl : rest.length = k := by
      have := congrArg List.length hrest
      rw [pathStack_length] at this; simpa using this.symm
    refine Or.inr ⟨_, rest, hstk.trans hrest, ?_⟩
    rcases hw with hw | hz
    · exact Or.inl ⟨D - k, by omega, hw⟩
    · exact Or.inr hz

/-- **draining the level iterator at level 0 of a packed kind** (`pd > 0`): the values from the
index on, one `PackedLeaf` item each. -/
theorem lcollect_packed (p : Nat) (hpf : PfOK (some p)) (hpd : 0 < pdOf (some p))
    (root : Tree T) (D : Nat) (xs : List T)
    (ht : root.erase = canon (some p) D xs) (hlen : xs.length ≤ cap (some p) D)
    (hD : D + pdOf (some p) ≤ 63) :
    ∀ (n : Nat) (st : IterState T), PathOK (some p) root D xs.length st →
      xs.length - st.index ≤ n →
      LevelIter.collect (some p) D 0 xs.length n st =
        .ok ((xs.drop st.index).map LevelNode.packedLeaf) := by
  have hwf := wf_of_canon (some p) hpf D root xs ht hlen
  intro n
  induction n with
  | zero =>
    intro st _ hn
    simp only [LevelIter.collect]
    rw [List.drop_of_length_le (by omega)]; rfl
  | succ n ih =>
    intro st hs hn
    have hsim := lnext_packed_sim p hpd D xs.length (D + 2) st
      (stackWF_of_pathOK (some p) root D xs.length hwf st hs)
    by_cases hi : st.index < xs.length
    · obtain ⟨st', hnext, hs'⟩ := Iter.next_spec (some p) hpf root D xs.length hwf hD hlen st hs hi
      have hget : getRec (some p) root st.index D = some xs[st.index] := by
        rw [getRec_canon (some p) hpf root D xs ht hlen st.index (by omega)]
        exact List.getElem?_eq_getElem hi
      rw [hget] at hnext hs'
      obtain ⟨hidx, hpath⟩ := hs' rfl
      rw [hnext] at hsim
      simp only [LevelIter.collect, hsim, Option.map_some]
      rw [ih st' hpath (by omega), hidx]
      simp only []
      rw [List.drop_eq_getElem_cons hi, List.map_cons]
    · rw [Iter.next_done (some p) D xs.length (D+1) st (by omega)] at hsim
      simp only [LevelIter.collect, hsim, Option.map_none]
      rw [List.drop_of_length_le (by omega)]; rfl

/-! ## Subtrees at aligned offsets -/

/-- the depth-`s` subtree of `root` (a tree of depth `D`, packing depth `pd`) above element
`index`: follow the bits `D-1+pd … s+pd` of the index from the root. -/
def subtreeAt (pd : Nat) (root : Tree T) (D s index : Nat) : Tree T :=
  descend pd root D index (D - s)

/-- the first step of a descent, seen from the root. -/
theorem descend_node (pd id : Nat) (l r : Tree T) (d i m : Nat) :
    descend pd (Tree.node id l r) (d + 1) i (m + 1) =
      descend pd (if i / 2 ^ (d + pd) % 2 = 0 then l else r) d i m := by
  induction m with
  | zero => simp [descend, child]
  | succ m ih =>
    rw [descend, ih]
    simp only [descend]
    rw [show d + 1 - (m + 1 + 1) = d - (m + 1) by omega]

/-- a descent of `k ≤ D` steps only looks at the bits `D-k+pd … D+pd-1` of the index. -/
theorem descend_congr_bits (pd : Nat) (root : Tree T) (D i i' k : Nat) (hkD : k ≤ D)
    (hk : ∀ h, D - k + pd ≤ h → h < D + pd → i' / 2 ^ h % 2 = i / 2 ^ h % 2) :
    descend pd root D i' k = descend pd root D i k := by
  induction k with
  | zero => rfl
  | succ k ih =>
    simp only [descend]
    rw [ih (by omega) (fun h hh hlt => hk h (by omega) hlt)]
    unfold child
    split
    · rw [hk _ (Nat.le_refl _) (by omega)]
    · rfl

theorem li_mul_pow_div (q a e : Nat) : q * 2 ^ a / 2 ^ (a + e) = q / 2 ^ e := by
  have hp : 0 < 2 ^ a := Nat.pow_pos (by decide)
  rw [Nat.pow_add, ← Nat.div_div_eq_div_mul, Nat.mul_div_cancel _ hp]

theorem descend_unit_left (pd s e id : Nat) (l r : Tree T) (q : Nat) (hq : q < 2 ^ e) :
    descend pd (Tree.node id l r) (s + e + 1) (q * 2 ^ (s + pd)) (e + 1) =
      descend pd l (s + e) (q * 2 ^ (s + pd)) e := by
  rw [descend_node, show s + e + pd = (s + pd) + e by omega, li_mul_pow_div,
    Nat.div_eq_of_lt hq]
  simp

theorem descend_unit_right (pd s e id : Nat) (l r : Tree T) (q : Nat) (hq1 : 2 ^ e ≤ q)
    (hq2 : q < 2 ^ (e + 1)) :
    descend pd (Tree.node id l r) (s + e + 1) (q * 2 ^ (s + pd)) (e + 1) =
      descend pd r (s + e) ((q - 2 ^ e) * 2 ^ (s + pd)) e := by
  have hp : 0 < 2 ^ e := Nat.pow_pos (by decide)
  have hdiv : q / 2 ^ e = 1 := by
    rw [Nat.pow_succ] at hq2
    rw [Nat.div_eq_iff hp]; omega
  rw [descend_node, show s + e + pd = (s + pd) + e by omega, li_mul_pow_div, hdiv]
  simp only [show (1 % 2 = 0) = False by decide, if_false]
  symm
  apply descend_congr_bits _ _ _ _ _ _ (Nat.le_add_left _ _)
  intro h hh hlt
  obtain ⟨e', rfl⟩ : ∃ e', h = (s + pd) + e' := ⟨h - (s + pd), by omega⟩
  have he' : e' < e := by omega
  rw [li_mul_pow_div, li_mul_pow_div]
  have hq : q = (q - 2 ^ e) + 2 ^ e' * 2 ^ (e - e') := by
    rw [← Nat.pow_add, show e' + (e - e') = e by omega]; omega
  conv => rhs; rw [hq]
  rw [Nat.add_mul_div_left _ _ (Nat.pow_pos (by decide))]
  have : 2 ^ (e - e') = 2 * 2 ^ (e - e' - 1) := by
    rw [← Nat.pow_succ']; congr 1; omega
  omega

/-- the shape of the depth-`s` subtree at unit position `q` of a canonical tree is the canonical
tree of the `q`-th block of `cap pf s` elements. -/
theorem descend_unit_erase (pf : Option Nat) (hpf : PfOK pf) (s : Nat) :
    ∀ (e : Nat) (root : Tree T) (xs : List T) (q : Nat), root.erase = canon pf (s + e) xs →
      xs.length ≤ cap pf (s + e) → q * cap pf s < xs.length →
      (descend (pdOf pf) root (s + e) (q * cap pf s) e).erase =
        canon pf s ((xs.drop (q * cap pf s)).take (cap pf s)) := by
  have hc := cap_pos pf hpf s
  intro e
  induction e with
  | zero =>
    intro root xs q ht hlen hq
    have hq0 : q = 0 := by
      rcases Nat.eq_zero_or_pos q with h | h
      · exact h
      · have : cap pf s ≤ q * cap pf s := Nat.le_mul_of_pos_left _ h
        simp only [Nat.add_zero] at hlen; omega
    subst hq0
    simp only [descend, Nat.zero_mul, List.drop_zero]
    rw [List.take_of_length_le (by simpa using hlen)]
    simpa using ht
  | succ e ih =>
    intro root xs q ht hlen hq
    have hC : cap pf (s + e) = 2 ^ e * cap pf s := by
      rw [cap_eq_pow pf hpf, cap_eq_pow pf hpf, ← Nat.pow_add]; congr 1; omega
    have hcs : cap pf s = 2 ^ (s + pdOf pf) := cap_eq_pow pf hpf s
    rw [show s + (e + 1) = (s + e) + 1 by omega, cap_succ] at hlen
    have hq2 : q < 2 ^ (e + 1) := by
      apply Nat.lt_of_not_le
      intro hle
      have : 2 ^ (e + 1) * cap pf s ≤ q * cap pf s := Nat.mul_le_mul_right _ hle
      rw [Nat.pow_succ, Nat.mul_assoc, Nat.mul_comm 2, ← Nat.mul_assoc, ← hC] at this
      omega
    cases xs with
    | nil => simp at hq
    | cons x rest =>
      cases root with
      | leaf => simp [canon, Tree.erase] at ht
      | packed => simp [canon, Tree.erase] at ht
      | zero => simp [canon, Tree.erase] at ht
      | node id l r =>
      rw [show s + (e + 1) = (s + e) + 1 by omega] at ht
      simp only [canon, Tree.erase] at ht
      injection ht with hl hr
      generalize x :: rest = xs at *
      rw [hcs] at hq ⊢
      have ih' : ∀ (root : Tree T) (xs : List T) (q : Nat), root.erase = canon pf (s + e) xs →
          xs.length ≤ cap pf (s + e) → q * 2 ^ (s + pdOf pf) < xs.length →
          (descend (pdOf pf) root (s + e) (q * 2 ^ (s + pdOf pf)) e).erase =
            canon pf s ((xs.drop (q * 2 ^ (s + pdOf pf))).take (2 ^ (s + pdOf pf))) := by
        intro root xs q; have := ih root xs q; rwa [hcs] at this
      rw [hcs] at hC
      rw [show s + (e + 1) = s + e + 1 from rfl]
      by_cases hlt : q < 2 ^ e
      · rw [descend_unit_left _ _ _ _ _ _ _ hlt]
        have hle : (q + 1) * 2 ^ (s + pdOf pf) ≤ cap pf (s + e) := by
          rw [hC]; exact Nat.mul_le_mul_right _ hlt
        rw [Nat.add_mul, Nat.one_mul] at hle
        rw [ih' l _ q hl (by simp only [List.length_take]; omega)
          (by simp only [List.length_take]; omega)]
        rw [List.drop_take, List.take_take, Nat.min_eq_left (by omega)]
      · have hge : 2 ^ e ≤ q := Nat.le_of_not_lt hlt
        rw [descend_unit_right _ _ _ _ _ _ _ hge hq2]
        have hsplit : q * 2 ^ (s + pdOf pf) =
            cap pf (s + e) + (q - 2 ^ e) * 2 ^ (s + pdOf pf) := by
          rw [hC, ← Nat.add_mul]; congr 1; omega
        rw [ih' r _ (q - 2 ^ e) hr (by simp only [List.length_drop]; omega)
          (by simp only [List.length_drop]; omega)]
        rw [List.drop_drop, ← hsplit]

/-- **the items of a level walk have canonical shapes**: in a tree whose shape is the canonical
tree of `xs`, the depth-`s` subtree above an aligned index `i < |xs|` is the canonical tree of
`xs[i .. i + 2^(s+pd))`. -/
theorem subtreeAt_erase (pf : Option Nat) (hpf : PfOK pf) (root : Tree T) (D : Nat) (xs : List T)
    (ht : root.erase = canon pf D xs) (hlen : xs.length ≤ cap pf D) (s : Nat) (hs : s ≤ D)
    (i : Nat) (hdv : 2 ^ (s + pdOf pf) ∣ i) (hi : i < xs.length) :
    (subtreeAt (pdOf pf) root D s i).erase =
      canon pf s ((xs.drop i).take (2 ^ (s + pdOf pf))) := by
  obtain ⟨e, rfl⟩ : ∃ e, D = s + e := ⟨D - s, by omega⟩
  obtain ⟨q, rfl⟩ := hdv
  have hcs : cap pf s = 2 ^ (s + pdOf pf) := cap_eq_pow pf hpf s
  unfold subtreeAt
  rw [show s + e - s = e by omega, ← hcs, Nat.mul_comm]
  exact descend_unit_erase pf hpf s e root xs q ht hlen (by rw [Nat.mul_comm, hcs]; exact hi)

/-! ## `compute_level` -/

theorem computeLevel_eq (n D pd : Nat) (hn : n ≠ 0) (h64 : n < 2 ^ 64) :
    computeLevel n D pd = if tzr n < pd then 0 else tzr n := by
  simp [computeLevel, hn, tz_eq_tzr n hn h64]

/-- `compute_level n` is `0` (when `n` has fewer than `pd` trailing zeros) or `tz n ≥ pd`. -/
theorem computeLevel_cases (n D pd : Nat) (hn : n ≠ 0) (h64 : n < 2 ^ 64) :
    (computeLevel n D pd = 0 ∧ tzr n < pd) ∨ (computeLevel n D pd = tzr n ∧ pd ≤ tzr n) := by
  rw [computeLevel_eq n D pd hn h64]
  by_cases h : tzr n < pd
  · left; simp [h]
  · right; simp [h]; omega

theorem computeLevel_dvd (n D pd : Nat) (hn : n ≠ 0) (h64 : n < 2 ^ 64) :
    2 ^ computeLevel n D pd ∣ n := by
  rcases computeLevel_cases n D pd hn h64 with ⟨h, _⟩ | ⟨h, _⟩
  · rw [h]; simp
  · rw [h]; exact tzr_dvd n

theorem tzr_le_of_le_pow (n a : Nat) (hn : n ≠ 0) (h : n ≤ 2 ^ a) : tzr n ≤ a := by
  have h1 := Nat.le_of_dvd (by omega) (tzr_dvd n)
  exact (Nat.pow_le_pow_iff_right (by decide)).1 (Nat.le_trans h1 h)

theorem computeLevel_le (n D pd : Nat) (hn : n ≠ 0) (h64 : n < 2 ^ 64) (h : n ≤ 2 ^ (D + pd)) :
    computeLevel n D pd ≤ D + pd := by
  rcases computeLevel_cases n D pd hn h64 with ⟨h0, _⟩ | ⟨h0, _⟩
  · omega
  · rw [h0]; exact tzr_le_of_le_pow n _ hn h

/-! ## Target 1: the drained level iterator over a canonical tree -/

theorem levelCount_lt_iff (length ℓ i k : Nat) :
    k < levelCount length ℓ i ↔ i + k * 2 ^ ℓ < length := by
  unfold levelCount
  have hp : 0 < 2 ^ ℓ := Nat.pow_pos (by decide)
  generalize 2 ^ ℓ = w at hp
  rw [show k < (length - i + w - 1) / w ↔ k + 1 ≤ (length - i + w - 1) / w from Iff.rfl,
    Nat.le_div_iff_mul_le hp, Nat.add_mul, Nat.one_mul]
  omega

/-- the items, spelled out: `m = ceil((length - i)/2^ℓ)` nodes, the `k`-th being the depth-`s`
subtree of the old tree above element `i + k·2^ℓ` — the same `Tree` value, identities included
(the reuse clause of C10). -/
theorem levelItems_eq (pd : Nat) (root : Tree T) (D s ℓ length i : Nat) :
    levelItems pd root D s ℓ length i =
      (List.range ((length - i + 2 ^ ℓ - 1) / 2 ^ ℓ)).map
        (fun k => LevelNode.internal (subtreeAt pd root D s (i + k * 2 ^ ℓ))) := rfl

theorem levelItems_length (pd : Nat) (root : Tree T) (D s ℓ length i : Nat) :
    (levelItems pd root D s ℓ length i).length = levelCount length ℓ i := by
  simp [levelItems]

theorem levelItems_getElem? (pd : Nat) (root : Tree T) (D s ℓ length i k : Nat)
    (hk : i + k * 2 ^ ℓ < length) :
    (levelItems pd root D s ℓ length i)[k]? =
      some (LevelNode.internal (subtreeAt pd root D s (i + k * 2 ^ ℓ))) := by
  have hk' := (levelCount_lt_iff length ℓ i k).2 hk
  simp [levelItems, subtreeAt, hk']

/-- what an item stands for. -/
def LevelNode.contents : LevelNode T → List T
  | .internal t => t.toList
  | .packedLeaf v => [v]

/-- **Target 1 (`levelIter_collect_spec`).** Over a tree whose shape is the canonical tree of `xs`
(depth `D`), for `1 ≤ n ≤ |xs|` and `ℓ = compute_level n`, draining
`LevelIter::from_index(n, root, D, |xs|)` never fails (no `debug_assert`, underflow or `expect`
outcome) and returns
* if `ℓ < pd` (then `ℓ = 0`, a packed kind with more than one value per leaf): the values
  `xs[n..]`, each as a `PackedLeaf` item;
* otherwise, with `s = ℓ - pd`: the `ceil((|xs|-n)/2^ℓ)` nodes
  `subtreeAt root D s (n + k·2^ℓ)` of the old tree, as `Internal` items (`levelItems_eq`); their
  shapes are the canonical trees of the consecutive `2^ℓ`-blocks of `xs[n..]`
  (`levelItem_erase`), all but possibly the last full (`levelItem_full`). -/
theorem levelIter_collect_spec (pf : Option Nat) (hpf : PfOK pf) (root : Tree T) (D : Nat)
    (xs : List T) (ht : root.erase = canon pf D xs) (hlen : xs.length ≤ cap pf D)
    (hD : D + pdOf pf ≤ 63) (n : Nat) (hn0 : n ≠ 0) (hn : n ≤ xs.length) :
    (computeLevel n D (pdOf pf) < pdOf pf →
      computeLevel n D (pdOf pf) = 0 ∧
      LevelIter.collect pf D (computeLevel n D (pdOf pf)) xs.length (xs.length + 1)
        (Iter.fromIndex n root) = .ok ((xs.drop n).map LevelNode.packedLeaf)) ∧
    (pdOf pf ≤ computeLevel n D (pdOf pf) →
      computeLevel n D (pdOf pf) - pdOf pf ≤ D ∧
      LevelIter.collect pf D (computeLevel n D (pdOf pf)) xs.length (xs.length + 1)
        (Iter.fromIndex n root) =
        .ok (levelItems (pdOf pf) root D (computeLevel n D (pdOf pf) - pdOf pf)
          (computeLevel n D (pdOf pf)) xs.length n)) := by
  have hcap := cap_eq_pow pf hpf D
  have h64 : n < 2 ^ 64 := by
    have h1 : 2 ^ (D + pdOf pf) ≤ 2 ^ 63 := Nat.pow_le_pow_right (by decide) hD
    have h2 : (2:Nat) ^ 63 < 2 ^ 64 := by decide
    omega
  have hwf := wf_of_canon pf hpf D root xs ht hlen
  constructor
  · intro hlt
    have h0 : computeLevel n D (pdOf pf) = 0 := by
      rcases computeLevel_cases n D (pdOf pf) hn0 h64 with ⟨h, _⟩ | ⟨h, h'⟩
      · exact h
      · omega
    refine ⟨h0, ?_⟩
    rw [h0]
    cases pf with
    | none => simp [pdOf] at hlt
    | some p =>
      exact lcollect_packed p hpf (by omega) root D xs ht hlen hD (xs.length + 1) _
        (PathOK.fromIndex (some p) root D xs.length n) (by simp only [Iter.fromIndex]; omega)
  · intro hge
    have hle := computeLevel_le n D (pdOf pf) hn0 h64 (by omega)
    refine ⟨by omega, ?_⟩
    have hread : ∀ i, i < xs.length → (getRec pf root i D).isSome := by
      intro i hi
      rw [getRec_canon pf hpf root D xs ht hlen i (by omega), List.getElem?_eq_getElem hi]; rfl
    exact lcollect_core pf hpf root D _ _ xs.length hwf (by omega) (by omega) hD hlen hread
      (xs.length + 1) _ (LPathOK.fromIndex pf root D _ xs.length n)
      (computeLevel_dvd n D (pdOf pf) hn0 h64)
      (by have := levelCount_le xs.length (computeLevel n D (pdOf pf)) n
          simp only [Iter.fromIndex]; omega)

/-- shape of the `k`-th item. -/
theorem levelItem_erase (pf : Option Nat) (hpf : PfOK pf) (root : Tree T) (D : Nat) (xs : List T)
    (ht : root.erase = canon pf D xs) (hlen : xs.length ≤ cap pf D) (s : Nat) (hs : s ≤ D)
    (n : Nat) (hdv : 2 ^ (s + pdOf pf) ∣ n) (k : Nat) (hk : n + k * 2 ^ (s + pdOf pf) < xs.length) :
    (subtreeAt (pdOf pf) root D s (n + k * 2 ^ (s + pdOf pf))).erase =
      canon pf s (((xs.drop n).drop (k * 2 ^ (s + pdOf pf))).take (2 ^ (s + pdOf pf))) := by
  rw [List.drop_drop]
  exact subtreeAt_erase pf hpf root D xs ht hlen s hs _
    (Nat.dvd_add hdv (Nat.dvd_mul_left _ _)) hk

/-- every item but the last is a full subtree. -/
theorem levelItem_full (xs : List T) (ℓ n k : Nat) (hk : k + 1 < levelCount xs.length ℓ n) :
    (((xs.drop n).drop (k * 2 ^ ℓ)).take (2 ^ ℓ)).length = 2 ^ ℓ := by
  have := (levelCount_lt_iff xs.length ℓ n (k + 1)).1 hk
  rw [Nat.add_mul, Nat.one_mul] at this
  simp only [List.length_take, List.length_drop]; omega

/-- the concatenation of the items' contents is the suffix (internal levels). -/
theorem levelItems_contents (pf : Option Nat) (hpf : PfOK pf) (root : Tree T) (D : Nat)
    (xs : List T) (ht : root.erase = canon pf D xs) (hlen : xs.length ≤ cap pf D) (s : Nat)
    (hs : s ≤ D) :
    ∀ (c i : Nat), levelCount xs.length (s + pdOf pf) i = c → 2 ^ (s + pdOf pf) ∣ i →
      (levelItems (pdOf pf) root D s (s + pdOf pf) xs.length i).flatMap LevelNode.contents =
        xs.drop i := by
  intro c
  induction c with
  | zero =>
    intro i hc _
    have : xs.length ≤ i := by
      apply Nat.le_of_not_lt; intro hi
      have := levelCount_step xs.length (s + pdOf pf) i hi; omega
    rw [levelItems_done _ _ _ _ _ _ _ this, List.drop_of_length_le this]; rfl
  | succ c ih =>
    intro i hc hdv
    have hi : i < xs.length := by
      apply Nat.lt_of_not_le; intro hi
      have := levelCount_done xs.length (s + pdOf pf) i hi; omega
    rw [levelItems_step _ _ _ _ _ _ _ hi, List.flatMap_cons,
      ih (i + 2 ^ (s + pdOf pf)) (by have := levelCount_step xs.length (s + pdOf pf) i hi; omega)
        (li_dvd_add_pow _ _ hdv)]
    have he := subtreeAt_erase pf hpf root D xs ht hlen s hs i hdv hi
    simp only [LevelNode.contents, Tree.toList]
    unfold subtreeAt at he
    rw [he, toList_canon pf hpf s _ (by
      rw [cap_eq_pow pf hpf]; simp only [List.length_take]; omega)]
    rw [← List.drop_drop, List.take_append_drop]

/-! ## Non-vacuity: the hypotheses hold on concrete trees, and the conclusions compute -/

section Examples

-- `LevelIter.next_spec`, unpacked tree `[10,11,12]` of depth 2, level 1 (`s = 1`), from index 2:
-- yields the right depth-1 node (id 4) and walks off the tree.
example : ∃ st', LevelIter.next none 2 1 3 (2 + 2) (Iter.fromIndex 2 exTreeU) =
      .ok (some (.internal (descend (pdOf none) exTreeU 2 2 (2 - 1))), st') ∧
    st'.index = 2 + 2 ^ 1 ∧ LPathOK none exTreeU 2 1 3 st' :=
  LevelIter.next_spec none exPfOKnone exTreeU 2 1 1 3 exWFU rfl (by decide) (by decide) (by decide)
    _ (LPathOK.fromIndex none exTreeU 2 1 3 2) (by decide) (by decide) (by decide)
example : LevelIter.next none 2 1 3 4 (Iter.fromIndex 2 exTreeU) =
    .ok (some (.internal (.node 4 (.leaf 5 12) (.zero 6 0))), ⟨[], 4⟩) := by rfl
-- level 0 of the unpacked tree: the leaves themselves
example : LevelIter.next none 2 0 3 4 (Iter.fromIndex 1 exTreeU) =
    .ok (some (.internal (.leaf 3 11)), ⟨[exTreeU], 2⟩) := by rfl

-- `levelIter_collect_spec`, packed tree `[1..6]` (4 per leaf, depth 1):
-- `n = 4`: `compute_level = 2 = pd`, the item is the second packed leaf itself;
example : computeLevel 4 1 (pdOf (some 4)) = 2 ∧ pdOf (some 4) = 2 := by decide
example : LevelIter.collect (some 4) 1 (computeLevel 4 1 (pdOf (some 4))) 6 (6 + 1)
      (Iter.fromIndex 4 exTreeP) =
    .ok (levelItems (pdOf (some 4)) exTreeP 1 (computeLevel 4 1 (pdOf (some 4)) - pdOf (some 4))
      (computeLevel 4 1 (pdOf (some 4))) 6 4) :=
  ((levelIter_collect_spec (some 4) exPfOK4 exTreeP 1 [1, 2, 3, 4, 5, 6] exCanonP (by decide)
    (by decide) 4 (by decide) (by decide)).2 (by decide)).2
example : LevelIter.collect (some 4) 1 2 6 7 (Iter.fromIndex 4 exTreeP) =
    .ok [.internal (.packed 2 [5, 6])] := by rfl
example : levelItems 2 exTreeP 1 0 2 6 4 = [.internal (.packed 2 [5, 6])] := by rfl
-- `n = 2`: `compute_level = 0 < pd`, the items are the values `3,4,5,6`.
example : LevelIter.collect (some 4) 1 (computeLevel 2 1 (pdOf (some 4))) 6 (6 + 1)
      (Iter.fromIndex 2 exTreeP) = .ok (([1, 2, 3, 4, 5, 6].drop 2).map LevelNode.packedLeaf) :=
  ((levelIter_collect_spec (some 4) exPfOK4 exTreeP 1 [1, 2, 3, 4, 5, 6] exCanonP (by decide)
    (by decide) 2 (by decide) (by decide)).1 (by decide)).2
example : LevelIter.collect (some 4) 1 0 6 7 (Iter.fromIndex 2 exTreeP) =
    .ok [.packedLeaf 3, .packedLeaf 4, .packedLeaf 5, .packedLeaf 6] := by rfl
-- unpacked, `n = 2`: level 1, one item (the partially filled right half)
example : LevelIter.collect none 2 (computeLevel 2 2 (pdOf none)) 3 (3 + 1)
      (Iter.fromIndex 2 exTreeU) =
    .ok (levelItems (pdOf none) exTreeU 2 (computeLevel 2 2 (pdOf none) - pdOf none)
      (computeLevel 2 2 (pdOf none)) 3 2) :=
  ((levelIter_collect_spec none exPfOKnone exTreeU 2 [10, 11, 12] exCanonU (by decide)
    (by decide) 2 (by decide) (by decide)).2 (by decide)).2
-- `subtreeAt_erase`
example : (subtreeAt (pdOf none) exTreeU 2 1 2).erase =
    canon none 1 (([10, 11, 12].drop 2).take (2 ^ (1 + pdOf none))) :=
  subtreeAt_erase none exPfOKnone exTreeU 2 [10, 11, 12] exCanonU (by decide) 1 (by decide) 2
    (by decide) (by decide)

end Examples

end Milhouse
