import Milhouse.Proofs.Merkle
import Milhouse.Proofs.Rebase
/-!
# The closed-form root of a list of equal elements is the SSZ root of that list

`Spec.repRoot E A mixIn N n v` (doubling, never builds the list; `Spec/Merkle.lean`) equals
`Spec.listRoot E A mixIn N (List.replicate n v)`.

* `chunksOf_replicate_some` / `chunksOf_replicate_none` (`chunksOf_replicate`): the chunk sequence
  of `n` equal elements is `n / p` copies of the full chunk, then possibly one partial chunk.
* `fullAt_eq_merk`: `fullAt` is `merk` of `2^d` copies.
* `merk_replicate`: `merk` of `a` copies of a chunk followed by an optional tail chunk is `repMerk`.
* `repRoot_eq_listRoot`: the main theorem, for positive packing factors, `n ≤ N ≤ 2^64`
  (`intLog` saturates at 64, so `N ≤ 2^64` is what makes the chunk limit fit under
  `2 ^ limitDepth`; every milhouse capacity is a `usize`).
-/
namespace Milhouse
variable {T H : Type}

/-! ## 1. the chunks of a replicated list -/

theorem rr_groups_replicate (p : Nat) (hp : 0 < p) (v : T) :
    ∀ (fuel n : Nat), n ≤ fuel →
      Spec.groups p fuel (List.replicate n v)
        = List.replicate (n / p) (List.replicate p v)
            ++ (if n % p = 0 then [] else [List.replicate (n % p) v]) := by
  intro fuel
  induction fuel with
  | zero =>
    intro n h
    have : n = 0 := by omega
    subst this
    simp [Spec.groups]
  | succ fuel ih =>
    intro n h
    cases n with
    | zero => simp [Spec.groups]
    | succ m =>
      rw [List.replicate_succ, groups_cons, ← List.replicate_succ, List.take_replicate,
        List.drop_replicate]
      by_cases hlt : m + 1 < p
      · have h0 : m + 1 - p = 0 := by omega
        have hd : (m + 1) / p = 0 := Nat.div_eq_of_lt hlt
        have hm : (m + 1) % p = m + 1 := Nat.mod_eq_of_lt hlt
        have hmin : min p (m + 1) = m + 1 := by omega
        rw [h0, List.replicate_zero, groups_nil, hd, hm, hmin]
        simp
      · have hge : p ≤ m + 1 := by omega
        have hmin : min p (m + 1) = p := by omega
        have hd : (m + 1) / p = (m + 1 - p) / p + 1 := by
          rw [Nat.div_eq_sub_div hp hge]
        have hm : (m + 1) % p = (m + 1 - p) % p := Nat.mod_eq_sub_mod hge
        rw [ih (m + 1 - p) (by omega), hmin, hd, hm, List.replicate_succ]
        rfl

/-- target 1, packed kinds. -/
theorem chunksOf_replicate_some (E : Elem T H) (p : Nat) (hE : E.pf = some p) (hp : 0 < p)
    (n : Nat) (v : T) :
    Spec.chunksOf E (List.replicate n v)
      = List.replicate (n / p) (E.packHash (List.replicate p v))
          ++ (if n % p = 0 then [] else [E.packHash (List.replicate (n % p) v)]) := by
  unfold Spec.chunksOf
  rw [hE]
  simp only
  rw [rr_groups_replicate p hp v _ n (by simp)]
  by_cases h : n % p = 0 <;> simp [h]

/-- target 1, unpacked kinds. -/
theorem chunksOf_replicate_none (E : Elem T H) (hE : E.pf = none) (n : Nat) (v : T) :
    Spec.chunksOf E (List.replicate n v) = List.replicate n (E.leafHash v) := by
  unfold Spec.chunksOf
  rw [hE]
  simp

/-- target 1 as one statement. -/
theorem chunksOf_replicate (E : Elem T H) (n : Nat) (v : T) :
    (∀ p, E.pf = some p → 0 < p →
      Spec.chunksOf E (List.replicate n v)
        = List.replicate (n / p) (E.packHash (List.replicate p v))
            ++ (if n % p = 0 then [] else [E.packHash (List.replicate (n % p) v)])) ∧
    (E.pf = none → Spec.chunksOf E (List.replicate n v) = List.replicate n (E.leafHash v)) :=
  ⟨fun p hE hp => chunksOf_replicate_some E p hE hp n v,
   fun hE => chunksOf_replicate_none E hE n v⟩

/-! ## 2. `merk` of a replicated chunk sequence -/

/-- the recursion equation of `merk` holds for every chunk list (also the empty one). -/
theorem rr_merk_succ (A : HashAlg H) (d : Nat) (cs : List H) :
    Spec.merk A (d + 1) cs
      = A.h2 (Spec.merk A d (cs.take (2 ^ d))) (Spec.merk A d (cs.drop (2 ^ d))) := by
  cases cs with
  | nil => simp [merk_nil, zeroHash]
  | cons c rest => simp [Spec.merk]

/-- `fullAt` is `merk` of `2^d` copies. -/
theorem fullAt_eq_merk (A : HashAlg H) (F : H) :
    ∀ d : Nat, Spec.fullAt A F d = Spec.merk A d (List.replicate (2 ^ d) F) := by
  intro d
  induction d with
  | zero => simp [Spec.fullAt, Spec.merk]
  | succ d ih =>
    rw [rr_merk_succ, List.take_replicate, List.drop_replicate]
    have h1 : min (2 ^ d) (2 ^ (d + 1)) = 2 ^ d := by rw [Nat.pow_succ]; omega
    have h2 : 2 ^ (d + 1) - 2 ^ d = 2 ^ d := by rw [Nat.pow_succ]; omega
    rw [h1, h2, ← ih]
    rfl

/-- target 2. -/
theorem merk_replicate (A : HashAlg H) (F : H) (tail : Option H) :
    ∀ (d a : Nat), a + (if tail.isSome then 1 else 0) ≤ 2 ^ d →
      Spec.merk A d (List.replicate a F ++ tail.toList) = Spec.repMerk A F tail d a := by
  intro d
  induction d with
  | zero =>
    intro a h
    cases tail with
    | none =>
      simp only [Option.isSome_none, Bool.false_eq_true, if_false, Nat.pow_zero] at h
      have : a = 0 ∨ a = 1 := by omega
      rcases this with rfl | rfl <;> simp [Spec.merk, Spec.repMerk, zeroHash]
    | some t =>
      simp only [Option.isSome_some, if_true, Nat.pow_zero] at h
      have : a = 0 := by omega
      subst this
      simp [Spec.merk, Spec.repMerk]
  | succ d ih =>
    intro a h
    have hpow : 2 ^ (d + 1) = 2 * 2 ^ d := by rw [Nat.pow_succ]; omega
    rw [rr_merk_succ, List.take_append, List.drop_append, List.take_replicate,
      List.drop_replicate, List.length_replicate]
    by_cases hge : a ≥ 2 ^ d
    · have e : Spec.repMerk A F tail (d + 1) a
          = A.h2 (Spec.fullAt A F d) (Spec.repMerk A F tail d (a - 2 ^ d)) := by
        simp [Spec.repMerk, hge]
      have hmin : min (2 ^ d) a = 2 ^ d := by omega
      have hz : 2 ^ d - a = 0 := by omega
      rw [e, hmin, hz, List.take_zero, List.append_nil, List.drop_zero, fullAt_eq_merk,
        ih (a - 2 ^ d) (by omega)]
    · have e : Spec.repMerk A F tail (d + 1) a
          = A.h2 (Spec.repMerk A F tail d a) (zeroHash A d) := by
        simp [Spec.repMerk, hge]
      have hlt : a < 2 ^ d := by omega
      have hmin : min (2 ^ d) a = a := by omega
      have hz : a - 2 ^ d = 0 := by omega
      have hlen : tail.toList.length ≤ 2 ^ d - a := by
        cases tail <;> simp <;> omega
      rw [e, hmin, hz, List.replicate_zero, List.nil_append, List.take_of_length_le hlen,
        List.drop_of_length_le hlen, merk_nil,
        ih a (by split <;> omega)]

/-! ## 3. the closed form is the SSZ root -/

theorem rr_chunks_fit (n N p : Nat) (hp : 0 < p) (hn : n ≤ N) :
    n / p + (if n % p = 0 then 0 else 1) ≤ (N + p - 1) / p := by
  rw [Nat.le_div_iff_mul_le hp]
  have h1 := Nat.div_add_mod n p
  have h2 := Nat.mod_lt n hp
  rw [Nat.mul_comm] at h1
  split
  · rw [Nat.add_zero]; omega
  · rw [Nat.add_mul]; omega

/-- target 3: **`repRoot` is `listRoot` of the replicated list.** -/
theorem repRoot_eq_listRoot (E : Elem T H) (A : HashAlg H) (mixIn : H → Nat → H) (N n : Nat)
    (v : T) (hpf : ∀ p, E.pf = some p → 0 < p) (hn : n ≤ N) (hN : N ≤ 2 ^ 64) :
    Spec.repRoot E A mixIn N n v = Spec.listRoot E A mixIn N (List.replicate n v) := by
  unfold Spec.repRoot Spec.listRoot
  simp only [List.length_replicate]
  congr 1
  cases hE : E.pf with
  | none =>
    rw [chunksOf_replicate_none E hE]
    have hfit : n ≤ 2 ^ Spec.limitDepth (Spec.chunkLimit E N) := by
      unfold Spec.limitDepth Spec.chunkLimit
      rw [hE]
      exact Nat.le_trans hn (le_pow_intLog N hN)
    have := merk_replicate A (E.leafHash v) none _ n (by simpa using hfit)
    simp only [Option.toList_none, List.append_nil] at this
    rw [this]
    simp [Nat.mod_one]
  | some p =>
    have hp := hpf p hE
    rw [chunksOf_replicate_some E p hE hp]
    simp only [Option.getD_some]
    have hlim : Spec.chunkLimit E N = (N + p - 1) / p := by
      unfold Spec.chunkLimit; rw [hE]
    have hfit : n / p + (if n % p = 0 then 0 else 1)
        ≤ 2 ^ Spec.limitDepth (Spec.chunkLimit E N) := by
      unfold Spec.limitDepth
      rw [hlim]
      exact Nat.le_trans (rr_chunks_fit n N p hp hn)
        (le_pow_intLog _ (Nat.le_trans (ceilDiv_le_self N p hp) hN))
    by_cases hm : n % p = 0
    · simp only [hm, if_true] at hfit ⊢
      have := merk_replicate A (E.packHash (List.replicate p v)) none _ (n / p)
        (by simpa using hfit)
      simp only [Option.toList_none] at this
      rw [this]
    · simp only [hm, if_false] at hfit ⊢
      have := merk_replicate A (E.packHash (List.replicate p v))
        (some (E.packHash (List.replicate (n % p) v))) _ (n / p) (by simpa using hfit)
      simp only [Option.toList_some] at this
      rw [this]

/-- the `PfOK` form of target 3. -/
theorem repRoot_eq_listRoot_pfOK (E : Elem T H) (A : HashAlg H) (mixIn : H → Nat → H) (N n : Nat)
    (v : T) (hpf : PfOK E.pf) (hn : n ≤ N) (hN : N ≤ 2 ^ 64) :
    Spec.repRoot E A mixIn N n v = Spec.listRoot E A mixIn N (List.replicate n v) :=
  repRoot_eq_listRoot E A mixIn N n v
    (fun p hp => by obtain ⟨k, _, rfl⟩ := hpf p hp; exact Nat.pow_pos (by decide)) hn hN

/-! ## 4. non-vacuity -/

namespace RepRootExample
def mix : HT → Nat → HT := fun r n => HT.nd r (HT.leafv n)

/-- packing factor 2, `N = 8`, five copies of `7`: two full chunks, one partial chunk, one zero. -/
example : Spec.repRoot (HT.elem (some 2)) HT.alg mix 8 5 7
    = .nd (.nd (.nd (.pk [7, 7]) (.pk [7, 7])) (.nd (.pk [7, 0]) .z)) (.leafv 5) := by decide
example : Spec.listRoot (HT.elem (some 2)) HT.alg mix 8 (List.replicate 5 7)
    = .nd (.nd (.nd (.pk [7, 7]) (.pk [7, 7])) (.nd (.pk [7, 0]) .z)) (.leafv 5) := by decide
example : Spec.repRoot (HT.elem (some 2)) HT.alg mix 8 5 7
    = Spec.listRoot (HT.elem (some 2)) HT.alg mix 8 (List.replicate 5 7) :=
  repRoot_eq_listRoot _ _ _ 8 5 7 (by intro p hp; cases hp; decide) (by decide)
    (Nat.le_trans (by decide : 8 ≤ 2 ^ 4) (Nat.pow_le_pow_right (by decide) (by decide)))

/-- packing factor 4, `N = 8`, five copies. -/
example : Spec.repRoot (HT.elem (some 4)) HT.alg mix 8 5 7
    = Spec.listRoot (HT.elem (some 4)) HT.alg mix 8 (List.replicate 5 7) := by decide
example : Spec.repRoot (HT.elem (some 4)) HT.alg mix 8 5 7
    = .nd (.nd (.pk [7, 7, 7, 7]) (.pk [7, 0, 0, 0])) (.leafv 5) := by decide

/-- unpacked elements, `N = 8`, five copies (depth 3). -/
example : Spec.repRoot (HT.elem none) HT.alg mix 8 5 7
    = Spec.listRoot (HT.elem none) HT.alg mix 8 (List.replicate 5 7) := by decide
example : Spec.repRoot (HT.elem none) HT.alg mix 8 5 7
    = .nd (.nd (.nd (.nd (.leafv 7) (.leafv 7)) (.nd (.leafv 7) (.leafv 7)))
              (.nd (.nd (.leafv 7) .z) (.nd .z .z))) (.leafv 5) := by decide

/-- a full list and the empty list. -/
example : Spec.repRoot (HT.elem (some 2)) HT.alg mix 8 8 7
    = Spec.listRoot (HT.elem (some 2)) HT.alg mix 8 (List.replicate 8 7) := by decide
example : Spec.repRoot (HT.elem (some 2)) HT.alg mix 8 0 7
    = Spec.listRoot (HT.elem (some 2)) HT.alg mix 8 (List.replicate 0 7) := by decide

/-- `chunksOf_replicate`, `merk_replicate` on concrete inputs. -/
example : Spec.chunksOf (HT.elem (some 2)) (List.replicate 5 7)
    = [.pk [7, 7], .pk [7, 7], .pk [7, 0]] := by decide
example : Spec.merk HT.alg 2 (List.replicate 2 (HT.leafv 1) ++ (some (HT.leafv 2)).toList)
    = Spec.repMerk HT.alg (HT.leafv 1) (some (HT.leafv 2)) 2 2 :=
  merk_replicate HT.alg _ _ 2 2 (by decide)
example : Spec.repMerk HT.alg (HT.leafv 1) (some (HT.leafv 2)) 2 2
    = .nd (.nd (.leafv 1) (.leafv 1)) (.nd (.leafv 2) .z) := by decide

end RepRootExample

end Milhouse
