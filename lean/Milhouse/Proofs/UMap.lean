import Milhouse.Model.UpdateMap
/-!
# The three update maps are interchangeable (C14)

`UMap.get` is the abstraction function. For every kind (`btree`, `vec`, `maxvec`) the derived
observations (`entries`, `range`, `hasInRange`, `isEmpty`, `len`, `maxIndex`) are functions of
`get` alone (for `maxvec`'s `maxIndex`: under the `MaxExact` invariant), and `insert` /
`insertEntry` act on `get` as a point update.
-/
namespace Milhouse
variable {T : Type}

/-- strictly ascending keys -/
def KeysAsc (l : List (Nat × T)) : Prop := l.Pairwise (fun a b => a.1 < b.1)

/-! ## association lists -/

theorem assocGet_none_of_lt (k : Nat) (l : List (Nat × T)) (h : ∀ p ∈ l, k < p.1) :
    assocGet k l = none := by
  induction l with
  | nil => rfl
  | cons p rest ih =>
    obtain ⟨k', v'⟩ := p
    have h1 := h (k', v') (by simp)
    simp only [assocGet]
    rw [if_neg (by simp at h1; omega)]
    exact ih (fun q hq => h q (by simp [hq]))

theorem assocGet_eq_some_iff (k : Nat) (v : T) (l : List (Nat × T)) (hl : KeysAsc l) :
    assocGet k l = some v ↔ (k, v) ∈ l := by
  induction l with
  | nil => simp [assocGet]
  | cons p rest ih =>
    obtain ⟨k', v'⟩ := p
    have hl' := List.pairwise_cons.1 hl
    simp only [assocGet]
    by_cases hk : k = k'
    · subst hk
      simp only [if_true, List.mem_cons, Prod.mk.injEq, true_and]
      constructor
      · intro h; left; cases h; rfl
      · intro h
        rcases h with h | h
        · rw [h]
        · have := hl'.1 _ h; simp at this
    · rw [if_neg hk, ih hl'.2]
      simp [hk]

theorem assocGet_isSome_iff (k : Nat) (l : List (Nat × T)) :
    (assocGet k l).isSome ↔ ∃ v, (k, v) ∈ l := by
  induction l with
  | nil => simp [assocGet]
  | cons p rest ih =>
    obtain ⟨k', v'⟩ := p
    simp only [assocGet]
    by_cases hk : k = k'
    · subst hk; simp
    · rw [if_neg hk, ih]; simp [hk]

theorem assocGet_some_mem (k : Nat) (v : T) (l : List (Nat × T)) (h : assocGet k l = some v) :
    (k, v) ∈ l := by
  induction l with
  | nil => simp [assocGet] at h
  | cons p rest ih =>
    obtain ⟨k', v'⟩ := p
    simp only [assocGet] at h
    by_cases hk : k = k'
    · subst hk; simp at h; subst h; simp
    · rw [if_neg hk] at h; simp [ih h]

theorem assocGet_assocInsert (k k' : Nat) (v : T) (l : List (Nat × T)) :
    assocGet k' (assocInsert k v l) = if k' = k then some v else assocGet k' l := by
  induction l with
  | nil => simp [assocInsert, assocGet]
  | cons p rest ih =>
    obtain ⟨k0, v0⟩ := p
    simp only [assocInsert]
    by_cases h1 : k < k0
    · rw [if_pos h1]; simp only [assocGet]
    · rw [if_neg h1]
      by_cases h2 : k = k0
      · subst h2; simp only [if_true, assocGet]
        by_cases h3 : k' = k <;> simp [h3]
      · rw [if_neg h2]; simp only [assocGet, ih]
        by_cases h3 : k' = k0
        · subst h3; simp [Ne.symm h2]
        · simp [h3]

theorem mem_assocInsert (k : Nat) (v : T) (l : List (Nat × T)) (q : Nat × T)
    (hq : q ∈ assocInsert k v l) : q = (k, v) ∨ q ∈ l := by
  induction l with
  | nil => simp [assocInsert] at hq; left; exact hq
  | cons p rest ih =>
    obtain ⟨k0, v0⟩ := p
    simp only [assocInsert] at hq
    by_cases h1 : k < k0
    · rw [if_pos h1] at hq; simpa using hq
    · rw [if_neg h1] at hq
      by_cases h2 : k = k0
      · rw [if_pos h2] at hq
        simp only [List.mem_cons] at hq ⊢
        rcases hq with h | h
        · left; exact h
        · right; right; exact h
      · rw [if_neg h2] at hq
        simp only [List.mem_cons] at hq ⊢
        rcases hq with h | h
        · right; left; exact h
        · rcases ih h with h | h
          · left; exact h
          · right; right; exact h

theorem keysAsc_assocInsert (k : Nat) (v : T) (l : List (Nat × T)) (hl : KeysAsc l) :
    KeysAsc (assocInsert k v l) := by
  induction l with
  | nil => simp [assocInsert, KeysAsc]
  | cons p rest ih =>
    obtain ⟨k0, v0⟩ := p
    have hl' := List.pairwise_cons.1 hl
    simp only [assocInsert]
    by_cases h1 : k < k0
    · rw [if_pos h1]
      refine List.pairwise_cons.2 ⟨?_, hl⟩
      intro q hq
      simp only [List.mem_cons] at hq
      rcases hq with h | h
      · subst h; exact h1
      · have := hl'.1 q h; simp at this ⊢; omega
    · rw [if_neg h1]
      by_cases h2 : k = k0
      · subst h2; rw [if_pos rfl]
        exact List.pairwise_cons.2 ⟨hl'.1, hl'.2⟩
      · rw [if_neg h2]
        refine List.pairwise_cons.2 ⟨?_, ih hl'.2⟩
        intro q hq
        rcases mem_assocInsert k v rest q hq with h | h
        · subst h; simp; omega
        · exact hl'.1 q h

/-- two strictly ascending association lists with the same lookups are equal. -/
theorem keysAsc_ext (l1 l2 : List (Nat × T)) (h1 : KeysAsc l1) (h2 : KeysAsc l2)
    (h : ∀ k, assocGet k l1 = assocGet k l2) : l1 = l2 := by
  induction l1 generalizing l2 with
  | nil =>
    cases l2 with
    | nil => rfl
    | cons p rest => obtain ⟨k, v⟩ := p; have := h k; simp [assocGet] at this
  | cons p rest ih =>
    obtain ⟨k, v⟩ := p
    cases l2 with
    | nil => have := h k; simp [assocGet] at this
    | cons p2 rest2 =>
      obtain ⟨k2, v2⟩ := p2
      have h1' := List.pairwise_cons.1 h1
      have h2' := List.pairwise_cons.1 h2
      have hkk : k = k2 := by
        apply Nat.le_antisymm
        · apply Nat.le_of_not_lt; intro hlt
          have e := h k2
          rw [assocGet_none_of_lt k2 ((k, v) :: rest)] at e
          · simp [assocGet] at e
          · intro q hq; simp only [List.mem_cons] at hq
            rcases hq with hq | hq
            · subst hq; exact hlt
            · have := h1'.1 q hq; simp at this; omega
        · apply Nat.le_of_not_lt; intro hlt
          have e := h k
          rw [assocGet_none_of_lt k ((k2, v2) :: rest2)] at e
          · simp [assocGet] at e
          · intro q hq; simp only [List.mem_cons] at hq
            rcases hq with hq | hq
            · subst hq; exact hlt
            · have := h2'.1 q hq; simp at this; omega
      subst hkk
      have hv : v = v2 := by have := h k; simpa [assocGet] using this
      subst hv
      congr 1
      apply ih rest2 h1'.2 h2'.2
      intro k'
      by_cases hk : k' = k
      · subst hk
        rw [assocGet_none_of_lt k' rest (fun q hq => h1'.1 q hq),
            assocGet_none_of_lt k' rest2 (fun q hq => h2'.1 q hq)]
      · have := h k'; simpa [assocGet, hk] using this

/-! ## `Vec<Option<T>>` -/

theorem mem_vecEntriesFrom (base : Nat) (v : List (Option T)) (k : Nat) (x : T) :
    (k, x) ∈ vecEntriesFrom base v ↔ base ≤ k ∧ v[k - base]? = some (some x) := by
  induction v generalizing base with
  | nil => simp [vecEntriesFrom]
  | cons o rest ih =>
    cases o with
    | none =>
      simp only [vecEntriesFrom, ih]
      constructor
      · rintro ⟨h1, h2⟩
        refine ⟨by omega, ?_⟩
        rw [show k - base = (k - (base+1)) + 1 by omega]; simpa using h2
      · rintro ⟨h1, h2⟩
        by_cases hk : k = base
        · subst hk; simp at h2
        · refine ⟨by omega, ?_⟩
          rw [show k - base = (k - (base+1)) + 1 by omega] at h2; simpa using h2
    | some y =>
      simp only [vecEntriesFrom, List.mem_cons, Prod.mk.injEq, ih]
      constructor
      · rintro (⟨h1, h2⟩ | ⟨h1, h2⟩)
        · subst h1 h2; simp
        · refine ⟨by omega, ?_⟩
          rw [show k - base = (k - (base+1)) + 1 by omega]; simpa using h2
      · rintro ⟨h1, h2⟩
        by_cases hk : k = base
        · subst hk; simp at h2; left; exact ⟨rfl, h2.symm⟩
        · right
          refine ⟨by omega, ?_⟩
          rw [show k - base = (k - (base+1)) + 1 by omega] at h2; simpa using h2

theorem vecEntriesFrom_key_ge (base : Nat) (v : List (Option T)) (q : Nat × T)
    (hq : q ∈ vecEntriesFrom base v) : base ≤ q.1 := by
  obtain ⟨k, x⟩ := q
  exact ((mem_vecEntriesFrom base v k x).1 hq).1

theorem keysAsc_vecEntriesFrom (base : Nat) (v : List (Option T)) :
    KeysAsc (vecEntriesFrom base v) := by
  induction v generalizing base with
  | nil => simp [vecEntriesFrom, KeysAsc]
  | cons o rest ih =>
    cases o with
    | none => simp only [vecEntriesFrom]; exact ih (base+1)
    | some y =>
      simp only [vecEntriesFrom]
      refine List.pairwise_cons.2 ⟨?_, ih (base+1)⟩
      intro q hq
      have := vecEntriesFrom_key_ge (base+1) rest q hq
      simp; omega

theorem assocGet_vecEntriesFrom (base : Nat) (v : List (Option T)) (k : Nat) :
    assocGet k (vecEntriesFrom base v) = if base ≤ k then (v[k - base]?).join else none := by
  cases h : assocGet k (vecEntriesFrom base v) with
  | some x =>
    have := (mem_vecEntriesFrom base v k x).1
      ((assocGet_eq_some_iff k x _ (keysAsc_vecEntriesFrom base v)).1 h)
    rw [if_pos this.1, this.2]; rfl
  | none =>
    by_cases hb : base ≤ k
    · rw [if_pos hb]
      cases h2 : v[k - base]? with
      | none => rfl
      | some o =>
        cases o with
        | none => rfl
        | some x =>
          have := (assocGet_eq_some_iff k x _ (keysAsc_vecEntriesFrom base v)).2
            ((mem_vecEntriesFrom base v k x).2 ⟨hb, h2⟩)
          rw [h] at this; cases this
    · rw [if_neg hb]

theorem getElem?_vecSet (v : List (Option T)) (k k' : Nat) (x : T) :
    ((vecSet v k x)[k']?).join = if k' = k then some x else (v[k']?).join := by
  unfold vecSet
  by_cases hl : v.length ≤ k
  · simp only [if_pos hl]
    by_cases hk : k' = k
    · subst hk
      rw [if_pos rfl, List.getElem?_set_self (by simp; omega)]; rfl
    · rw [if_neg hk, List.getElem?_set_ne (Ne.symm hk)]
      by_cases hlt : k' < v.length
      · rw [List.getElem?_append_left hlt]
      · rw [List.getElem?_append_right (by omega), List.getElem?_eq_none (l := v) (by omega)]
        rw [List.getElem?_replicate]
        split <;> rfl
  · simp only [if_neg hl]
    by_cases hk : k' = k
    · subst hk
      rw [if_pos rfl, List.getElem?_set_self (by omega)]; rfl
    · rw [if_neg hk, List.getElem?_set_ne (Ne.symm hk)]


/-! ## filters of ascending lists -/

/-- keys of an ascending list inside `[s, e)` (the definition of `UMap.range`). -/
def inRange (s e : Nat) (p : Nat × T) : Bool := s ≤ p.1 && p.1 < e

theorem keysAsc_filter (l : List (Nat × T)) (f : Nat × T → Bool) (h : KeysAsc l) :
    KeysAsc (l.filter f) := List.Pairwise.filter f h

theorem assocGet_filter (l : List (Nat × T)) (f : Nat → Bool) (k : Nat) :
    assocGet k (l.filter (fun p => f p.1)) = if f k then assocGet k l else none := by
  induction l with
  | nil => simp [assocGet]
  | cons p rest ih =>
    obtain ⟨k0, v0⟩ := p
    simp only [List.filter]
    by_cases hf : f k0 = true
    · simp only [hf, assocGet, ih]
      by_cases hk : k = k0
      · subst hk; simp [hf]
      · simp [hk]
    · have hf' : f k0 = false := by simpa using hf
      simp only [hf', assocGet, ih]
      by_cases hk : k = k0
      · subst hk; simp [hf']
      · simp [hk]

/-- splitting a range of an ascending list at an interior point. -/
theorem filter_range_split (l : List (Nat × T)) (h : KeysAsc l) (s mid e : Nat)
    (h1 : s ≤ mid) (h2 : mid ≤ e) :
    l.filter (fun p => s ≤ p.1 && p.1 < e) =
      l.filter (fun p => s ≤ p.1 && p.1 < mid) ++ l.filter (fun p => mid ≤ p.1 && p.1 < e) := by
  induction l with
  | nil => simp
  | cons p rest ih =>
    obtain ⟨k, v⟩ := p
    have h' := List.pairwise_cons.1 h
    have ih := ih h'.2
    by_cases ha : k < mid
    · -- head is (possibly) in the left part, never in the right
      have hr : (decide (mid ≤ k) && decide (k < e)) = false := by simp; omega
      by_cases hs : s ≤ k
      · have hl1 : (decide (s ≤ k) && decide (k < mid)) = true := by simp; omega
        have hl2 : (decide (s ≤ k) && decide (k < e)) = true := by simp; omega
        simp only [List.filter, hr, hl1, hl2, ih, List.cons_append]
      · have hl1 : (decide (s ≤ k) && decide (k < mid)) = false := by simp; omega
        have hl2 : (decide (s ≤ k) && decide (k < e)) = false := by simp; omega
        simp only [List.filter, hr, hl1, hl2, ih]
    · -- head ≥ mid: nothing of the list is in the left part
      have hnil : (List.filter (fun p : Nat × T => decide (s ≤ p.1) && decide (p.1 < mid))
          ((k, v) :: rest)) = [] := by
        rw [List.filter_eq_nil_iff]
        intro q hq
        simp only [List.mem_cons] at hq
        rcases hq with hq | hq
        · subst hq; simp; omega
        · have := h'.1 q hq; simp at this ⊢; omega
      rw [hnil, List.nil_append]
      apply List.filter_congr
      intro q hq
      simp only [List.mem_cons] at hq
      have hq1 : mid ≤ q.1 := by
        rcases hq with hq | hq
        · subst hq; simp; omega
        · have := h'.1 q hq; simp at this; omega
      simp [hq1]; omega

theorem filter_singleton_range (l : List (Nat × T)) (h : KeysAsc l) (s : Nat) :
    l.filter (fun p => s ≤ p.1 && p.1 < s + 1) =
      match assocGet s l with
      | some x => [(s, x)]
      | none => [] := by
  induction l with
  | nil => simp [assocGet]
  | cons p rest ih =>
    obtain ⟨k, v⟩ := p
    have h' := List.pairwise_cons.1 h
    have ih := ih h'.2
    by_cases hk : s = k
    · subst hk
      have hrest : rest.filter (fun p => decide (s ≤ p.1) && decide (p.1 < s + 1)) = [] := by
        rw [List.filter_eq_nil_iff]
        intro q hq
        have := h'.1 q hq; simp at this ⊢; omega
      simp [List.filter, assocGet, hrest]
    · have hf : (decide (s ≤ k) && decide (k < s + 1)) = false := by simp; omega
      simp only [List.filter, hf, assocGet, if_neg hk, ih]

namespace UMap

/-! ## well-formedness -/

/-- `BTreeMap`: strictly ascending keys. The vectors carry no constraint. -/
def WF : UMap T → Prop
  | .btree l => KeysAsc l
  | .vec _ => True
  | .maxvec _ _ => True

/-- `MaxMap`: every key is at most `max_key`. -/
def MaxOK : UMap T → Prop
  | .maxvec v mk => ∀ k, ((UMap.maxvec v mk).get k).isSome → k ≤ mk
  | _ => True

/-- `MaxMap`: `max_key` is an upper bound of the keys and, unless it still has its initial value
`0`, is itself a key. This is what makes `max_index` exact. -/
def MaxExact : UMap T → Prop
  | .maxvec v mk => (∀ k, ((UMap.maxvec v mk).get k).isSome → k ≤ mk) ∧
      (mk = 0 ∨ ((UMap.maxvec v mk).get mk).isSome)
  | _ => True

theorem MaxExact.maxOK {m : UMap T} (h : m.MaxExact) : m.MaxOK := by
  cases m with
  | btree l => trivial
  | vec v => trivial
  | maxvec v mk => exact h.1

/-- the abstraction function -/
def toFun (m : UMap T) : Nat → Option T := m.get

theorem WF_empty (k : MapKind) : (UMap.empty k : UMap T).WF := by
  cases k <;> simp [UMap.empty, WF, KeysAsc]

theorem MaxExact_empty (k : MapKind) : (UMap.empty k : UMap T).MaxExact := by
  cases k <;> simp [UMap.empty, MaxExact, UMap.get]

theorem WF_insert (m : UMap T) (hm : m.WF) (k : Nat) (x : T) : (m.insert k x).WF := by
  cases m with
  | btree l => exact keysAsc_assocInsert k x l hm
  | vec v => trivial
  | maxvec v mk => trivial

theorem WF_insertEntry (m : UMap T) (hm : m.WF) (k : Nat) (x : T) : (m.insertEntry k x).WF := by
  cases m with
  | btree l => exact keysAsc_assocInsert k x l hm
  | vec v => trivial
  | maxvec v mk => trivial

theorem kind_insert (m : UMap T) (k : Nat) (x : T) : (m.insert k x).kind = m.kind := by
  cases m <;> rfl

theorem kind_insertEntry (m : UMap T) (k : Nat) (x : T) : (m.insertEntry k x).kind = m.kind := by
  cases m <;> rfl

theorem kind_empty (k : MapKind) : (UMap.empty k : UMap T).kind = k := by cases k <;> rfl

/-! ## `entries` and `get` -/

theorem entries_keysAsc (m : UMap T) (hm : m.WF) : KeysAsc m.entries := by
  cases m with
  | btree l => exact hm
  | vec v => exact keysAsc_vecEntriesFrom 0 v
  | maxvec v mk => exact keysAsc_vecEntriesFrom 0 v

/-- `entries` has strictly ascending keys. -/
theorem entries_pairwise (m : UMap T) (hm : m.WF) :
    m.entries.Pairwise (fun a b => a.1 < b.1) := entries_keysAsc m hm

theorem get_eq_assocGet (m : UMap T) (k : Nat) : m.get k = assocGet k m.entries := by
  cases m with
  | btree l => rfl
  | vec v => simp [UMap.get, UMap.entries, assocGet_vecEntriesFrom]
  | maxvec v mk => simp [UMap.get, UMap.entries, assocGet_vecEntriesFrom]

theorem get_eq_some_iff (m : UMap T) (hm : m.WF) (k : Nat) (v : T) :
    m.get k = some v ↔ (k, v) ∈ m.entries := by
  rw [get_eq_assocGet]; exact assocGet_eq_some_iff k v _ (entries_keysAsc m hm)

theorem get_isSome_iff (m : UMap T) (k : Nat) : (m.get k).isSome ↔ ∃ v, (k, v) ∈ m.entries := by
  rw [get_eq_assocGet]; exact assocGet_isSome_iff k _

theorem get_insert (m : UMap T) (k k' : Nat) (x : T) :
    (m.insert k x).get k' = if k' = k then some x else m.get k' := by
  cases m with
  | btree l => exact assocGet_assocInsert k k' x l
  | vec v => exact getElem?_vecSet v k k' x
  | maxvec v mk => exact getElem?_vecSet v k k' x

theorem get_insertEntry (m : UMap T) (k k' : Nat) (x : T) :
    (m.insertEntry k x).get k' = if k' = k then some x else m.get k' := by
  cases m with
  | btree l => exact assocGet_assocInsert k k' x l
  | vec v => exact getElem?_vecSet v k k' x
  | maxvec v mk => exact getElem?_vecSet v k k' x

theorem get_empty (kd : MapKind) (k : Nat) : (UMap.empty kd : UMap T).get k = none := by
  cases kd <;> simp [UMap.empty, UMap.get, assocGet]

/-- `entries` is determined by `get`. -/
theorem entries_ext (m1 m2 : UMap T) (h1 : m1.WF) (h2 : m2.WF)
    (h : ∀ k, m1.get k = m2.get k) : m1.entries = m2.entries := by
  apply keysAsc_ext _ _ (entries_keysAsc m1 h1) (entries_keysAsc m2 h2)
  intro k; rw [← get_eq_assocGet, ← get_eq_assocGet]; exact h k

/-! ## `range`, `hasInRange`, `isEmpty`, `len` -/

theorem range_def (m : UMap T) (s e : Nat) :
    m.range s e = m.entries.filter (fun p => s ≤ p.1 && p.1 < e) := rfl

theorem mem_range_iff (m : UMap T) (hm : m.WF) (s e k : Nat) (v : T) :
    (k, v) ∈ m.range s e ↔ m.get k = some v ∧ s ≤ k ∧ k < e := by
  rw [range_def, List.mem_filter, get_eq_some_iff m hm]; simp

theorem range_keysAsc (m : UMap T) (hm : m.WF) (s e : Nat) : KeysAsc (m.range s e) :=
  keysAsc_filter _ _ (entries_keysAsc m hm)

theorem mem_range_bounds (m : UMap T) (s e : Nat) (q : Nat × T) (hq : q ∈ m.range s e) :
    s ≤ q.1 ∧ q.1 < e := by
  rw [range_def, List.mem_filter] at hq; simpa using hq.2

theorem assocGet_range (m : UMap T) (s e k : Nat) :
    assocGet k (m.range s e) = if s ≤ k ∧ k < e then m.get k else none := by
  rw [range_def, get_eq_assocGet]
  have := assocGet_filter m.entries (fun k => decide (s ≤ k) && decide (k < e)) k
  simpa using this

theorem hasInRange_iff (m : UMap T) (s e : Nat) :
    m.hasInRange s e = true ↔ ∃ k, s ≤ k ∧ k < e ∧ (m.get k).isSome := by
  unfold hasInRange
  constructor
  · intro h
    cases hr : m.range s e with
    | nil => rw [hr] at h; simp at h
    | cons p rest =>
      have hp : p ∈ m.range s e := by rw [hr]; simp
      have hb := mem_range_bounds m s e p hp
      refine ⟨p.1, hb.1, hb.2, ?_⟩
      rw [get_isSome_iff]
      rw [range_def, List.mem_filter] at hp
      exact ⟨p.2, hp.1⟩
  · rintro ⟨k, h1, h2, h3⟩
    obtain ⟨v, hv⟩ := (get_isSome_iff m k).1 h3
    have : (k, v) ∈ m.range s e := by
      rw [range_def, List.mem_filter]; refine ⟨hv, ?_⟩; simp; omega
    cases hr : m.range s e with
    | nil => rw [hr] at this; simp at this
    | cons p rest => simp

theorem hasInRange_eq_false_iff (m : UMap T) (s e : Nat) :
    m.hasInRange s e = false ↔ m.range s e = [] := by
  unfold hasInRange; cases m.range s e <;> simp

theorem hasInRange_eq_true_iff_ne_nil (m : UMap T) (s e : Nat) :
    m.hasInRange s e = true ↔ m.range s e ≠ [] := by
  unfold hasInRange; cases m.range s e <;> simp

theorem isEmpty_iff (m : UMap T) : m.isEmpty = true ↔ ∀ k, m.get k = none := by
  unfold isEmpty
  constructor
  · intro h k
    rw [get_eq_assocGet]
    rw [List.isEmpty_iff] at h; rw [h]; rfl
  · intro h
    cases he : m.entries with
    | nil => rfl
    | cons p rest =>
      have : (m.get p.1).isSome := by
        rw [get_isSome_iff]; exact ⟨p.2, by rw [he]; simp⟩
      rw [h p.1] at this; simp at this

theorem isEmpty_eq_false_iff (m : UMap T) : m.isEmpty = false ↔ ∃ k, (m.get k).isSome := by
  constructor
  · intro h
    apply Classical.byContradiction
    intro hn
    have : m.isEmpty = true := (isEmpty_iff m).2 (fun k => by
      cases hg : m.get k with
      | none => rfl
      | some v => exact absurd ⟨k, by simp [hg]⟩ hn)
    rw [h] at this; cases this
  · rintro ⟨k, hk⟩
    cases hi : m.isEmpty with
    | false => rfl
    | true => rw [(isEmpty_iff m).1 hi k] at hk; simp at hk

theorem len_eq (m : UMap T) : m.len = m.entries.length := rfl

theorem len_eq_zero_iff (m : UMap T) : m.len = 0 ↔ m.isEmpty = true := by
  unfold len isEmpty; cases m.entries <;> simp

/-- the whole map is its range over any interval containing all keys -/
theorem range_all (m : UMap T) (e : Nat) (h : ∀ q ∈ m.entries, q.1 < e) :
    m.range 0 e = m.entries := by
  rw [range_def, List.filter_eq_self]
  intro q hq; simpa using h q hq

theorem range_split (m : UMap T) (hm : m.WF) (s mid e : Nat) (h1 : s ≤ mid) (h2 : mid ≤ e) :
    m.range s e = m.range s mid ++ m.range mid e :=
  filter_range_split _ (entries_keysAsc m hm) s mid e h1 h2

theorem range_singleton (m : UMap T) (hm : m.WF) (s : Nat) :
    m.range s (s + 1) = match m.get s with
      | some x => [(s, x)]
      | none => [] := by
  rw [get_eq_assocGet]; exact filter_singleton_range _ (entries_keysAsc m hm) s

theorem range_empty_of_le (m : UMap T) (s e : Nat) (h : e ≤ s) : m.range s e = [] := by
  rw [range_def, List.filter_eq_nil_iff]
  intro q _; simp; omega

/-! ## `maxIndex` -/

theorem keysAsc_getLast? (l : List (Nat × T)) (h : KeysAsc l) (k : Nat) :
    l.getLast?.map (·.1) = some k ↔ (∃ v, (k, v) ∈ l) ∧ ∀ q ∈ l, q.1 ≤ k := by
  constructor
  · intro hk
    rw [Option.map_eq_some_iff] at hk
    obtain ⟨a, ha, hak⟩ := hk
    obtain ⟨ys, rfl⟩ := List.getLast?_eq_some_iff.1 ha
    have hp := List.pairwise_append.1 h
    subst hak
    refine ⟨⟨a.2, by simp⟩, ?_⟩
    intro q hq
    simp only [List.mem_append, List.mem_singleton] at hq
    rcases hq with hq | hq
    · exact Nat.le_of_lt (hp.2.2 q hq a (by simp))
    · subst hq; exact Nat.le_refl _
  · rintro ⟨⟨v, hv⟩, hmax⟩
    rcases List.eq_nil_or_concat l with hl | ⟨ys, a, hl⟩
    · subst hl; simp at hv
    · rw [List.concat_eq_append] at hl
      subst hl
      have hp := List.pairwise_append.1 h
      simp only [List.getLast?_append, List.getLast?_singleton, Option.some_or, Option.map_some,
        Option.some.injEq] at *
      simp only [List.mem_append, List.mem_singleton] at hv
      rcases hv with hv | hv
      · have h1 := hp.2.2 _ hv a (by simp)
        have h2 := hmax a (by simp)
        simp at h1; omega
      · rw [← hv]

/-- `max_index` is the largest key: for `BTreeMap` and `VecMap` always, for `MaxMap` under
`MaxExact`. -/
theorem maxIndex_eq_some_iff (m : UMap T) (hm : m.WF) (hx : m.MaxExact) (k : Nat) :
    m.maxIndex = some k ↔ (m.get k).isSome ∧ ∀ k', (m.get k').isSome → k' ≤ k := by
  have key : m.entries.getLast?.map (·.1) = some k ↔
      (m.get k).isSome ∧ ∀ k', (m.get k').isSome → k' ≤ k := by
    rw [keysAsc_getLast? _ (entries_keysAsc m hm), get_isSome_iff]
    constructor
    · rintro ⟨h1, h2⟩
      refine ⟨h1, fun k' hk' => ?_⟩
      obtain ⟨v, hv⟩ := (get_isSome_iff m k').1 hk'
      exact h2 _ hv
    · rintro ⟨h1, h2⟩
      refine ⟨h1, fun q hq => h2 q.1 ((get_isSome_iff m q.1).2 ⟨q.2, hq⟩)⟩
  cases m with
  | btree l => exact key
  | vec v => exact key
  | maxvec v mk =>
    obtain ⟨hub, hkey⟩ := hx
    simp only [maxIndex]
    cases he : vecEntriesFrom 0 v with
    | nil =>
      have hnone : ∀ k, (UMap.maxvec v mk).get k = none := by
        intro k; rw [get_eq_assocGet]; simp [entries, he, assocGet]
      simp [hnone]
    | cons p rest =>
      have hp : ((UMap.maxvec v mk).get p.1).isSome := by
        rw [get_isSome_iff]; exact ⟨p.2, by simp [entries, he]⟩
      have hmk : ((UMap.maxvec v mk).get mk).isSome := by
        rcases hkey with h0 | h
        · have := hub p.1 hp
          have e : p.1 = mk := by omega
          rw [← e]; exact hp
        · exact h
      simp only [List.isEmpty_cons, Bool.false_eq_true, if_false, Option.some.injEq]
      constructor
      · intro e; subst e; exact ⟨hmk, hub⟩
      · rintro ⟨h1, h2⟩
        have := hub k h1
        have := h2 mk hmk
        omega

/-- `MaxMap::max_index` under the weaker `MaxOK`: it is `some max_key` exactly when the map is
non-empty, and then an upper bound of the keys (not necessarily a key). -/
theorem maxIndex_maxvec (v : List (Option T)) (mk : Nat) :
    (UMap.maxvec v mk).maxIndex = if (UMap.maxvec v mk).isEmpty then none else some mk := rfl

theorem maxIndex_upper_of_maxOK (m : UMap T) (hm : m.WF) (hx : m.MaxOK) (mx : Nat)
    (h : m.maxIndex = some mx) : ∀ k, (m.get k).isSome → k ≤ mx := by
  cases m with
  | btree l => exact ((maxIndex_eq_some_iff _ hm trivial mx).1 h).2
  | vec v => exact ((maxIndex_eq_some_iff _ hm trivial mx).1 h).2
  | maxvec v mk =>
    simp only [maxIndex] at h
    split at h
    · cases h
    · cases h; exact hx

theorem maxIndex_eq_none_iff (m : UMap T) : m.maxIndex = none ↔ m.isEmpty = true := by
  cases m with
  | btree l => cases l <;> simp [maxIndex, isEmpty, entries]
  | vec v => simp only [maxIndex, isEmpty, entries]; cases vecEntriesFrom 0 v <;> simp
  | maxvec v mk => simp only [maxIndex, isEmpty, entries]; cases vecEntriesFrom 0 v <;> simp

theorem MaxOK_insert (m : UMap T) (h : m.MaxOK) (k : Nat) (x : T) : (m.insert k x).MaxOK := by
  cases m with
  | btree l => trivial
  | vec v => trivial
  | maxvec v mk =>
    intro k' hk'
    have e := get_insert (UMap.maxvec v mk) k k' x
    simp only [insert] at e hk'
    rw [e] at hk'
    by_cases hkk : k' = k
    · subst hkk; split <;> omega
    · rw [if_neg hkk] at hk'
      have := h k' hk'
      split <;> omega

/-- `insertEntry` keeps `MaxOK` only for keys not above `max_key` (it does not raise `max_key`). -/
theorem MaxOK_insertEntry (m : UMap T) (h : m.MaxOK) (k : Nat) (x : T)
    (hk : ∀ v mk, m = .maxvec v mk → k ≤ mk) : (m.insertEntry k x).MaxOK := by
  cases m with
  | btree l => trivial
  | vec v => trivial
  | maxvec v mk =>
    intro k' hk'
    have e := get_insertEntry (UMap.maxvec v mk) k k' x
    simp only [insertEntry] at e hk'
    rw [e] at hk'
    by_cases hkk : k' = k
    · subst hkk; exact hk v mk rfl
    · rw [if_neg hkk] at hk'; exact h k' hk'

theorem MaxExact_insert (m : UMap T) (h : m.MaxExact) (k : Nat) (x : T) :
    (m.insert k x).MaxExact := by
  cases m with
  | btree l => trivial
  | vec v => trivial
  | maxvec v mk =>
    have hok := MaxOK_insert _ (MaxExact.maxOK h) k x
    refine ⟨hok, ?_⟩
    right
    have e := fun k' => get_insert (UMap.maxvec v mk) k k' x
    simp only [insert] at e ⊢
    rw [e]
    by_cases hgt : k > mk
    · simp [hgt]
    · rw [if_neg hgt]
      by_cases hkk : mk = k
      · simp [hkk]
      · rw [if_neg hkk]
        rcases h.2 with h0 | h1
        · omega
        · exact h1

theorem MaxExact_insertEntry (m : UMap T) (h : m.MaxExact) (k : Nat) (x : T)
    (hk : ∀ v mk, m = .maxvec v mk → k ≤ mk) : (m.insertEntry k x).MaxExact := by
  cases m with
  | btree l => trivial
  | vec v => trivial
  | maxvec v mk =>
    have hok := MaxOK_insertEntry _ (MaxExact.maxOK h) k x hk
    refine ⟨hok, ?_⟩
    have e := fun k' => get_insertEntry (UMap.maxvec v mk) k k' x
    simp only [insertEntry] at e ⊢
    rw [e]
    have hle := hk v mk rfl
    by_cases hkk : mk = k
    · right; simp [hkk]
    · rw [if_neg hkk]
      rcases h.2 with h0 | h1
      · omega
      · right; exact h1

/-- The side condition is necessary: an `insertEntry` above `max_key` makes `MaxMap::max_index`
under-report (`VacantEntry::insert` bypasses `MaxMap::insert`). -/
example : ((UMap.empty .maxvec : UMap Nat).insertEntry 3 7).maxIndex = some 0
    ∧ ((UMap.empty .maxvec : UMap Nat).insertEntry 3 7).get 3 = some 7
    ∧ ((UMap.empty .btree : UMap Nat).insertEntry 3 7).maxIndex = some 3 := by decide

/-! ## C14: the three kinds agree on every sequence of operations -/

/-- one map operation: `true ↦ insert`, `false ↦ insertEntry`. -/
def applyOp (m : UMap T) (op : Bool × Nat × T) : UMap T :=
  if op.1 then m.insert op.2.1 op.2.2 else m.insertEntry op.2.1 op.2.2

def build (k : MapKind) (ops : List (Bool × Nat × T)) : UMap T := ops.foldl applyOp (UMap.empty k)

theorem get_applyOp (m : UMap T) (op : Bool × Nat × T) (k' : Nat) :
    (applyOp m op).get k' = if k' = op.2.1 then some op.2.2 else m.get k' := by
  unfold applyOp; split
  · exact get_insert m _ k' _
  · exact get_insertEntry m _ k' _

theorem WF_applyOp (m : UMap T) (hm : m.WF) (op : Bool × Nat × T) : (applyOp m op).WF := by
  unfold applyOp; split
  · exact WF_insert m hm _ _
  · exact WF_insertEntry m hm _ _

theorem kind_applyOp (m : UMap T) (op : Bool × Nat × T) : (applyOp m op).kind = m.kind := by
  unfold applyOp; split
  · exact kind_insert m _ _
  · exact kind_insertEntry m _ _

theorem WF_foldl (ops : List (Bool × Nat × T)) (m : UMap T) (hm : m.WF) :
    (ops.foldl applyOp m).WF := by
  induction ops generalizing m with
  | nil => exact hm
  | cons op rest ih => exact ih _ (WF_applyOp m hm op)

theorem kind_foldl (ops : List (Bool × Nat × T)) (m : UMap T) :
    (ops.foldl applyOp m).kind = m.kind := by
  induction ops generalizing m with
  | nil => rfl
  | cons op rest ih => rw [List.foldl_cons, ih, kind_applyOp]

theorem get_foldl_congr (ops : List (Bool × Nat × T)) (m1 m2 : UMap T)
    (h : ∀ k, m1.get k = m2.get k) (k : Nat) :
    (ops.foldl applyOp m1).get k = (ops.foldl applyOp m2).get k := by
  induction ops generalizing m1 m2 with
  | nil => exact h k
  | cons op rest ih =>
    apply ih
    intro k'
    rw [get_applyOp, get_applyOp, h k']

theorem WF_build (k : MapKind) (ops : List (Bool × Nat × T)) : (build k ops).WF :=
  WF_foldl ops _ (WF_empty k)

theorem kind_build (k : MapKind) (ops : List (Bool × Nat × T)) : (build k ops).kind = k := by
  unfold build; rw [kind_foldl, kind_empty]

/-- same operations ⇒ same abstraction, whatever the kinds. -/
theorem C14_toFun_agree (ops : List (Bool × Nat × T)) (k1 k2 : MapKind) :
    (build k1 ops).toFun = (build k2 ops).toFun := by
  funext k
  exact get_foldl_congr ops _ _ (fun k => by rw [get_empty, get_empty]) k

/-- **C14**: two maps of any kinds built by the same sequence of `insert` / `insertEntry` calls
have the same entries. -/
theorem C14_map_ops_agree (ops : List (Bool × Nat × T)) (k1 k2 : MapKind) :
    (build k1 ops).entries = (build k2 ops).entries :=
  entries_ext _ _ (WF_build k1 ops) (WF_build k2 ops)
    (fun k => congrFun (C14_toFun_agree ops k1 k2) k)

theorem C14_range_agree (ops : List (Bool × Nat × T)) (k1 k2 : MapKind) (s e : Nat) :
    (build k1 ops).range s e = (build k2 ops).range s e := by
  rw [range_def, range_def, C14_map_ops_agree ops k1 k2]

theorem C14_hasInRange_agree (ops : List (Bool × Nat × T)) (k1 k2 : MapKind) (s e : Nat) :
    (build k1 ops).hasInRange s e = (build k2 ops).hasInRange s e := by
  unfold hasInRange; rw [C14_range_agree ops k1 k2]

theorem C14_isEmpty_agree (ops : List (Bool × Nat × T)) (k1 k2 : MapKind) :
    (build k1 ops).isEmpty = (build k2 ops).isEmpty := by
  unfold isEmpty; rw [C14_map_ops_agree ops k1 k2]

theorem C14_len_agree (ops : List (Bool × Nat × T)) (k1 k2 : MapKind) :
    (build k1 ops).len = (build k2 ops).len := by
  unfold len; rw [C14_map_ops_agree ops k1 k2]

/-- The side condition for `maxIndex`: every `insertEntry` key is at most the largest key passed
to `insert` so far (`mk`, initially `0`). -/
def OpsOK : Nat → List (Bool × Nat × T) → Prop
  | _, [] => True
  | mk, (true, k, _) :: rest => OpsOK (if k > mk then k else mk) rest
  | mk, (false, k, _) :: rest => k ≤ mk ∧ OpsOK mk rest

theorem MaxExact_foldl (ops : List (Bool × Nat × T)) (v : List (Option T)) (mk : Nat)
    (h : (UMap.maxvec v mk).MaxExact) (hops : OpsOK mk ops) :
    (ops.foldl applyOp (UMap.maxvec v mk)).MaxExact := by
  induction ops generalizing v mk with
  | nil => exact h
  | cons op rest ih =>
    obtain ⟨b, k, x⟩ := op
    cases b with
    | true =>
      simp only [OpsOK] at hops
      have := MaxExact_insert _ h k x
      simp only [List.foldl_cons, applyOp, if_true]
      simp only [insert] at this ⊢
      exact ih _ _ this hops
    | false =>
      simp only [OpsOK] at hops
      have := MaxExact_insertEntry _ h k x (by intro v' mk' e; cases e; exact hops.1)
      simp only [List.foldl_cons, applyOp, Bool.false_eq_true, if_false]
      simp only [insertEntry] at this ⊢
      exact ih _ _ this hops.2

theorem MaxExact_of_kind_ne (m : UMap T) (h : m.kind ≠ .maxvec) : m.MaxExact := by
  cases m with
  | btree l => trivial
  | vec v => trivial
  | maxvec v mk => exact absurd rfl h

theorem MaxExact_build (k : MapKind) (ops : List (Bool × Nat × T))
    (h : k = .maxvec → OpsOK 0 ops) : (build k ops).MaxExact := by
  cases k with
  | btree => exact MaxExact_of_kind_ne _ (by rw [kind_build]; decide)
  | vec => exact MaxExact_of_kind_ne _ (by rw [kind_build]; decide)
  | maxvec => exact MaxExact_foldl ops [] 0 (MaxExact_empty .maxvec) (h rfl)

/-- **C14**, `max_index`: agreement holds between `BTreeMap` and `VecMap` unconditionally; as soon
as a `MaxMap` is involved it needs `OpsOK 0 ops`. -/
theorem C14_maxIndex_agree (ops : List (Bool × Nat × T)) (k1 k2 : MapKind)
    (h : k1 = .maxvec ∨ k2 = .maxvec → OpsOK 0 ops) :
    (build k1 ops).maxIndex = (build k2 ops).maxIndex := by
  apply Option.ext
  intro k
  rw [maxIndex_eq_some_iff _ (WF_build k1 ops) (MaxExact_build k1 ops (fun e => h (Or.inl e))),
      maxIndex_eq_some_iff _ (WF_build k2 ops) (MaxExact_build k2 ops (fun e => h (Or.inr e)))]
  have e : ∀ k, (build k1 ops).get k = (build k2 ops).get k :=
    fun k => congrFun (C14_toFun_agree ops k1 k2) k
  simp only [e]

/-- non-vacuity / concrete instance: a mixed sequence of operations, all three kinds. -/
def exampleOps : List (Bool × Nat × Nat) :=
  [(true, 5, 50), (false, 2, 20), (true, 9, 90), (false, 5, 51)]

example : OpsOK 0 exampleOps := by simp [OpsOK, exampleOps]

example :
    (build .btree exampleOps).entries = [(2, 20), (5, 51), (9, 90)] ∧
    (build .vec exampleOps).entries = [(2, 20), (5, 51), (9, 90)] ∧
    (build .maxvec exampleOps).entries = [(2, 20), (5, 51), (9, 90)] ∧
    (build .maxvec exampleOps).maxIndex = some 9 ∧ (build .btree exampleOps).maxIndex = some 9 := by
  decide

end UMap
end Milhouse
