import Milhouse.Proofs.LevelIter
/-!
# `Builder::push_node` at every level (C17), `List::pop_front` (C11) and subtree reuse (C10)

The builder's stack invariant of `Proofs/Builder.lean` is generalised in two directions:
* the builder runs at `level = s + pd` and is fed whole subtrees of depth `s` with `push_node`
  (`mergeLax`), the last of which may be partially filled;
* the invariant is stated for an arbitrary *representation relation* `R j xs t` ("the stack entry
  `t` of depth `s + j` represents the block `xs`"), closed under the two ways the builder makes
  nodes (`RepRules`). Instantiated with `t.erase = canon pf (s+j) xs` it gives canonicity of the
  result (C17/C11); instantiated with "the depth-`s` subtree of `t` at unit position `k` is the
  `k`-th pushed node" it gives physical reuse (C10).
-/
namespace Milhouse
variable {T H X : Type}

/-! ## The generic stack invariant -/

/-- `st` (top first) holds, for each set bit `i` of `n`, an entry related by `R (j+i)` to a block
of exactly `c (j+i)` items; bottom to top the blocks spell `xs`. -/
def GStk (R : Nat → List X → Tree T → Prop) (c : Nat → Nat) (j n : Nat) (xs : List X)
    (st : List (Tree T × Bool)) : Prop :=
  if n = 0 then xs = [] ∧ st = []
  else if n % 2 = 0 then GStk R c (j + 1) (n / 2) xs st
  else ∃ t f st' A B, st = (t, f) :: st' ∧ xs = A ++ B ∧ B.length = c j ∧ R j B t ∧
        GStk R c (j + 1) (n / 2) A st'
termination_by n
decreasing_by all_goals omega

/-- as `GStk`, but the top entry holds between one item and a full block. -/
def GPStk (R : Nat → List X → Tree T → Prop) (c : Nat → Nat) (j n : Nat) (xs : List X)
    (st : List (Tree T × Bool)) : Prop :=
  if n = 0 then False
  else if n % 2 = 0 then GPStk R c (j + 1) (n / 2) xs st
  else ∃ t f st' A S, st = (t, f) :: st' ∧ xs = A ++ S ∧ S ≠ [] ∧ S.length ≤ c j ∧ R j S t ∧
        GStk R c (j + 1) (n / 2) A st'
termination_by n
decreasing_by all_goals omega

section Generic
variable (R : Nat → List X → Tree T → Prop) (c : Nat → Nat)

theorem GStk_zero (j : Nat) (xs : List X) (st : List (Tree T × Bool)) :
    GStk R c j 0 xs st ↔ xs = [] ∧ st = [] := by
  rw [GStk]; simp

theorem GStk_even (j n : Nat) (xs : List X) (st : List (Tree T × Bool))
    (h0 : n ≠ 0) (h : n % 2 = 0) : GStk R c j n xs st ↔ GStk R c (j + 1) (n / 2) xs st := by
  rw [GStk]; simp [h0, h]

theorem GStk_odd (j n : Nat) (xs : List X) (st : List (Tree T × Bool))
    (h : n % 2 = 1) : GStk R c j n xs st ↔
      ∃ t f st' A B, st = (t, f) :: st' ∧ xs = A ++ B ∧ B.length = c j ∧ R j B t ∧
        GStk R c (j + 1) (n / 2) A st' := by
  have h0 : n ≠ 0 := by omega
  have h1 : ¬ (n % 2 = 0) := by omega
  rw [GStk]; simp only [h0, h1, if_false]

theorem GPStk_zero (j : Nat) (xs : List X) (st : List (Tree T × Bool)) :
    ¬ GPStk R c j 0 xs st := by
  rw [GPStk]; simp

theorem GPStk_even (j n : Nat) (xs : List X) (st : List (Tree T × Bool))
    (h0 : n ≠ 0) (h : n % 2 = 0) : GPStk R c j n xs st ↔ GPStk R c (j + 1) (n / 2) xs st := by
  rw [GPStk]; simp [h0, h]

theorem GPStk_odd (j n : Nat) (xs : List X) (st : List (Tree T × Bool))
    (h : n % 2 = 1) : GPStk R c j n xs st ↔
      ∃ t f st' A S, st = (t, f) :: st' ∧ xs = A ++ S ∧ S ≠ [] ∧ S.length ≤ c j ∧ R j S t ∧
        GStk R c (j + 1) (n / 2) A st' := by
  have h0 : n ≠ 0 := by omega
  have h1 : ¬ (n % 2 = 0) := by omega
  rw [GPStk]; simp only [h0, h1, if_false]

theorem GPStk_ne_nil (n : Nat) : ∀ (j : Nat) (xs : List X), ¬ GPStk R c j n xs [] := by
  induction n using Nat.strongRecOn with
  | _ n ih =>
    intro j xs hP
    by_cases h0 : n = 0
    · subst h0; exact GPStk_zero R c j xs [] hP
    · rcases Nat.mod_two_eq_zero_or_one n with h | h
      · rw [GPStk_even R c j n xs [] h0 h] at hP
        exact ih (n / 2) (by omega) _ _ hP
      · rw [GPStk_odd R c j n xs [] h] at hP
        obtain ⟨t, f, st', A, S, hst, _⟩ := hP
        cases hst

end Generic

/-- closure of a representation relation under the builder's two node constructions: joining a
full left block with a (possibly partial) right block, and padding a (possibly partial) block
with the zero subtree of its own depth `s + j`. -/
structure RepRules (R : Nat → List X → Tree T → Prop) (c : Nat → Nat) (s : Nat) : Prop where
  c_succ : ∀ j, c (j + 1) = 2 * c j
  c_pos : ∀ j, 0 < c j
  node : ∀ j id l r B S, R j B l → B.length = c j → R j S r → S ≠ [] → S.length ≤ c j →
    R (j + 1) (B ++ S) (Tree.node id l r)
  pad : ∀ j id zid t S, R j S t → S ≠ [] → S.length ≤ c j →
    R (j + 1) S (Tree.node id t (Tree.zero zid (s + j)))

section GenericBuilder
variable {R : Nat → List X → Tree T → Prop} {c : Nat → Nat} {s : Nat}

/-- The carry chain of `push_node`: adding one level-`j` block `C` (full, or partial if it is the
last one) to a stack representing `n` full ones performs exactly `tzr (n+1)` merges — the
"missing left sibling" branch of the loop is never taken — and yields the stack for `n+1`. -/
theorem mergeLax_spec (hR : RepRules R c s) (z : H) (n : Nat) :
    ∀ (j : Nat) (xs : List X) (st : List (Tree T × Bool)) (top : Tree T) (C : List X) (fl : Bool)
      (h : Heap H), GStk R c j n xs st → R j C top → C ≠ [] → C.length ≤ c j →
      ∃ top' fl' st' h', Builder.mergeLax z (tzr (n + 1)) h (top, fl) st = ((top', fl'), st', h') ∧
        GPStk R c j (n + 1) (xs ++ C) ((top', fl') :: st') ∧
        (C.length = c j → GStk R c j (n + 1) (xs ++ C) ((top', fl') :: st')) := by
  induction n using Nat.strongRecOn with
  | _ n ih =>
    intro j xs st top C fl h hS htop hC0 hCl
    rcases Nat.mod_two_eq_zero_or_one n with hn | hn
    · rw [tzr_succ_even n hn]
      have e : (n + 1) / 2 = n / 2 := by omega
      have hrest : GStk R c (j + 1) ((n + 1) / 2) xs st := by
        rw [e]
        by_cases h0 : n = 0
        · subst h0; rw [GStk_zero] at hS; simp [hS.1, hS.2, GStk_zero]
        · exact (GStk_even R c j n xs st h0 hn).1 hS
      refine ⟨top, fl, st, h, by simp [Builder.mergeLax], ?_, ?_⟩
      · rw [GPStk_odd R c j (n + 1) _ _ (by omega)]
        exact ⟨top, fl, st, xs, C, rfl, rfl, hC0, hCl, htop, hrest⟩
      · intro hfull
        rw [GStk_odd R c j (n + 1) _ _ (by omega)]
        exact ⟨top, fl, st, xs, C, rfl, rfl, hfull, htop, hrest⟩
    · rw [tzr_succ_odd n hn]
      rw [GStk_odd R c j n xs st hn] at hS
      obtain ⟨t, f, st', A, B, rfl, rfl, hB, ht, hA⟩ := hS
      have hnode : ∀ id, R (j + 1) (B ++ C) (Tree.node id t top) :=
        fun id => hR.node j id t top B C ht hB htop hC0 hCl
      obtain ⟨top', fl', st'', h', hm, hP, hF⟩ := ih (n / 2) (by omega) (j + 1) A st'
        (Tree.node (h.alloc z).1 t top) (B ++ C) true (h.alloc z).2 hA (hnode _)
        (by simp [hC0]) (by rw [List.length_append, hB, hR.c_succ]; omega)
      have e : (n + 1) / 2 = n / 2 + 1 := by omega
      refine ⟨top', fl', st'', h', ?_, ?_, ?_⟩
      · simp only [Builder.mergeLax]; exact hm
      · rw [GPStk_even R c j (n + 1) _ _ (by omega) (by omega), e, List.append_assoc]; exact hP
      · intro hfull
        rw [GStk_even R c j (n + 1) _ _ (by omega) (by omega), e, List.append_assoc]
        exact hF (by rw [List.length_append, hB, hfull, hR.c_succ]; omega)

/-- the configuration fields of a builder running at level `ℓ`. -/
structure BFix (pf : Option Nat) (D ℓ : Nat) (b : Builder T) : Prop where
  pf_eq : b.pf = pf
  depth_eq : b.depth = D
  level_eq : b.level = ℓ

theorem li_pow_split (D s pd ℓ : Nat) (hℓ : ℓ = s + pd) (hs : s ≤ D) :
    2 ^ (D + pd) = 2 ^ (D - s) * 2 ^ ℓ := by
  rw [← Nat.pow_add]; congr 1; omega

/-- **one `push_node`** of a depth-`s` subtree on a builder at level `ℓ = s + pd` that holds `k`
full ones: no `BuilderFull`, `tz (k+1)` merges, `length` advanced by the stated `len`. -/
theorem pushNode_spec (hR : RepRules R c s) (pf : Option Nat) (z : H) (D ℓ : Nat)
    (hℓ : ℓ = s + pdOf pf) (hs : s ≤ D) (hD : D + pdOf pf ≤ 63)
    (b : Builder T) (hb : BFix pf D ℓ b) (k : Nat) (hlen : b.length = k * 2 ^ ℓ)
    (hk : k < 2 ^ (D - s)) (xs : List X) (hS : GStk R c 0 k xs b.stack)
    (t : Tree T) (C : List X) (len : Nat) (ht : R 0 C t) (hC0 : C ≠ []) (hCl : C.length ≤ c 0)
    (h : Heap H) :
    ∃ b' h', b.pushNode z h t len = .ok (b', h') ∧ BFix pf D ℓ b' ∧ b'.length = b.length + len ∧
      GPStk R c 0 (k + 1) (xs ++ C) b'.stack ∧
      (C.length = c 0 → GStk R c 0 (k + 1) (xs ++ C) b'.stack) := by
  have hp : 0 < 2 ^ ℓ := Nat.pow_pos (by decide)
  have hcap : b.capacity = 2 ^ (D - s) * 2 ^ ℓ := by
    simp only [Builder.capacity, Builder.pd, hb.pf_eq, hb.depth_eq]
    exact li_pow_split D s (pdOf pf) ℓ hℓ hs
  have hne : ¬ (b.length = b.capacity) := by
    rw [hcap, hlen]
    have := Nat.mul_lt_mul_of_pos_right hk hp
    omega
  have h63 : 2 ^ (D - s) ≤ 2 ^ 63 := Nat.pow_le_pow_right (by decide) (by omega)
  have h64 : (2:Nat) ^ 63 < 2 ^ 64 := by decide
  have hmerges : (if b.level = 0 then tz (b.length / 2 ^ b.level + 1) - b.pd
      else tz (b.length / 2 ^ b.level + 1)) = tzr (k + 1) := by
    rw [hb.level_eq, hlen, Nat.mul_div_cancel _ hp, tz_eq_tzr (k + 1) (by omega) (by omega)]
    split
    · have : pdOf pf = 0 := by omega
      simp [Builder.pd, hb.pf_eq, this]
    · rfl
  obtain ⟨top', fl', st', h', hm, hP, hF⟩ :=
    mergeLax_spec hR z k 0 xs b.stack t C false h hS ht hC0 hCl
  refine ⟨{ b with stack := (top', fl') :: st', length := b.length + len }, h', ?_,
    ⟨hb.pf_eq, hb.depth_eq, hb.level_eq⟩, rfl, hP, hF⟩
  unfold Builder.pushNode
  rw [if_neg hne]
  simp only [hmerges, hm]

/-- The merge loop inside the padding loop of `finish`, at level `ℓ`. -/
theorem finishMergeUp_gspec (hR : RepRules R c s) (pf : Option Nat) (z : H) (b : Builder T)
    (ℓ : Nat) (hbpf : b.pf = pf) (hlev : b.level = ℓ) (hℓ : ℓ = s + pdOf pf) (next cnt : Nat) :
    ∀ (j m : Nat) (h : Heap H) (top : Tree T) (fl : Bool) (rest : List (Tree T × Bool))
      (A S : List X), m = next / 2 ^ j → m < 2 ^ cnt → GStk R c j m A rest → S ≠ [] →
      S.length ≤ c j → R j S top →
      ∃ st' h', Builder.finishMergeUp z b next cnt (s + j) h ((top, fl) :: rest) = .ok (st', h') ∧
        GPStk R c j (m + 1) (A ++ S) st' := by
  induction cnt with
  | zero =>
    intro j m h top fl rest A S _ hlt hS hS0 hSl htop
    have hm0 : m = 0 := by simpa using hlt
    subst hm0
    rw [GStk_zero] at hS
    obtain ⟨rfl, rfl⟩ := hS
    refine ⟨_, h, rfl, ?_⟩
    rw [GPStk_odd R c j 1 _ _ (by decide)]
    exact ⟨top, fl, [], [], S, rfl, rfl, hS0, hSl, htop, by simp [GStk_zero]⟩
  | succ cnt ih =>
    intro j m h top fl rest A S hm hlt hS hS0 hSl htop
    have hcond : (next * 2 ^ b.level) / 2 ^ (s + j + b.pd) % 2 = m % 2 := by
      simp only [hlev, Builder.pd, hbpf]
      rw [show s + j + pdOf pf = ℓ + j by omega, li_mul_pow_div, hm]
    rcases Nat.mod_two_eq_zero_or_one m with hpar | hpar
    · refine ⟨(top, fl) :: rest, h, ?_, ?_⟩
      · simp [Builder.finishMergeUp, hcond, hpar]
      · rw [GPStk_odd R c j (m + 1) _ _ (by omega)]
        refine ⟨top, fl, rest, A, S, rfl, rfl, hS0, hSl, htop, ?_⟩
        have e : (m + 1) / 2 = m / 2 := by omega
        rw [e]
        by_cases h0 : m = 0
        · subst h0; rw [GStk_zero] at hS; simp [hS.1, hS.2, GStk_zero]
        · exact (GStk_even R c j m A rest h0 hpar).1 hS
    · rw [GStk_odd R c j m A rest hpar] at hS
      obtain ⟨t, f, st', A', B, rfl, rfl, hB, ht, hA'⟩ := hS
      have hnode : ∀ id, R (j + 1) (B ++ S) (Tree.node id t top) :=
        fun id => hR.node j id t top B S ht hB htop hS0 hSl
      obtain ⟨st'', h', hm', hP⟩ := ih (j + 1) (m / 2) (h.alloc z).2
        (Tree.node (h.alloc z).1 t top) true st' A' (B ++ S)
        (by rw [hm, Nat.div_div_eq_div_mul, ← Nat.pow_succ])
        (by rw [Nat.pow_succ] at hlt; omega) hA' (by simp [hS0])
        (by rw [List.length_append, hR.c_succ]; omega) (hnode _)
      refine ⟨st'', h', ?_, ?_⟩
      · simp only [Builder.finishMergeUp, hcond, hpar, if_true]; exact hm'
      · rw [GPStk_even R c j (m + 1) _ _ (by omega) (by omega)]
        have e : (m + 1) / 2 = m / 2 + 1 := by omega
        rw [e, List.append_assoc]; exact hP

/-- The padding loop of `finish` at level `ℓ = s + pd`: from a stack with a partial top
representing `n` units at bit `j` it reaches a single entry of depth `D`, never underflows, and
uses at most `D - s - j + 1` units of fuel. -/
theorem finishPad_gspec (hR : RepRules R c s) (pf : Option Nat) (z : H) (b : Builder T)
    (D ℓ : Nat) (hb : BFix pf D ℓ b) (hℓ : ℓ = s + pdOf pf) (hs : s ≤ D) (hd : D + pdOf pf ≤ 63)
    (d : Nat) :
    ∀ (j n fuel : Nat) (xs : List X) (st : List (Tree T × Bool)) (h : Heap H),
      j + d = D - s → n ≤ 2 ^ d → GPStk R c j n xs st → d + 1 ≤ fuel →
      ∃ t f h', Builder.finishPad z b fuel (n * 2 ^ j) h st = .ok ([(t, f)], h') ∧
        R (D - s) xs t := by
  have hbpf := hb.pf_eq
  have hlev := hb.level_eq
  have hdep := hb.depth_eq
  induction d with
  | zero =>
    intro j n fuel xs st h hj hn hP hfuel
    have hn0 : n ≠ 0 := by intro h0; subst h0; exact GPStk_zero R c j xs st hP
    have hn1 : n = 1 := by simp at hn; omega
    subst hn1
    have hjD : j = D - s := by omega
    subst hjD
    rw [GPStk_odd R c _ 1 _ _ (by decide)] at hP
    obtain ⟨t, f, st', A, S, rfl, rfl, hS0, hSl, ht, hA⟩ := hP
    rw [show 1 / 2 = 0 by decide, GStk_zero] at hA
    obtain ⟨rfl, rfl⟩ := hA
    obtain ⟨fuel', rfl⟩ : ∃ fuel', fuel = fuel' + 1 := ⟨fuel - 1, by omega⟩
    refine ⟨t, f, h, ?_, by simpa using ht⟩
    have hcapeq : 1 * 2 ^ (D - s) * 2 ^ b.level = b.capacity := by
      simp only [Builder.capacity, Builder.pd, hbpf, hdep, hlev, Nat.one_mul]
      exact (li_pow_split D s (pdOf pf) ℓ hℓ hs).symm
    rw [Builder.finishPad, if_pos hcapeq]
  | succ d ih =>
    intro j n fuel xs st h hj hn hP hfuel
    have hn0 : n ≠ 0 := by intro h0; subst h0; exact GPStk_zero R c j xs st hP
    rcases Nat.mod_two_eq_zero_or_one n with hpar | hpar
    · rw [GPStk_even R c j n xs st hn0 hpar] at hP
      have := ih (j + 1) (n / 2) fuel xs st h (by omega) (by rw [Nat.pow_succ] at hn; omega) hP
        (by omega)
      rw [even_mul_pow n _ hpar]
      exact this
    · rw [GPStk_odd R c j n xs st hpar] at hP
      obtain ⟨t, f, st', A, S, rfl, rfl, hS0, hSl, ht, hA⟩ := hP
      obtain ⟨fuel', rfl⟩ : ∃ fuel', fuel = fuel' + 1 := ⟨fuel - 1, by omega⟩
      have hnlt : n < 2 ^ (d + 1) := by
        rcases Nat.lt_or_eq_of_le hn with h1 | h1
        · exact h1
        · rw [h1, Nat.pow_succ] at hpar; omega
      have hDs : D - s = j + d + 1 := by omega
      -- the loop condition is false
      have hne : ¬ (n * 2 ^ j * 2 ^ b.level = b.capacity) := by
        simp only [Builder.capacity, Builder.pd, hbpf, hdep, hlev]
        rw [Nat.mul_assoc, ← Nat.pow_add, show D + pdOf pf = (j + ℓ) + d + 1 by omega]
        exact odd_mul_pow_ne n _ d hpar
      -- the padding depth is `s + j`
      have hlt64 : n * 2 ^ j < 2 ^ 64 := by
        have h1 : n * 2 ^ j < 2 ^ (d + 1) * 2 ^ j :=
          Nat.mul_lt_mul_of_pos_right hnlt (Nat.pow_pos (by decide))
        rw [← Nat.pow_add] at h1
        have h2 : (2:Nat) ^ (d + 1 + j) ≤ 2 ^ 63 :=
          Nat.pow_le_pow_right (by decide) (by omega)
        have h3 : (2:Nat) ^ 63 < 2 ^ 64 := by decide
        omega
      have hpos : n * 2 ^ j ≠ 0 :=
        Nat.mul_ne_zero hn0 (Nat.pos_iff_ne_zero.1 (Nat.pow_pos (by decide)))
      have htz : tz (n * 2 ^ j) + b.level - b.pd = s + j := by
        rw [tz_eq_tzr _ hpos hlt64, tzr_mul_pow n _ hn0, tzr_odd n hpar, hlev]
        simp only [Builder.pd, hbpf]; omega
      obtain ⟨st3, h3, hm, hP3⟩ := finishMergeUp_gspec hR pf z b ℓ hbpf hlev hℓ
        (n * 2 ^ j) d (j + 1) (n / 2) ((h.alloc z).2.alloc z).2
        (Tree.node ((h.alloc z).2.alloc z).1 t (Tree.zero (h.alloc z).1 (s + j))) true st' A S
        (by rw [odd_mul_pow_div])
        (by rw [Nat.pow_succ] at hnlt; omega) hA hS0 (by rw [hR.c_succ]; omega)
        (hR.pad j _ _ t S ht hS0 hSl)
      obtain ⟨t', f', h', hfin, ht'⟩ := ih (j + 1) (n / 2 + 1) fuel' (A ++ S) st3 h3 (by omega)
        (by rw [Nat.pow_succ] at hnlt; omega) hP3 (by omega)
      refine ⟨t', f', h', ?_, ht'⟩
      rw [Builder.finishPad, if_neg hne]
      simp only [htz]
      rw [show b.depth - (s + j + 1) = d by omega, show s + j + 1 = s + (j + 1) from rfl, hm]
      have hlt2 : ¬ (s + j + b.pd < b.level) := by simp only [Builder.pd, hbpf, hlev]; omega
      simp only [hlt2, if_false]
      rw [show s + j + b.pd - b.level = j by simp only [Builder.pd, hbpf, hlev]; omega,
        odd_mul_pow_step n _ hpar]
      exact hfin

/-- **`finish` at level `ℓ`** on a stack of `m` units with a possibly partial last one. -/
theorem finish_gspec (hR : RepRules R c s) (pf : Option Nat) (hpf : PfOK pf) (z : H)
    (D ℓ : Nat) (hℓ : ℓ = s + pdOf pf) (hs : s ≤ D) (hd : D + pdOf pf ≤ 63)
    (b : Builder T) (hb : BFix pf D ℓ b) (m : Nat) (hm : m ≤ 2 ^ (D - s))
    (hlo : (m - 1) * 2 ^ ℓ < b.length) (hhi : b.length ≤ m * 2 ^ ℓ)
    (xs : List X) (hP : GPStk R c 0 m xs b.stack) (h : Heap H) :
    ∃ t h', b.finish z h = .ok ((t, D, b.length), h') ∧ R (D - s) xs t := by
  have hp : 0 < 2 ^ ℓ := Nat.pow_pos (by decide)
  have hm0 : m ≠ 0 := by intro h0; subst h0; exact GPStk_zero R c 0 xs _ hP
  have hnext : (b.length + 2 ^ ℓ - 1) / 2 ^ ℓ = m := by
    apply Nat.div_eq_of_lt_le
    · have : m * 2 ^ ℓ = (m - 1) * 2 ^ ℓ + 2 ^ ℓ := by
        conv => lhs; rw [show m = (m - 1) + 1 by omega, Nat.add_mul, Nat.one_mul]
      omega
    · rw [Nat.add_mul, Nat.one_mul]; omega
  obtain ⟨t, f, h', hfin, ht⟩ := finishPad_gspec hR pf z b D ℓ hb hℓ hs hd (D - s) 0 m 130 xs
    b.stack h (by omega) hm hP (by omega)
  rw [Nat.pow_zero, Nat.mul_one] at hfin
  refine ⟨t, h', ?_, ht⟩
  cases hstk : b.stack with
  | nil => rw [hstk] at hP; exact absurd hP (GPStk_ne_nil R c _ _ _)
  | cons e st' =>
    rw [hstk] at hfin
    have hstage : (match b.pf with
        | some p =>
          if p = 0 then (Except.error Err.panic : Except Err (Nat × List (Tree T × Bool) × Heap H))
          else
            let skip := (p - b.length % p) % p
            if skip > 0 && b.level = 0 then
              match Builder.finishPackedMerge z b ((b.length + 2 ^ b.level - 1) / 2 ^ b.level)
                  b.depth 0 h b.stack with
              | .error e => .error e
              | .ok (st, h) => .ok ((b.length + 2 ^ b.level - 1) / 2 ^ b.level + skip, st, h)
            else .ok ((b.length + 2 ^ b.level - 1) / 2 ^ b.level, b.stack, h)
        | none => .ok ((b.length + 2 ^ b.level - 1) / 2 ^ b.level, b.stack, h)) =
        .ok (m, e :: st', h) := by
      rw [hb.level_eq, hnext, hstk, hb.pf_eq]
      cases pf with
      | none => rfl
      | some p =>
        obtain ⟨k, hk, rfl⟩ := hpf p rfl
        have hp0 : 2 ^ k ≠ 0 := Nat.pos_iff_ne_zero.1 (Nat.pow_pos (by decide))
        simp only [hp0, if_false]
        by_cases hl0 : ℓ = 0
        · have hpd0 : pdOf (some (2 ^ k)) = 0 := by omega
          have hk0 : k = 0 := by simpa [pdOf, intLog_pow k (by omega)] using hpd0
          subst hk0
          simp [Nat.mod_one]
        · simp [hl0]
    unfold Builder.finish
    rw [hstk]
    dsimp only
    rw [← hstk]
    split
    next e' heq => exact nomatch heq.symm.trans hstage
    next nx st2 h2 heq =>
      have := heq.symm.trans hstage
      simp only [Except.ok.injEq, Prod.mk.injEq] at this
      obtain ⟨rfl, rfl, rfl⟩ := this
      simp [hfin, hb.depth_eq]

end GenericBuilder

/-! ## Feeding whole subtrees (`pop_front`'s loop, `list.rs:218-233`) -/

/-- a feed of `Internal` items for a builder at level `ℓ` (`w = 2^ℓ`): every item is related by
`R 0` to its block, all blocks but the last are full (`c0` items), the last one is non-empty, and
`compute_len` of the last node (the `len` that `pop_front` passes for it) is between 1 and `w`.
`Xs` is the concatenation of the blocks. -/
inductive FeedOK (R : Nat → List X → Tree T → Prop) (c0 w : Nat) :
    List (LevelNode T) → List X → Prop
  | last (t : Tree T) (C : List X) : R 0 C t → C ≠ [] → C.length ≤ c0 → 1 ≤ t.computeLen →
      t.computeLen ≤ w → FeedOK R c0 w [.internal t] C
  | cons (t : Tree T) (C : List X) (rest : List (LevelNode T)) (Xs : List X) : R 0 C t →
      C.length = c0 → FeedOK R c0 w rest Xs → FeedOK R c0 w (.internal t :: rest) (C ++ Xs)

theorem FeedOK.ne_nil {R : Nat → List X → Tree T → Prop} {c0 w : Nat} {items : List (LevelNode T)}
    {Xs : List X} (h : FeedOK R c0 w items Xs) : items ≠ [] := by
  cases h <;> simp

theorem FeedOK.length_bounds {R : Nat → List X → Tree T → Prop} {c0 w : Nat}
    {items : List (LevelNode T)} {Xs : List X} (h : FeedOK R c0 w items Xs) :
    (items.length - 1) * c0 < Xs.length ∧ Xs.length ≤ items.length * c0 := by
  induction h with
  | last t C hR hC0 hCl _ _ =>
    have : 0 < C.length := List.length_pos_iff.mpr hC0
    simp; omega
  | cons t C rest Xs hR hC hrest ih =>
    have hne := hrest.ne_nil
    have hpos : 0 < rest.length := List.length_pos_iff.mpr hne
    simp only [List.length_cons, List.length_append, Nat.add_sub_cancel]
    have e : rest.length * c0 = (rest.length - 1) * c0 + c0 := by
      conv => lhs; rw [show rest.length = (rest.length - 1) + 1 by omega, Nat.add_mul, Nat.one_mul]
    rw [Nat.add_mul, Nat.one_mul]
    omega

/-- the total `len` that `pop_front`'s loop passes to the builder. -/
def feedLen (ℓ : Nat) : List (LevelNode T) → Nat
  | [] => 0
  | .internal t :: rest => (if rest.isEmpty then t.computeLen else 2 ^ ℓ) + feedLen ℓ rest
  | .packedLeaf _ :: rest => 1 + feedLen ℓ rest

/-- the nodes of a feed. -/
def itemTrees : List (LevelNode T) → List (Tree T)
  | [] => []
  | .internal t :: rest => t :: itemTrees rest
  | .packedLeaf _ :: rest => itemTrees rest

theorem itemTrees_map_internal {α : Type} (f : α → Tree T) (l : List α) :
    itemTrees (l.map (fun k => LevelNode.internal (f k))) = l.map f := by
  induction l with
  | nil => rfl
  | cons a l ih => simp [itemTrees, ih]

section GenericFeed
variable {R : Nat → List X → Tree T → Prop} {c : Nat → Nat} {s : Nat}

/-- **the feeding loop of `pop_front`** on `Internal` items: every `push_node` succeeds, the
stack ends as the stack of `k + |items|` units with a possibly partial last one, and `length`
has advanced by the lengths passed. -/
theorem popFeed_gspec (hR : RepRules R c s) (pf : Option Nat) (z : H) (D ℓ : Nat)
    (hℓ : ℓ = s + pdOf pf) (hs : s ≤ D) (hD : D + pdOf pf ≤ 63)
    (items : List (LevelNode T)) (Xs : List X) (hF : FeedOK R (c 0) (2 ^ ℓ) items Xs) :
    ∀ (b : Builder T) (h : Heap H) (k : Nat) (Ys : List X), BFix pf D ℓ b →
      b.length = k * 2 ^ ℓ → k + items.length ≤ 2 ^ (D - s) → GStk R c 0 k Ys b.stack →
      ∃ b' h', Coll.popFeed z ℓ b h items = .ok (b', h') ∧ BFix pf D ℓ b' ∧
        GPStk R c 0 (k + items.length) (Ys ++ Xs) b'.stack ∧
        b'.length = b.length + feedLen ℓ items ∧
        (k + items.length - 1) * 2 ^ ℓ < b'.length ∧ b'.length ≤ (k + items.length) * 2 ^ ℓ := by
  induction hF with
  | last t C hRt hC0 hCl hl1 hl2 =>
    intro b h k Ys hb hlen hk hS
    simp only [List.length_cons, List.length_nil] at hk ⊢
    obtain ⟨b', h', hpush, hb', hlen', hP, _⟩ := pushNode_spec hR pf z D ℓ hℓ hs hD b hb k hlen
      (by omega) Ys hS t C t.computeLen hRt hC0 hCl h
    refine ⟨b', h', ?_, hb', hP, ?_, ?_, ?_⟩
    · simp [Coll.popFeed, hpush]
    · simp [feedLen, hlen']
    · rw [hlen', hlen]; simp only [Nat.zero_add, Nat.add_sub_cancel]; omega
    · rw [hlen', hlen, Nat.add_mul, Nat.one_mul]; omega
  | cons t C rest Xs hRt hC hrest ih =>
    intro b h k Ys hb hlen hk hS
    have hne := hrest.ne_nil
    have hemp : rest.isEmpty = false := by
      cases rest with
      | nil => exact absurd rfl hne
      | cons a l => rfl
    have hC0 : C ≠ [] := by
      intro h0; subst h0
      have := hR.c_pos 0
      simp at hC; omega
    simp only [List.length_cons] at hk ⊢
    obtain ⟨b1, h1, hpush, hb1, hlen1, _, hF1⟩ := pushNode_spec hR pf z D ℓ hℓ hs hD b hb k hlen
      (by omega) Ys hS t C (2 ^ ℓ) hRt hC0 (by omega) h
    obtain ⟨b', h', hfeed, hb', hP, hlen', hlo, hhi⟩ := ih b1 h1 (k + 1) (Ys ++ C) hb1
      (by rw [hlen1, hlen, Nat.add_mul, Nat.one_mul]) (by omega) (hF1 hC)
    refine ⟨b', h', ?_, hb', ?_, ?_, ?_, ?_⟩
    · simp [Coll.popFeed, hemp, hpush, hfeed]
    · rw [show k + (rest.length + 1) = k + 1 + rest.length by omega, ← List.append_assoc]
      exact hP
    · rw [hlen', hlen1]; simp [feedLen, hemp]; omega
    · rw [show k + (rest.length + 1) = k + 1 + rest.length by omega]; exact hlo
    · rw [show k + (rest.length + 1) = k + 1 + rest.length by omega]; exact hhi

/-- **whole-subtree pushes followed by `finish`**, for an arbitrary representation relation. -/
theorem feed_finish_gspec (hR : RepRules R c s) (pf : Option Nat) (hpf : PfOK pf) (z : H)
    (D ℓ : Nat) (hℓ : ℓ = s + pdOf pf) (hs : s ≤ D) (hD : D + pdOf pf ≤ 63)
    (items : List (LevelNode T)) (Xs : List X) (hF : FeedOK R (c 0) (2 ^ ℓ) items Xs)
    (hfit : items.length ≤ 2 ^ (D - s)) (h : Heap H) :
    ∃ b h1 t h2, Coll.popFeed z ℓ ⟨[], D, ℓ, 0, pf⟩ h items = .ok (b, h1) ∧
      b.finish z h1 = .ok ((t, D, feedLen ℓ items), h2) ∧ R (D - s) Xs t := by
  obtain ⟨b, h1, hfeed, hb, hP, hlen, hlo, hhi⟩ := popFeed_gspec hR pf z D ℓ hℓ hs hD items Xs hF
    ⟨[], D, ℓ, 0, pf⟩ h 0 [] ⟨rfl, rfl, rfl⟩ (by simp) (by omega) (by simp [GStk_zero])
  simp only [Nat.zero_add, List.nil_append] at hP hlen hlo hhi
  obtain ⟨t, h2, hfin, ht⟩ := finish_gspec hR pf hpf z D ℓ hℓ hs hD b hb items.length hfit hlo hhi
    Xs hP h1
  rw [hlen] at hfin
  exact ⟨b, h1, t, h2, hfeed, hfin, ht⟩

end GenericFeed

/-! ## The two instances -/

/-- canonical shape: the entry of depth `s + j` is the canonical tree of its block. -/
def RErase (pf : Option Nat) (s : Nat) : Nat → List T → Tree T → Prop :=
  fun j xs t => t.erase = canon pf (s + j) xs

theorem RErase_rules (pf : Option Nat) (hpf : PfOK pf) (s : Nat) :
    RepRules (RErase (T := T) pf s) (fun j => cap pf (s + j)) s where
  c_succ j := cap_succ pf (s + j)
  c_pos j := cap_pos pf hpf _
  node := by
    intro j id l r B S hl hB hr hS0 hSl
    have hc := cap_pos pf hpf (s + j)
    simp only [RErase, Tree.erase] at *
    rw [hl, hr]
    exact canon_node pf (s + j) B S (by intro h0; subst h0; simp at hB; omega) (Or.inl hB)
      (by omega)
  pad := by
    intro j id zid t S ht hS0 hSl
    simp only [RErase, Tree.erase] at *
    rw [ht]
    have := canon_node pf (s + j) S [] hS0 (Or.inr rfl) hSl
    rwa [canon_nil, List.append_nil] at this

/-- physical position: the depth-`s` subtree at unit position `k` of the entry (of depth `s + j`)
is the `k`-th node of its block — as a `Tree` value, identities included. -/
def RPhys (pd s : Nat) : Nat → List (Tree T) → Tree T → Prop :=
  fun j us t => ∀ k u, us[k]? = some u → descend pd t (s + j) (k * 2 ^ (s + pd)) j = u

theorem RPhys_rules (pd s : Nat) : RepRules (RPhys (T := T) pd s) (fun j => 2 ^ j) s where
  c_succ j := by rw [Nat.pow_succ, Nat.mul_comm]
  c_pos j := Nat.pow_pos (by decide)
  node := by
    intro j id l r B S hl hB hr hS0 hSl k u hk
    by_cases hlt : k < B.length
    · rw [List.getElem?_append_left hlt] at hk
      rw [show s + (j + 1) = s + j + 1 from rfl, descend_unit_left _ _ _ _ _ _ _ (by omega)]
      exact hl k u hk
    · rw [List.getElem?_append_right (by omega)] at hk
      have hklt : k - B.length < S.length := by
        have := (List.getElem?_eq_some_iff.1 hk).1; exact this
      rw [show s + (j + 1) = s + j + 1 from rfl,
        descend_unit_right _ _ _ _ _ _ _ (by omega) (by rw [Nat.pow_succ]; omega), ← hB]
      exact hr _ u hk
  pad := by
    intro j id zid t S ht hS0 hSl k u hk
    have hklt : k < S.length := (List.getElem?_eq_some_iff.1 hk).1
    rw [show s + (j + 1) = s + j + 1 from rfl, descend_unit_left _ _ _ _ _ _ _ (by omega)]
    exact ht k u hk

/-- a feed that is fine for any relation is fine for the physical one. -/
theorem FeedOK.toPhys {R : Nat → List X → Tree T → Prop} {c0 w : Nat}
    {items : List (LevelNode T)} {Xs : List X} (pd s : Nat) (h : FeedOK R c0 w items Xs) :
    FeedOK (RPhys pd s) 1 w items (itemTrees items) := by
  have hself : ∀ t : Tree T, RPhys pd s 0 [t] t := by
    intro t k u hk
    cases k with
    | zero => simp at hk; subst hk; rfl
    | succ k => simp at hk
  induction h with
  | last t C _ _ _ h1 h2 =>
    exact FeedOK.last t [t] (hself t) (by simp) (by simp) h1 h2
  | cons t C rest Xs _ _ _ ih =>
    exact FeedOK.cons t [t] rest (itemTrees rest) (hself t) rfl ih

/-- for the canonical-shape relation the lengths passed add up to the number of elements. -/
theorem feedLen_erase (pf : Option Nat) (hpf : PfOK pf) (s ℓ : Nat) (hℓ : ℓ = s + pdOf pf)
    {items : List (LevelNode T)} {ys : List T}
    (h : FeedOK (RErase pf s) (cap pf s) (2 ^ ℓ) items ys) : feedLen ℓ items = ys.length := by
  induction h with
  | last t C hR hC0 hCl _ _ =>
    simp only [feedLen, List.isEmpty_nil, if_true, Nat.add_zero]
    exact computeLen_canon pf hpf t s C (by simpa [RErase] using hR) hCl
  | cons t C rest Xs hR hC hrest ih =>
    have hne := hrest.ne_nil
    have hemp : rest.isEmpty = false := by
      cases rest with
      | nil => exact absurd rfl hne
      | cons a l => rfl
    subst hℓ
    simp only [feedLen, hemp, List.length_append, ih, hC, cap_eq_pow pf hpf s]
    simp

/-! ## C17 at every level -/

/-- **C17 (`C17_pushNode_canonical`): whole-subtree pushes at every level.** A fresh builder at
level `ℓ = s + pd` (`s ≤ depth` the depth of the pushed subtrees) is fed, with `push_node` as
`pop_front` does, nodes whose shapes are the canonical trees of consecutive blocks of `ys` — all
full except possibly the last, which is non-empty. Then no push reports `BuilderFull`, `finish`
succeeds (no stack error, no underflow, no fuel exhaustion in the padding loop) and returns the
stated depth, the length `|ys|`, and a tree whose shape is the canonical tree of `ys`; moreover
every pushed node sits in the result at its unit position *as the same `Tree` value* (it is
reused, not copied). For `ℓ = 0` this covers leaves (`pf = none`) and one-value packed leaves
(`pf = some 1`) pushed with `push_node`. -/
theorem C17_pushNode_canonical (pf : Option Nat) (hpf : PfOK pf) (z : H) (depth s ℓ : Nat)
    (hℓ : ℓ = s + pdOf pf) (hs : s ≤ depth) (hd : depth + pdOf pf ≤ 63)
    (items : List (LevelNode T)) (ys : List T)
    (hF : FeedOK (RErase pf s) (cap pf s) (2 ^ ℓ) items ys) (hlen : ys.length ≤ cap pf depth)
    (h : Heap H) :
    ∃ b0 b h1 t h2, Builder.new pf depth ℓ = .ok b0 ∧ Coll.popFeed z ℓ b0 h items = .ok (b, h1) ∧
      b.finish z h1 = .ok ((t, depth, ys.length), h2) ∧ t.erase = canon pf depth ys ∧
      ∀ k u, (itemTrees items)[k]? = some u → subtreeAt (pdOf pf) t depth s (k * 2 ^ ℓ) = u := by
  have hcs := cap_pos pf hpf s
  have hfit : items.length ≤ 2 ^ (depth - s) := by
    have h1 := hF.length_bounds.1
    apply Nat.le_of_not_lt
    intro hgt
    have h2 : 2 ^ (depth - s) * cap pf s ≤ (items.length - 1) * cap pf s :=
      Nat.mul_le_mul_right _ (by omega)
    have h3 : cap pf depth = 2 ^ (depth - s) * cap pf s := by
      rw [cap_eq_pow pf hpf, cap_eq_pow pf hpf, ← Nat.pow_add]; congr 1; omega
    omega
  obtain ⟨b, h1, t, h2, hfeed, hfin, ht⟩ := feed_finish_gspec (RErase_rules pf hpf s) pf hpf z
    depth ℓ hℓ hs hd items ys (by simpa using hF) hfit h
  obtain ⟨b', h1', t', h2', hfeed', hfin', ht'⟩ := feed_finish_gspec (RPhys_rules (pdOf pf) s) pf
    hpf z depth ℓ hℓ hs hd items (itemTrees items) (by simpa using hF.toPhys (pdOf pf) s) hfit h
  rw [hfeed] at hfeed'
  simp only [Except.ok.injEq, Prod.mk.injEq] at hfeed'
  obtain ⟨rfl, rfl⟩ := hfeed'
  rw [hfin] at hfin'
  simp only [Except.ok.injEq, Prod.mk.injEq] at hfin'
  obtain ⟨⟨rfl, _⟩, _⟩ := hfin'
  rw [feedLen_erase pf hpf s ℓ hℓ hF] at hfin
  refine ⟨⟨[], depth, ℓ, 0, pf⟩, b, h1, t, h2, ?_, hfeed, hfin, ?_, ?_⟩
  · simp [Builder.new, maxTreeDepth]; omega
  · have : s + (depth - s) = depth := by omega
    simpa [RErase, this] using ht
  · intro k u hk
    have := ht' k u hk
    unfold subtreeAt
    rw [show s + (depth - s) = depth by omega, ← hℓ] at this
    exact this

/-! ## The feed produced by the level iterator -/

/-- the items yielded by the level iterator over a canonical tree are a proper feed for the
suffix `xs[i..]`. -/
theorem feedOK_levelItems (pf : Option Nat) (hpf : PfOK pf) (root : Tree T) (D : Nat)
    (xs : List T) (ht : root.erase = canon pf D xs) (hlen : xs.length ≤ cap pf D) (s : Nat)
    (hs : s ≤ D) :
    ∀ (c i : Nat), levelCount xs.length (s + pdOf pf) i = c + 1 → 2 ^ (s + pdOf pf) ∣ i →
      FeedOK (RErase pf s) (cap pf s) (2 ^ (s + pdOf pf))
        (levelItems (pdOf pf) root D s (s + pdOf pf) xs.length i) (xs.drop i) := by
  have hcs : cap pf s = 2 ^ (s + pdOf pf) := cap_eq_pow pf hpf s
  intro c
  induction c with
  | zero =>
    intro i hc hdv
    have hi : i < xs.length := by
      apply Nat.lt_of_not_le; intro hi
      have := levelCount_done xs.length (s + pdOf pf) i hi; omega
    have hstep := levelCount_step xs.length (s + pdOf pf) i hi
    have hend : xs.length ≤ i + 2 ^ (s + pdOf pf) := by
      apply Nat.le_of_not_lt; intro hlt
      have := levelCount_step xs.length (s + pdOf pf) _ hlt; omega
    rw [levelItems_step _ _ _ _ _ _ _ hi, levelItems_done _ _ _ _ _ _ _ hend]
    have he := subtreeAt_erase pf hpf root D xs ht hlen s hs i hdv hi
    rw [List.take_of_length_le (by simp only [List.length_drop]; omega)] at he
    unfold subtreeAt at he
    have hcl := computeLen_canon pf hpf _ s _ he (by rw [hcs]; simp only [List.length_drop]; omega)
    simp only [List.length_drop] at hcl
    exact FeedOK.last _ _ (by simpa [RErase] using he)
      (by intro h0; have := congrArg List.length h0; simp at this; omega)
      (by rw [hcs]; simp only [List.length_drop]; omega) (by omega) (by omega)
  | succ c ih =>
    intro i hc hdv
    have hi : i < xs.length := by
      apply Nat.lt_of_not_le; intro hi
      have := levelCount_done xs.length (s + pdOf pf) i hi; omega
    have hstep := levelCount_step xs.length (s + pdOf pf) i hi
    have hnext : i + 2 ^ (s + pdOf pf) < xs.length := by
      apply Nat.lt_of_not_le; intro hle
      have := levelCount_done xs.length (s + pdOf pf) _ hle; omega
    rw [levelItems_step _ _ _ _ _ _ _ hi]
    have he := subtreeAt_erase pf hpf root D xs ht hlen s hs i hdv hi
    unfold subtreeAt at he
    have hrec := ih (i + 2 ^ (s + pdOf pf)) (by omega) (li_dvd_add_pow _ _ hdv)
    have := FeedOK.cons _ ((xs.drop i).take (2 ^ (s + pdOf pf))) _ _
      (show RErase pf s 0 _ _ by simpa [RErase] using he)
      (by rw [hcs]; simp only [List.length_take, List.length_drop]; omega) hrec
    rwa [← List.drop_drop, List.take_append_drop] at this

theorem itemTrees_levelItems (pd : Nat) (root : Tree T) (D s ℓ length i k : Nat)
    (hk : i + k * 2 ^ ℓ < length) :
    (itemTrees (levelItems pd root D s ℓ length i))[k]? =
      some (subtreeAt pd root D s (i + k * 2 ^ ℓ)) := by
  have hk' := (levelCount_lt_iff length ℓ i k).2 hk
  unfold levelItems
  rw [itemTrees_map_internal]
  simp [subtreeAt, hk']

theorem popFeed_packed (z : H) (ℓ : Nat) : ∀ (ys : List T) (b : Builder T) (h : Heap H),
    Coll.popFeed z ℓ b h (ys.map LevelNode.packedLeaf) = Coll.pushAll z b h ys := by
  intro ys
  induction ys with
  | nil => intro b h; rfl
  | cons y ys ih =>
    intro b h
    simp only [List.map_cons, Coll.popFeed, Coll.pushAll]
    cases b.push z h y with
    | error e => rfl
    | ok r => obtain ⟨b1, h1⟩ := r; exact ih b1 h1

theorem flatMap_contents_packed (ys : List T) :
    (ys.map LevelNode.packedLeaf).flatMap LevelNode.contents = ys := by
  induction ys with
  | nil => rfl
  | cons y ys ih => simp [LevelNode.contents, ih]

/-! ## C11: `level_iter_from` -/

theorem Coll.levelIterFrom_flushed (pf : Option Nat) (c : Coll T)
    (hemp : c.updates.isEmpty = true) (n : Nat) (hn : n ≤ c.length) :
    c.levelIterFrom pf n =
      LevelIter.collect pf c.depth (computeLevel n c.depth (pdOf pf)) c.length (c.length + 1)
        (Iter.fromIndex n c.tree) := by
  have hlen := Coll.len_eq_length_of_flushed c hemp
  unfold Coll.levelIterFrom
  rw [hlen, if_neg (by omega)]
  simp [Coll.hasPending, hemp]

/-- level walk from index 0: the level is `D + pd`, the only item is the root. -/
theorem levelIter_collect_zero (pf : Option Nat) (hpf : PfOK pf) (root : Tree T) (D : Nat)
    (xs : List T) (ht : root.erase = canon pf D xs) (hlen : xs.length ≤ cap pf D)
    (hD : D + pdOf pf ≤ 63) :
    computeLevel 0 D (pdOf pf) = D + pdOf pf ∧
    LevelIter.collect pf D (D + pdOf pf) xs.length (xs.length + 1) (Iter.fromIndex 0 root) =
      .ok (levelItems (pdOf pf) root D D (D + pdOf pf) xs.length 0) := by
  have hwf := wf_of_canon pf hpf D root xs ht hlen
  have hread : ∀ i, i < xs.length → (getRec pf root i D).isSome := by
    intro i hi
    rw [getRec_canon pf hpf root D xs ht hlen i (by omega), List.getElem?_eq_getElem hi]; rfl
  refine ⟨by simp [computeLevel]; omega, ?_⟩
  exact lcollect_core pf hpf root D D (D + pdOf pf) xs.length hwf rfl (Nat.le_refl _) hD hlen hread
    (xs.length + 1) _ (LPathOK.fromIndex pf root D _ xs.length 0) (Nat.dvd_zero _)
    (by have := levelCount_le xs.length (D + pdOf pf) 0
        simp only [Iter.fromIndex]; omega)

/-- **C11 (`level_iter_from`).** On a flushed list showing `v` (canonical backing tree) and
`n ≤ |v|`, `level_iter_from(n)` drained never fails and yields the items of
`levelIter_collect_spec` (values as `PackedLeaf` items when `compute_level n < pd`, otherwise the
nodes of the old tree on the level aligned with `n`); in both cases the concatenation of the
items' contents is `v[n..]`. With pending writes (and `n ≤ len`) it reports
`LevelIterPendingUpdates`; beyond the length it reports `OutOfBoundsIterFrom`. -/
theorem C11_level_iter_from (pf : Option Nat) (hpf : PfOK pf) (c : Coll T) (v : List T)
    (hemp : c.updates.isEmpty = true) (hshape : c.tree.erase = canon pf c.depth v)
    (hlen : c.length = v.length) (hfits : v.length ≤ cap pf c.depth)
    (hD : c.depth + pdOf pf ≤ 63) (n : Nat) (hn : n ≤ v.length) :
    ∃ items, c.levelIterFrom pf n = .ok items ∧
      items.flatMap LevelNode.contents = v.drop n ∧
      (computeLevel n c.depth (pdOf pf) < pdOf pf →
        items = (v.drop n).map LevelNode.packedLeaf) ∧
      (pdOf pf ≤ computeLevel n c.depth (pdOf pf) →
        items = levelItems (pdOf pf) c.tree c.depth (computeLevel n c.depth (pdOf pf) - pdOf pf)
          (computeLevel n c.depth (pdOf pf)) v.length n) := by
  rw [Coll.levelIterFrom_flushed pf c hemp n (by omega), hlen]
  have hcap := cap_eq_pow pf hpf c.depth
  by_cases hn0 : n = 0
  · subst hn0
    obtain ⟨hl, hcol⟩ := levelIter_collect_zero pf hpf c.tree c.depth v hshape hfits hD
    rw [hl, hcol]
    refine ⟨_, rfl, ?_, fun h => by omega, fun _ => by
      rw [show c.depth + pdOf pf - pdOf pf = c.depth by omega]⟩
    exact levelItems_contents pf hpf c.tree c.depth v hshape hfits c.depth (Nat.le_refl _) _ 0 rfl
      (Nat.dvd_zero _)
  · have h64 : n < 2 ^ 64 := by
      have h1 : 2 ^ (c.depth + pdOf pf) ≤ 2 ^ 63 := Nat.pow_le_pow_right (by decide) hD
      have h2 : (2:Nat) ^ 63 < 2 ^ 64 := by decide
      omega
    obtain ⟨hA, hB⟩ := levelIter_collect_spec pf hpf c.tree c.depth v hshape hfits hD n hn0 hn
    by_cases hlt : computeLevel n c.depth (pdOf pf) < pdOf pf
    · obtain ⟨_, hcol⟩ := hA hlt
      rw [hcol]
      exact ⟨_, rfl, flatMap_contents_packed _, fun _ => rfl, fun h => by omega⟩
    · obtain ⟨hs, hcol⟩ := hB (by omega)
      rw [hcol]
      refine ⟨_, rfl, ?_, fun h => by omega, fun _ => rfl⟩
      have hdv := computeLevel_dvd n c.depth (pdOf pf) hn0 h64
      generalize computeLevel n c.depth (pdOf pf) = ℓ at *
      obtain ⟨s, rfl⟩ : ∃ s, ℓ = s + pdOf pf := ⟨ℓ - pdOf pf, by omega⟩
      rw [show s + pdOf pf - pdOf pf = s by omega] at hs ⊢
      exact levelItems_contents pf hpf c.tree c.depth v hshape hfits s hs _ n rfl hdv

theorem C11_level_iter_from_pending (pf : Option Nat) (c : Coll T)
    (hpend : c.updates.isEmpty = false) (n : Nat) (hn : n ≤ c.len) :
    c.levelIterFrom pf n = .error .levelIterPendingUpdates := by
  unfold Coll.levelIterFrom
  rw [if_neg (by omega)]
  simp [Coll.hasPending, hpend]

theorem C11_level_iter_from_out_of_bounds (pf : Option Nat) (c : Coll T) (n : Nat)
    (hn : c.len < n) : c.levelIterFrom pf n = .error (.outOfBoundsIterFrom n c.len) := by
  unfold Coll.levelIterFrom
  rw [if_pos hn]

/-! ## C11 / C10: `pop_front` -/

/-- the list after the flush `apply_updates` at the start of `pop_front`: no pending writes,
canonical backing tree for the shown contents `v`, cached length, list depth, bound. (This is what
`C01_flush_canonical` establishes from `CollInv`.) -/
structure Flushed (pf : Option Nat) (cfg : Cfg) (c1 : Coll T) (v : List T) : Prop where
  empty : c1.updates.isEmpty = true
  shape : c1.tree.erase = canon pf c1.depth v
  len : c1.length = v.length
  depth : c1.depth = listDepth pf cfg.N
  bound : v.length ≤ cfg.N

theorem finish_empty (z : H) (pf : Option Nat) (D ℓ : Nat) (h : Heap H) :
    Builder.finish z (⟨[], D, ℓ, 0, pf⟩ : Builder T) h =
      .ok ((.zero (h.alloc z).1 D, D, 0), (h.alloc z).2) := by
  simp [Builder.finish]

/-- the body of `pop_front` after the flush, for `1 ≤ n ≤ |v|`: every step succeeds. -/
theorem popFront_core (pf : Option Nat) (z : H) (cfg : Cfg) (hcfg : CfgOK pf cfg) (c1 : Coll T)
    (v : List T) (F : Flushed pf cfg c1 v) (n : Nat) (hn0 : n ≠ 0) (hn : n ≤ v.length)
    (h1 : Heap H) :
    ∃ b0 items b h2 t h3,
      Builder.new pf (listDepth pf cfg.N) (computeLevel n (listDepth pf cfg.N) (pdOf pf)) = .ok b0 ∧
      c1.levelIterFrom pf n = .ok items ∧
      Coll.popFeed z (computeLevel n (listDepth pf cfg.N) (pdOf pf)) b0 h1 items = .ok (b, h2) ∧
      b.finish z h2 = .ok ((t, listDepth pf cfg.N, v.length - n), h3) ∧
      t.erase = canon pf (listDepth pf cfg.N) (v.drop n) ∧
      (pdOf pf ≤ computeLevel n (listDepth pf cfg.N) (pdOf pf) →
        ∀ k, n + k * 2 ^ computeLevel n (listDepth pf cfg.N) (pdOf pf) < v.length →
          subtreeAt (pdOf pf) t (listDepth pf cfg.N)
              (computeLevel n (listDepth pf cfg.N) (pdOf pf) - pdOf pf)
              (k * 2 ^ computeLevel n (listDepth pf cfg.N) (pdOf pf)) =
            subtreeAt (pdOf pf) c1.tree (listDepth pf cfg.N)
              (computeLevel n (listDepth pf cfg.N) (pdOf pf) - pdOf pf)
              (n + k * 2 ^ computeLevel n (listDepth pf cfg.N) (pdOf pf))) := by
  have hpf := hcfg.pf
  obtain ⟨hd, hcapN⟩ := listDepth_ok pf hpf cfg.N hcfg.le
  have hshape := F.shape
  have hbound := F.bound
  rw [F.depth] at hshape
  have hfits : v.length ≤ cap pf (listDepth pf cfg.N) := by omega
  have hcap := cap_eq_pow pf hpf (listDepth pf cfg.N)
  have h64 : n < 2 ^ 64 := by
    have h1 : 2 ^ (listDepth pf cfg.N + pdOf pf) ≤ 2 ^ 63 := Nat.pow_le_pow_right (by decide) hd
    have h2 : (2:Nat) ^ 63 < 2 ^ 64 := by decide
    omega
  have hiter := Coll.levelIterFrom_flushed pf c1 F.empty n (by rw [F.len]; exact hn)
  rw [F.depth, F.len] at hiter
  obtain ⟨hA, hB⟩ := levelIter_collect_spec pf hpf c1.tree (listDepth pf cfg.N) v hshape hfits hd
    n hn0 hn
  have hdv := computeLevel_dvd n (listDepth pf cfg.N) (pdOf pf) hn0 h64
  have hdl : (v.drop n).length = v.length - n := List.length_drop
  by_cases hlt : computeLevel n (listDepth pf cfg.N) (pdOf pf) < pdOf pf
  · obtain ⟨h0, hcol⟩ := hA hlt
    rw [hcol] at hiter
    rw [h0]
    obtain ⟨b0, b, h2, t, h3, hnew, hpush, hfin, ht⟩ := C17_builder_canonical pf hpf z
      (listDepth pf cfg.N) hd (v.drop n) (by omega) h1
    rw [hdl] at hfin
    exact ⟨b0, _, b, h2, t, h3, hnew, hiter, by rw [popFeed_packed]; exact hpush, hfin, ht,
      fun h => by omega⟩
  · obtain ⟨hs, hcol⟩ := hB (by omega)
    rw [hcol] at hiter
    generalize computeLevel n (listDepth pf cfg.N) (pdOf pf) = ℓ at *
    obtain ⟨s, rfl⟩ : ∃ s, ℓ = s + pdOf pf := ⟨ℓ - pdOf pf, by omega⟩
    rw [show s + pdOf pf - pdOf pf = s by omega] at hs hiter ⊢
    by_cases hnl : n = v.length
    · rw [levelItems_done _ _ _ _ _ _ _ (by omega)] at hiter
      refine ⟨⟨[], listDepth pf cfg.N, s + pdOf pf, 0, pf⟩, [],
        ⟨[], listDepth pf cfg.N, s + pdOf pf, 0, pf⟩, h1,
        .zero (h1.alloc z).1 (listDepth pf cfg.N), (h1.alloc z).2, ?_, hiter, rfl, ?_, ?_,
        fun _ k hk => by omega⟩
      · simp [Builder.new, maxTreeDepth]; omega
      · rw [finish_empty, show v.length - n = 0 by omega]
      · rw [List.drop_of_length_le (by omega), canon_nil]; rfl
    · have hi : n < v.length := by omega
      have hstep := levelCount_step v.length (s + pdOf pf) n hi
      have hF := feedOK_levelItems pf hpf c1.tree (listDepth pf cfg.N) v hshape hfits s hs
        (levelCount v.length (s + pdOf pf) (n + 2 ^ (s + pdOf pf))) n hstep hdv
      obtain ⟨b0, b, h2, t, h3, hnew, hfeed, hfin, ht, hphys⟩ := C17_pushNode_canonical pf hpf z
        (listDepth pf cfg.N) s (s + pdOf pf) rfl hs hd _ (v.drop n) hF (by omega) h1
      rw [hdl] at hfin
      refine ⟨b0, _, b, h2, t, h3, hnew, hiter, hfeed, hfin, ht, fun _ k hk => ?_⟩
      exact hphys k _ (itemTrees_levelItems _ _ _ _ _ _ _ k hk)

/-- **C11 (`pop_front`).** `c` is a list whose flush succeeds and leaves `c1` showing `v`
(hypothesis `hflush` + `Flushed`; for every list satisfying `CollInv` this is
`C01_flush_canonical`). Then:
* `n = 0`: the result is the flushed list itself;
* `1 ≤ n ≤ |v|`: `pop_front(n)` succeeds — none of the `debug_assert`, underflow, `BuilderFull`
  or builder-stack outcomes is reachable — and leaves a list whose tree has the shape of the
  canonical tree of `v[n..]`, with cached length `|v| - n`, the list depth and an empty pending
  map: exactly the fields of a freshly built list of the suffix (`C11_pop_front_fresh`), hence
  (C02, C06) the same contents, length, root and equality behaviour;
* `n > |v|`: rejected with `OutOfBoundsIterFrom { index: n, len: |v| }`; the list keeps its
  contents (it has only been flushed). -/
theorem C11_pop_front (pf : Option Nat) (z : H) (cfg : Cfg) (hcfg : CfgOK pf cfg) (c : Coll T)
    (h : Heap H) (c1 : Coll T) (h1 : Heap H)
    (hflush : Coll.applyUpdates pf z cfg c h = (.ok (), c1, h1))
    (v : List T) (F : Flushed pf cfg c1 v) (n : Nat) :
    (n = 0 → Coll.popFront pf z cfg c n h = (.ok (), c1, h1)) ∧
    (n ≠ 0 → n ≤ v.length → ∃ c' h', Coll.popFront pf z cfg c n h = (.ok (), c', h') ∧
      c'.tree.erase = canon pf (listDepth pf cfg.N) (v.drop n) ∧ c'.length = v.length - n ∧
      c'.depth = listDepth pf cfg.N ∧ c'.updates = UMap.empty cfg.map ∧ c'.kind = .list) ∧
    (v.length < n → Coll.popFront pf z cfg c n h =
      (.error (.outOfBoundsIterFrom n v.length), c1, h1)) := by
  refine ⟨?_, ?_, ?_⟩
  · intro hn0
    simp [Coll.popFront, hflush, hn0]
  · intro hn0 hn
    obtain ⟨b0, items, b, h2, t, h3, hnew, hiter, hfeed, hfin, ht, _⟩ :=
      popFront_core pf z cfg hcfg c1 v F n hn0 hn h1
    refine ⟨Coll.fromParts cfg t (listDepth pf cfg.N) (v.length - n), h3, ?_, ht, rfl, rfl, rfl,
      rfl⟩
    simp only [Coll.popFront, hflush, hn0, if_false, hnew, hiter, hfeed, hfin]
  · intro hn
    obtain ⟨hd, _⟩ := listDepth_ok pf hcfg.pf cfg.N hcfg.le
    have hlen : c1.len = v.length := by
      rw [Coll.len_eq_length_of_flushed c1 F.empty, F.len]
    have hiter := C11_level_iter_from_out_of_bounds pf c1 n (by omega)
    rw [hlen] at hiter
    have hnew : ∀ ℓ, (Builder.new pf (listDepth pf cfg.N) ℓ : Except Err (Builder T)) =
        .ok ⟨[], listDepth pf cfg.N, ℓ, 0, pf⟩ := by
      intro ℓ; simp [Builder.new, maxTreeDepth]; omega
    have hn0 : n ≠ 0 := by omega
    simp only [Coll.popFront, hflush, hn0, if_false, hnew, hiter]

/-- the list left by `pop_front(n)` has exactly the fields of `List::try_from_iter(v[n..])`
(trees compared up to node identities / memoised hashes, which is what `==` and
`tree_hash_root` see). -/
theorem C11_pop_front_fresh (pf : Option Nat) (z : H) (cfg : Cfg) (hcfg : CfgOK pf cfg)
    (c : Coll T) (h : Heap H) (c1 : Coll T) (h1 : Heap H)
    (hflush : Coll.applyUpdates pf z cfg c h = (.ok (), c1, h1))
    (v : List T) (F : Flushed pf cfg c1 v) (n : Nat) (hn0 : n ≠ 0) (hn : n ≤ v.length)
    (hf : Heap H) :
    ∃ c' h' cf hf', Coll.popFront pf z cfg c n h = (.ok (), c', h') ∧
      Coll.tryFromIter pf z cfg (v.drop n) hf = .ok (cf, hf') ∧
      c'.tree.erase = cf.tree.erase ∧ c'.length = cf.length ∧ c'.depth = cf.depth ∧
      c'.updates = cf.updates ∧ c'.kind = cf.kind := by
  obtain ⟨c', h', hpop, ht, hl, hd, hu, hk⟩ := (C11_pop_front pf z cfg hcfg c h c1 h1 hflush v F n).2.1
    hn0 hn
  have hb := F.bound
  obtain ⟨cf, hf', htry, hk', ht', hl', hd', hu'⟩ := C05_tryFromIter_ok pf hcfg.pf z cfg hcfg.le
    (v.drop n) (by simp only [List.length_drop]; omega) hf
  refine ⟨c', h', cf, hf', hpop, htry, by rw [ht, ht'], ?_, by rw [hd, hd'], by rw [hu, hu'],
    by rw [hk, hk']⟩
  rw [hl, hl', List.length_drop]

/-- **C10 (`pop_front` reuses whole subtrees).** When the level aligned with `n` is an internal
one (`pd ≤ ℓ = compute_level n`; `s = ℓ - pd` is the tree depth of the nodes on it), every
depth-`s` subtree of the old tree from element `n` on — `subtreeAt c1.tree D s (n + k·2^ℓ)` for
every `k` with `n + k·2^ℓ < |v|` (the partially filled last one included) — occurs in the new
tree at unit position `k` as the *same `Tree` value* (same node identities all the way down):
front removal re-links these subtrees, it does not copy them. -/
theorem C10_pop_reuses (pf : Option Nat) (z : H) (cfg : Cfg) (hcfg : CfgOK pf cfg) (c : Coll T)
    (h : Heap H) (c1 : Coll T) (h1 : Heap H)
    (hflush : Coll.applyUpdates pf z cfg c h = (.ok (), c1, h1))
    (v : List T) (F : Flushed pf cfg c1 v) (n : Nat) (hn0 : n ≠ 0) (hn : n ≤ v.length)
    (hlev : pdOf pf ≤ computeLevel n (listDepth pf cfg.N) (pdOf pf)) :
    ∃ c' h', Coll.popFront pf z cfg c n h = (.ok (), c', h') ∧
      ∀ k, n + k * 2 ^ computeLevel n (listDepth pf cfg.N) (pdOf pf) < v.length →
        subtreeAt (pdOf pf) c'.tree (listDepth pf cfg.N)
            (computeLevel n (listDepth pf cfg.N) (pdOf pf) - pdOf pf)
            (k * 2 ^ computeLevel n (listDepth pf cfg.N) (pdOf pf)) =
          subtreeAt (pdOf pf) c1.tree (listDepth pf cfg.N)
            (computeLevel n (listDepth pf cfg.N) (pdOf pf) - pdOf pf)
            (n + k * 2 ^ computeLevel n (listDepth pf cfg.N) (pdOf pf)) := by
  obtain ⟨b0, items, b, h2, t, h3, hnew, hiter, hfeed, hfin, ht, hphys⟩ :=
    popFront_core pf z cfg hcfg c1 v F n hn0 hn h1
  refine ⟨Coll.fromParts cfg t (listDepth pf cfg.N) (v.length - n), h3, ?_, hphys hlev⟩
  simp only [Coll.popFront, hflush, hn0, if_false, hnew, hiter, hfeed, hfin]

/-- **C10 (agreement with the slow path).** `pop_front_slow(n)` on the flushed list — iterate
from `n`, rebuild with `try_from_iter` — gives a list with the same shape, length, depth, pending
map and kind as `pop_front(n)`. -/
theorem C10_pop_front_slow_agrees (pf : Option Nat) (z : H) (cfg : Cfg) (hcfg : CfgOK pf cfg)
    (c : Coll T) (h : Heap H) (c1 : Coll T) (h1 : Heap H)
    (hflush : Coll.applyUpdates pf z cfg c h = (.ok (), c1, h1))
    (v : List T) (F : Flushed pf cfg c1 v) (n : Nat) (hn0 : n ≠ 0) (hn : n ≤ v.length)
    (hs : Heap H) :
    ∃ c' h' cs hs', Coll.popFront pf z cfg c n h = (.ok (), c', h') ∧
      Coll.popFrontSlow pf z cfg c1 n hs = .ok (cs, hs') ∧
      cs.tree.erase = c'.tree.erase ∧ cs.length = c'.length ∧ cs.depth = c'.depth ∧
      cs.updates = c'.updates ∧ cs.kind = c'.kind := by
  obtain ⟨c', h', cf, hf', hpop, htry, e1, e2, e3, e4, e5⟩ :=
    C11_pop_front_fresh pf z cfg hcfg c h c1 h1 hflush v F n hn0 hn hs
  obtain ⟨hd, hcapN⟩ := listDepth_ok pf hcfg.pf cfg.N hcfg.le
  have hb := F.bound
  obtain ⟨items, _, hvals, _, _, hfrom⟩ := C11_iter_from_is_drop pf c1 v F.empty hcfg.pf F.shape
    F.len (by rw [F.depth]; omega) (by rw [F.depth]; exact hd) n hn
  refine ⟨c', h', cf, hf', hpop, ?_, e1.symm, e2.symm, e3.symm, e4.symm, e5.symm⟩
  simp only [Coll.popFrontSlow, hfrom, hvals]
  exact htry

/-- `pop_front_slow` rejects an index beyond the length as well. -/
theorem C10_pop_front_slow_out_of_bounds (pf : Option Nat) (z : H) (cfg : Cfg) (c1 : Coll T)
    (v : List T) (F : Flushed pf cfg c1 v) (n : Nat) (hn : v.length < n) (hs : Heap H) :
    Coll.popFrontSlow pf z cfg c1 n hs = .error (.outOfBoundsIterFrom n v.length) := by
  simp only [Coll.popFrontSlow, C11_iter_from_out_of_bounds pf c1 v F.empty F.len n hn]

/-! ## Where `Flushed` comes from -/

theorem UMap.pop_isEmpty_empty (k : MapKind) : (UMap.empty k : UMap T).isEmpty = true := by
  cases k <;> rfl

/-- the flush at the start of `pop_front` establishes `Flushed` for the shown contents
(`Coll.view`): immediate when nothing is pending, `C01_flush_canonical` otherwise. The hypotheses
are those of `C01_flush_canonical` (the collection invariant with an exact `max_key`). -/
theorem flush_gives_Flushed (pf : Option Nat) (hpf : PfOK pf) (z : H) (cfg : Cfg) (c : Coll T)
    (h : Heap H) (xs : List T)
    (hkind : c.kind = .list) (ht : c.tree.erase = canon pf c.depth xs)
    (hlen : c.length = xs.length) (hdepth : c.depth = listDepth pf cfg.N)
    (hd : c.depth + pdOf pf ≤ 63) (hxs : xs.length ≤ cfg.N) (hN : cfg.N ≤ cap pf c.depth)
    (hwf : c.updates.WF) (hmax : c.updates.MaxExact)
    (hkeys : ∀ k v, (k, v) ∈ c.updates.entries → k < cfg.N)
    (hgap : Coll.gapCheck xs.length (c.updates.range xs.length cfg.N) = none) :
    ∃ c1 h1, Coll.applyUpdates pf z cfg c h = (.ok (), c1, h1) ∧
      Flushed pf cfg c1 (Coll.view xs c) := by
  unfold Coll.view
  by_cases hne : c.updates.isEmpty = true
  · refine ⟨c, h, by simp [Coll.applyUpdates, hne], ?_⟩
    have hent : c.updates.entries = [] := by
      simpa [UMap.isEmpty, List.isEmpty_iff] using hne
    rw [hent]
    exact ⟨hne, ht, hlen, hdepth, hxs⟩
  · have hne' : c.updates.isEmpty = false := by simpa using hne
    obtain ⟨c1, h1, hflush, ht1, hl1, hu1, _, hd1, _⟩ := C01_flush_canonical pf hpf z cfg c h xs
      hkind ht hlen hdepth hd hxs hN hne' hwf hmax hkeys hgap
    refine ⟨c1, h1, hflush, ⟨by rw [hu1]; exact UMap.pop_isEmpty_empty _, by rw [hd1]; exact ht1, hl1,
      by rw [hd1]; exact hdepth, ?_⟩⟩
    cases hmi : c.updates.maxIndex with
    | none => rw [UMap.maxIndex_eq_none_iff, hne'] at hmi; cases hmi
    | some mx =>
      rw [length_applyEntries c.updates hwf hmax cfg.N xs hxs hkeys hgap mx hmi]
      obtain ⟨hsome, _⟩ := (UMap.maxIndex_eq_some_iff _ hwf hmax mx).1 hmi
      obtain ⟨v, hv⟩ := Option.isSome_iff_exists.1 hsome
      have hmxN : mx < cfg.N := hkeys mx v ((UMap.get_eq_some_iff _ hwf mx v).1 hv)
      omega

/-- **C11 (`pop_front`) for a list with pending writes**, assembled from `flush_gives_Flushed`
and `C11_pop_front`: `xs` are the backing contents, `Coll.view xs c` is what the list shows. -/
theorem C11_pop_front_view (pf : Option Nat) (z : H) (cfg : Cfg) (hcfg : CfgOK pf cfg) (c : Coll T)
    (h : Heap H) (xs : List T)
    (hkind : c.kind = .list) (ht : c.tree.erase = canon pf c.depth xs)
    (hlen : c.length = xs.length) (hdepth : c.depth = listDepth pf cfg.N) (hxs : xs.length ≤ cfg.N)
    (hwf : c.updates.WF) (hmax : c.updates.MaxExact)
    (hkeys : ∀ k v, (k, v) ∈ c.updates.entries → k < cfg.N)
    (hgap : Coll.gapCheck xs.length (c.updates.range xs.length cfg.N) = none) (n : Nat) :
    ∃ c1 h1, Coll.applyUpdates pf z cfg c h = (.ok (), c1, h1) ∧
      Flushed pf cfg c1 (Coll.view xs c) ∧
      (n = 0 → Coll.popFront pf z cfg c n h = (.ok (), c1, h1)) ∧
      (n ≠ 0 → n ≤ (Coll.view xs c).length →
        ∃ c' h', Coll.popFront pf z cfg c n h = (.ok (), c', h') ∧
          c'.tree.erase = canon pf (listDepth pf cfg.N) ((Coll.view xs c).drop n) ∧
          c'.length = (Coll.view xs c).length - n ∧ c'.depth = listDepth pf cfg.N ∧
          c'.updates = UMap.empty cfg.map ∧ c'.kind = .list) ∧
      ((Coll.view xs c).length < n → Coll.popFront pf z cfg c n h =
        (.error (.outOfBoundsIterFrom n (Coll.view xs c).length), c1, h1)) := by
  obtain ⟨hd, hN⟩ := listDepth_ok pf hcfg.pf cfg.N hcfg.le
  rw [← hdepth] at hd hN
  obtain ⟨c1, h1, hflush, F⟩ := flush_gives_Flushed pf hcfg.pf z cfg c h xs hkind ht hlen hdepth hd
    hxs hN hwf hmax hkeys hgap
  exact ⟨c1, h1, hflush, F, C11_pop_front pf z cfg hcfg c h c1 h1 hflush _ F n⟩

/-! ## Non-vacuity: the hypotheses are satisfiable and the statements hold on concrete runs -/

section Examples

attribute [local instance] builderExamplesDecEqExcept

/-- a freshly built list over `Nat` (`H := Nat`, zero word `0`, `BTreeMap` updates). -/
def exPopList (pf : Option Nat) (N : Nat) (xs : List Nat) : Coll Nat × Heap Nat :=
  match Coll.tryFromIter pf (0 : Nat) ⟨N, .btree⟩ xs Heap.empty with
  | .ok r => r
  | .error _ => default

/-- run `pop_front(n)` on it and observe outcome, shape, cached length, depth. -/
def runPopFront (pf : Option Nat) (N : Nat) (xs : List Nat) (n : Nat) :
    Except Err Unit × Shape Nat × Nat × Nat :=
  let r := Coll.popFront pf (0 : Nat) ⟨N, .btree⟩ (exPopList pf N xs).1 n (exPopList pf N xs).2
  (r.1, r.2.1.tree.erase, r.2.1.length, r.2.1.depth)

theorem exCfgOK_none8 : CfgOK none ⟨8, .btree⟩ := ⟨exPfOKnone, by decide, by decide⟩
theorem exCfgOK_four16 : CfgOK (some 4) ⟨16, .btree⟩ := ⟨exPfOK4, by decide, by decide⟩

theorem exFlushed7 : Flushed none ⟨8, .btree⟩ (exPopList none 8 [1, 2, 3, 4, 5, 6, 7]).1
    [1, 2, 3, 4, 5, 6, 7] :=
  ⟨by rfl, by decide, by rfl, by rfl, by decide⟩
theorem exFlushed11 : Flushed (some 4) ⟨16, .btree⟩
    (exPopList (some 4) 16 [1, 2, 3, 4, 5, 6, 7, 8, 9, 10, 11]).1
    [1, 2, 3, 4, 5, 6, 7, 8, 9, 10, 11] :=
  ⟨by rfl, by decide, by rfl, by rfl, by decide⟩

-- C17_pushNode_canonical: two depth-1 subtrees (the second partial) into a depth-2 builder at level 1
example : ∃ b0 b h1 t h2, Builder.new none 2 1 = .ok b0 ∧
    Coll.popFeed (0 : Nat) 1 b0 Heap.empty
      [.internal (.node 1 (.leaf 2 10) (.leaf 3 11)), .internal (.node 4 (.leaf 5 12) (.zero 6 0))]
      = .ok (b, h1) ∧
    b.finish (0 : Nat) h1 = .ok ((t, 2, [10, 11, 12].length), h2) ∧
    t.erase = canon none 2 [10, 11, 12] ∧
    ∀ k u, (itemTrees [LevelNode.internal (.node 1 (.leaf 2 10) (.leaf 3 11)),
        .internal (.node 4 (.leaf 5 12) (.zero 6 0))])[k]? = some u →
      subtreeAt (pdOf none) t 2 1 (k * 2 ^ 1) = u :=
  C17_pushNode_canonical none exPfOKnone (0 : Nat) 2 1 1 rfl (by decide) (by decide) _ [10, 11, 12]
    (FeedOK.cons _ [10, 11] _ [12] (by simp [RErase, Tree.erase, canon, cap, lcap]) (by decide)
      (FeedOK.last _ [12] (by simp [RErase, Tree.erase, canon, cap, lcap]) (by decide) (by decide)
        (by decide) (by decide)))
    (by decide) Heap.empty

-- C11_pop_front, `[1..7]` pop 4 at `pf = none` (level 2: one partially filled depth-2 subtree)
example : ∃ c' h', Coll.popFront none (0 : Nat) ⟨8, .btree⟩
      (exPopList none 8 [1, 2, 3, 4, 5, 6, 7]).1 4 (exPopList none 8 [1, 2, 3, 4, 5, 6, 7]).2 =
      (.ok (), c', h') ∧
    c'.tree.erase = canon none (listDepth none 8) ([1, 2, 3, 4, 5, 6, 7].drop 4) ∧
    c'.length = 7 - 4 ∧ c'.depth = listDepth none 8 ∧ c'.updates = UMap.empty .btree ∧
    c'.kind = .list :=
  (C11_pop_front none (0 : Nat) ⟨8, .btree⟩ exCfgOK_none8 _ _ _ _ rfl _ exFlushed7 4).2.1
    (by decide) (by decide)
example : runPopFront none 8 [1, 2, 3, 4, 5, 6, 7] 4 = (.ok (), canon none 3 [5, 6, 7], 3, 3) := by
  decide
example : runPopFront none 8 [1, 2, 3, 4, 5, 6, 7] 4 =
    (.ok (), .node (.node (.node (.leaf 5) (.leaf 6)) (.node (.leaf 7) (.zero 0))) (.zero 2), 3, 3) := by
  decide
-- odd `n`: level 0, leaves pushed one by one with `push_node`
example : runPopFront none 8 [1, 2, 3, 4, 5, 6, 7] 3 = (.ok (), canon none 3 [4, 5, 6, 7], 4, 3) := by
  decide
example : runPopFront none 8 [1, 2, 3, 4, 5, 6, 7] 6 = (.ok (), canon none 3 [7], 1, 3) := by decide
example : runPopFront none 8 [1, 2, 3, 4, 5, 6, 7] 7 = (.ok (), canon none 3 [], 0, 3) := by decide
example : runPopFront none 8 [1, 2, 3, 4, 5, 6, 7] 0 =
    (.ok (), canon none 3 [1, 2, 3, 4, 5, 6, 7], 7, 3) := by decide
-- rejected, contents unchanged
example : Coll.popFront none (0 : Nat) ⟨8, .btree⟩
      (exPopList none 8 [1, 2, 3, 4, 5, 6, 7]).1 9 (exPopList none 8 [1, 2, 3, 4, 5, 6, 7]).2 =
    (.error (.outOfBoundsIterFrom 9 7), (exPopList none 8 [1, 2, 3, 4, 5, 6, 7]).1,
      (exPopList none 8 [1, 2, 3, 4, 5, 6, 7]).2) :=
  (C11_pop_front none (0 : Nat) ⟨8, .btree⟩ exCfgOK_none8 _ _ _ _ rfl _ exFlushed7 9).2.2 (by decide)
example : runPopFront none 8 [1, 2, 3, 4, 5, 6, 7] 9 =
    (.error (.outOfBoundsIterFrom 9 7), canon none 3 [1, 2, 3, 4, 5, 6, 7], 7, 3) := by decide

-- `[1..11]` pop 8 at `pf = some 4` (`N = 16`, depth 2, `pd = 2`): level 3, `s = 1`
example : computeLevel 8 (listDepth (some 4) 16) (pdOf (some 4)) = 3 ∧ pdOf (some 4) = 2 ∧
    listDepth (some 4) 16 = 2 := by decide
example : runPopFront (some 4) 16 [1, 2, 3, 4, 5, 6, 7, 8, 9, 10, 11] 8 =
    (.ok (), canon (some 4) 2 [9, 10, 11], 3, 2) := by decide
-- pop 4: level 2 = pd, the items are packed leaves; pop 2: level 0, values one by one
example : runPopFront (some 4) 16 [1, 2, 3, 4, 5, 6, 7, 8, 9, 10, 11] 4 =
    (.ok (), canon (some 4) 2 [5, 6, 7, 8, 9, 10, 11], 7, 2) := by decide
example : runPopFront (some 4) 16 [1, 2, 3, 4, 5, 6, 7, 8, 9, 10, 11] 2 =
    (.ok (), canon (some 4) 2 [3, 4, 5, 6, 7, 8, 9, 10, 11], 9, 2) := by decide

-- C10_pop_reuses on `[1..11]` pop 4 (`ℓ = 2`, `s = 0`): the packed leaves holding `5..8` and
-- `9..11` are the old nodes
example : ∃ c' h', Coll.popFront (some 4) (0 : Nat) ⟨16, .btree⟩
      (exPopList (some 4) 16 [1, 2, 3, 4, 5, 6, 7, 8, 9, 10, 11]).1 4
      (exPopList (some 4) 16 [1, 2, 3, 4, 5, 6, 7, 8, 9, 10, 11]).2 = (.ok (), c', h') ∧
    ∀ k, 4 + k * 2 ^ computeLevel 4 (listDepth (some 4) 16) (pdOf (some 4)) < 11 →
      subtreeAt (pdOf (some 4)) c'.tree (listDepth (some 4) 16)
          (computeLevel 4 (listDepth (some 4) 16) (pdOf (some 4)) - pdOf (some 4))
          (k * 2 ^ computeLevel 4 (listDepth (some 4) 16) (pdOf (some 4))) =
        subtreeAt (pdOf (some 4)) (exPopList (some 4) 16 [1, 2, 3, 4, 5, 6, 7, 8, 9, 10, 11]).1.tree
          (listDepth (some 4) 16)
          (computeLevel 4 (listDepth (some 4) 16) (pdOf (some 4)) - pdOf (some 4))
          (4 + k * 2 ^ computeLevel 4 (listDepth (some 4) 16) (pdOf (some 4))) :=
  C10_pop_reuses (some 4) (0 : Nat) ⟨16, .btree⟩ exCfgOK_four16 _ _ _ _ rfl _ exFlushed11 4
    (by decide) (by decide) (by decide)
-- concretely: same node identities before and after
example : (subtreeAt 2 (Coll.popFront (some 4) (0 : Nat) ⟨16, .btree⟩
      (exPopList (some 4) 16 [1, 2, 3, 4, 5, 6, 7, 8, 9, 10, 11]).1 4
      (exPopList (some 4) 16 [1, 2, 3, 4, 5, 6, 7, 8, 9, 10, 11]).2).2.1.tree 2 0 4).id =
    (subtreeAt 2 (exPopList (some 4) 16 [1, 2, 3, 4, 5, 6, 7, 8, 9, 10, 11]).1.tree 2 0 8).id := by
  decide

-- C10_pop_front_slow_agrees
example : ∃ c' h' cs hs', Coll.popFront none (0 : Nat) ⟨8, .btree⟩
      (exPopList none 8 [1, 2, 3, 4, 5, 6, 7]).1 4 (exPopList none 8 [1, 2, 3, 4, 5, 6, 7]).2 =
      (.ok (), c', h') ∧
    Coll.popFrontSlow none (0 : Nat) ⟨8, .btree⟩ (exPopList none 8 [1, 2, 3, 4, 5, 6, 7]).1 4
      Heap.empty = .ok (cs, hs') ∧
    cs.tree.erase = c'.tree.erase ∧ cs.length = c'.length ∧ cs.depth = c'.depth ∧
    cs.updates = c'.updates ∧ cs.kind = c'.kind :=
  C10_pop_front_slow_agrees none (0 : Nat) ⟨8, .btree⟩ exCfgOK_none8 _ _ _ _ rfl _ exFlushed7 4
    (by decide) (by decide) Heap.empty

-- C11_level_iter_from
example : ∃ items, (exPopList none 8 [1, 2, 3, 4, 5, 6, 7]).1.levelIterFrom none 4 = .ok items ∧
    items.flatMap LevelNode.contents = [1, 2, 3, 4, 5, 6, 7].drop 4 := by
  obtain ⟨items, h1, h2, _⟩ := C11_level_iter_from none exPfOKnone
    (exPopList none 8 [1, 2, 3, 4, 5, 6, 7]).1 [1, 2, 3, 4, 5, 6, 7] (by rfl) (by decide) (by rfl)
    (by decide) (by decide) 4 (by decide)
  exact ⟨items, h1, h2⟩

-- C11_pop_front_view: packed list `[1..5]` (`N = 8`) with one pending overwrite and two pending
-- pushes shows `[1,20,3,4,5,60,70]`; `pop_front(4)` leaves `[5,60,70]`
def exPendColl : Coll Nat :=
  { (exPopList (some 4) 8 [1, 2, 3, 4, 5]).1 with updates := .btree [(1, 20), (5, 60), (6, 70)] }

example : Coll.view [1, 2, 3, 4, 5] exPendColl = [1, 20, 3, 4, 5, 60, 70] := by decide

example : ∃ c' h', Coll.popFront (some 4) (0 : Nat) ⟨8, .btree⟩ exPendColl 4
      (exPopList (some 4) 8 [1, 2, 3, 4, 5]).2 = (.ok (), c', h') ∧
    c'.tree.erase = canon (some 4) (listDepth (some 4) 8)
      ((Coll.view [1, 2, 3, 4, 5] exPendColl).drop 4) ∧
    c'.length = (Coll.view [1, 2, 3, 4, 5] exPendColl).length - 4 ∧
    c'.depth = listDepth (some 4) 8 ∧ c'.updates = UMap.empty .btree ∧ c'.kind = .list := by
  obtain ⟨c1, h1, _, _, _, hok, _⟩ := C11_pop_front_view (some 4) (0 : Nat) ⟨8, .btree⟩
    ⟨exPfOK4, by decide, by decide⟩ exPendColl (exPopList (some 4) 8 [1, 2, 3, 4, 5]).2
    [1, 2, 3, 4, 5] rfl (by decide) rfl (by decide) (by decide)
    (by simp [exPendColl, UMap.WF, KeysAsc]) trivial
    (by intro k v hkv
        have e : exPendColl.updates.entries = [(1, 20), (5, 60), (6, 70)] := by decide
        rw [e] at hkv; simp at hkv; show k < 8; omega)
    (by decide) 4
  exact hok (by decide) (by decide)
example : ((Coll.popFront (some 4) (0 : Nat) ⟨8, .btree⟩ exPendColl 4
      (exPopList (some 4) 8 [1, 2, 3, 4, 5]).2).1,
    (Coll.popFront (some 4) (0 : Nat) ⟨8, .btree⟩ exPendColl 4
      (exPopList (some 4) 8 [1, 2, 3, 4, 5]).2).2.1.tree.erase) =
    (.ok (), canon (some 4) 1 [5, 60, 70]) := by decide
-- level_iter_from with pending writes / beyond the length
example : exPendColl.levelIterFrom (some 4) 4 = .error .levelIterPendingUpdates :=
  C11_level_iter_from_pending (some 4) exPendColl (by rfl) 4 (by decide)
example : (exPopList none 8 [1, 2, 3, 4, 5, 6, 7]).1.levelIterFrom none 8 =
    .error (.outOfBoundsIterFrom 8 7) :=
  C11_level_iter_from_out_of_bounds none _ 8 (by decide)

end Examples

end Milhouse
