import Milhouse.Proofs.History
import Milhouse.Proofs.Convert
import Milhouse.Proofs.PopFront
import Milhouse.Proofs.Rebase
import Milhouse.Proofs.Intra
import Milhouse.Proofs.Merkle
/-!
# One refinement, many corollaries: a family of handles over ONE shared memo store

`Proofs/History.lean` proves that a single `List` / `Vector` handle refines a plain bounded
sequence along every finite history. This file lifts that to a *world*: a family of handles
(addressed by index) sharing one heap of node identities / memoised hashes, with the operations that
relate handles to each other (`clone`, `rebase_on`, `intra_rebase`, conversions, `pop_front`,
`tree_hash_root`, `==`).

* `MWorld`, `WOp`, `WOut`, `wstep`, `wrun`: the model (calls the real model functions);
* `wsstep`, `wsrun`: the specification — a list of plain sequences `(kind, contents, pending)`;
  nothing there mentions trees, node identities, memos or update maps;
* `WInv`, `wstep_refines`, `wrun_refines`: for EVERY finite history from the empty world, the model's
  outputs are the specification's outputs, and the invariant (in particular `HeapOK`: no stale memo)
  holds at the end;
* corollaries: `C03_roots_invisible`, `C03_memos_valid_always`, `C04_isolation`, `C07_history`,
  `C09_history`, `C02_history`, `C02_root_depends_only_on_contents`.

The registry facts about the allocating operations are proved in `Proofs/Registry.lean`, which is
written in parallel and therefore not imported; they enter here as the hypothesis structure
`RegFacts` (four fields). With `Proofs/Registry.lean` imported it is discharged by
```
theorem regFacts_holds (E : Elem T H) (A : HashAlg H) (cfg : Cfg) : RegFacts E A cfg :=
  ⟨fun f h c r c' h' hok hc he => applyUpdates_reg E A E.pf cfg c c' f h h' r hok hc he,
   fun f h c n r c' h' hok hc he => popFront_reg E A E.pf cfg c c' n f h h' r hok hc he,
   fun f h xs c' h' hok he => tryFromIter_reg E A E.pf cfg xs f h h' c' hok he,
   fun f h x n c' h' hok he => repeat_reg E A E.pf cfg x n f h h' c' hok he⟩
```
(`WRegPost` below has the same body as `RegPost` there).
-/
namespace Milhouse
variable {T H : Type}

/-! ## Worlds, operations, outputs -/

/-- a family of handles over one shared memo store. Handles are addressed by index; new handles are
appended. -/
structure MWorld (T H : Type) where
  heap : Heap H
  colls : List (Coll T)

/-- the operations of the world. -/
inductive WOp (T : Type) where
  /-- any single-handle write / flush / read of `Proofs/History.lean` on handle `i` -/
  | on (i : Nat) (op : HOp T)
  /-- `clone()` of handle `i`: a new handle -/
  | clone (i : Nat)
  /-- `List::try_from_iter(xs)` / `Vector::try_from_iter(xs)`: a new handle -/
  | newFromIter (kind : CKind) (xs : List T)
  /-- `List::repeat(x, n)`: a new handle -/
  | newRepeat (x : T) (n : Nat)
  /-- `Vector::from_elem(x)`: a new handle -/
  | fromElem (x : T)
  /-- `pop_front(n)` on list `i`, in place -/
  | pop (i n : Nat)
  /-- `Vector::try_from(list_i.clone())`: a new handle -/
  | toVector (i : Nat)
  /-- `List::from(vector_i.clone())`: a new handle -/
  | toList (i : Nat)
  /-- `handle_i.rebase_on(&handle_j)`, in place -/
  | rebase (i j : Nat)
  /-- `handle_i.intra_rebase()`, in place -/
  | intra (i : Nat)
  /-- `handle_i.tree_hash_root()` -/
  | root (i : Nat)
  /-- `handle_i == handle_j`, observed only when both are flushed and of the same type -/
  | eqFlushed (i j : Nat)
  deriving Repr

/-- what a world operation returns: what a handle operation returns, or a hash. -/
inductive WOut (T H : Type) where
  | out (o : HOut T)
  | hash (x : H)
  deriving DecidableEq, Repr

/-- the state of the specification: for each handle its kind, its contents, and whether writes are
pending. -/
abbrev SWorld (T : Type) := List (CKind × List T × Bool)

section Steps
variable [DecidableEq T] [DecidableEq H]

/-- one operation on the model: the real model functions, threading the one shared heap.
Out-of-range indices and kind mismatches answer `unsupported` without changing the world. -/
def wstep (E : Elem T H) (A : HashAlg H) (mixIn : H → Nat → H) (cfg : Cfg) :
    MWorld T H → WOp T → WOut T H × MWorld T H
  | w, .on i op =>
    match w.colls[i]? with
    | none => (.out .unsupported, w)
    | some c =>
      (.out (mstep E.pf A.zero cfg (c, w.heap) op).1,
        ⟨(mstep E.pf A.zero cfg (c, w.heap) op).2.2,
          w.colls.set i (mstep E.pf A.zero cfg (c, w.heap) op).2.1⟩)
  | w, .clone i =>
    match w.colls[i]? with
    | none => (.out .unsupported, w)
    | some c => (.out .ok, ⟨w.heap, w.colls ++ [c]⟩)
  | w, .newFromIter .list xs =>
    match Coll.tryFromIter E.pf A.zero cfg xs w.heap with
    | .error e => (.out (.error e), w)
    | .ok (c, h) => (.out .ok, ⟨h, w.colls ++ [c]⟩)
  | w, .newFromIter .vector xs =>
    match Coll.vectorFromIter E.pf A.zero cfg xs w.heap with
    | .error e => (.out (.error e), w)
    | .ok (c, h) => (.out .ok, ⟨h, w.colls ++ [c]⟩)
  | w, .newRepeat x n =>
    match Coll.repeat_ E.pf A.zero cfg x n w.heap with
    | .error e => (.out (.error e), w)
    | .ok (c, h) => (.out .ok, ⟨h, w.colls ++ [c]⟩)
  | w, .fromElem x =>
    match Coll.vectorFromElem E.pf A.zero cfg x w.heap with
    | .error e => (.out (.error e), w)
    | .ok (c, h) => (.out .ok, ⟨h, w.colls ++ [c]⟩)
  | w, .pop i n =>
    match w.colls[i]? with
    | none => (.out .unsupported, w)
    | some c =>
      match c.kind with
      | .vector => (.out .unsupported, w)
      | .list =>
        match Coll.popFront E.pf A.zero cfg c n w.heap with
        | (.ok (), c', h') => (.out .ok, ⟨h', w.colls.set i c'⟩)
        | (.error e, c', h') => (.out (.error e), ⟨h', w.colls.set i c'⟩)
  | w, .toVector i =>
    match w.colls[i]? with
    | none => (.out .unsupported, w)
    | some c =>
      match c.kind with
      | .vector => (.out .unsupported, w)
      | .list =>
        match Coll.toVector E.pf A.zero cfg c w.heap with
        | .error e => (.out (.error e), w)
        | .ok (c', h') => (.out .ok, ⟨h', w.colls ++ [c']⟩)
  | w, .toList i =>
    match w.colls[i]? with
    | none => (.out .unsupported, w)
    | some c =>
      match c.kind with
      | .list => (.out .unsupported, w)
      | .vector => (.out .ok, ⟨w.heap, w.colls ++ [Coll.toList cfg c]⟩)
  | w, .rebase i j =>
    match w.colls[i]?, w.colls[j]? with
    | some c, some b =>
      if c.kind = b.kind then
        match c.rebaseOnColl E.pf A.zero b w.heap with
        | .error e => (.out (.error e), w)
        | .ok (c', h') => (.out .ok, ⟨h', w.colls.set i c'⟩)
      else (.out .unsupported, w)
    | _, _ => (.out .unsupported, w)
  | w, .intra i =>
    match w.colls[i]? with
    | none => (.out .unsupported, w)
    | some c =>
      match Coll.intraRebaseColl E A cfg c w.heap with
      | (.ok (), c', h') => (.out .ok, ⟨h', w.colls.set i c'⟩)
      | (.error e, c', h') => (.out (.error e), ⟨h', w.colls.set i c'⟩)
  | w, .root i =>
    match w.colls[i]? with
    | none => (.out .unsupported, w)
    | some c =>
      match Coll.treeHashRoot E A mixIn c w.heap with
      | .error e => (.out (.error e), w)
      | .ok (x, h') => (.hash x, ⟨h', w.colls⟩)
  | w, .eqFlushed i j =>
    match w.colls[i]?, w.colls[j]? with
    | some c, some b =>
      if c.kind = b.kind ∧ c.hasPending = false ∧ b.hasPending = false then
        (.out (.bool (Coll.beq c b)), w)
      else (.out .unsupported, w)
    | _, _ => (.out .unsupported, w)

/-- a history on the model: the outputs in order and the final world. -/
def wrun (E : Elem T H) (A : HashAlg H) (mixIn : H → Nat → H) (cfg : Cfg) :
    MWorld T H → List (WOp T) → List (WOut T H) × MWorld T H
  | w, [] => ([], w)
  | w, op :: ops =>
    ((wstep E A mixIn cfg w op).1 :: (wrun E A mixIn cfg (wstep E A mixIn cfg w op).2 ops).1,
      (wrun E A mixIn cfg (wstep E A mixIn cfg w op).2 ops).2)

/-! ## The specification: plain sequences

The only place where hashes occur is `root`, which answers the SSZ `hash_tree_root` of
`Spec/Merkle.lean` of the plain contents. -/

/-- one operation on the plain sequences (`N` is the capacity). -/
def wsstep (E : Elem T H) (A : HashAlg H) (mixIn : H → Nat → H) (N : Nat) :
    SWorld T → WOp T → WOut T H × SWorld T
  | s, .on i op =>
    match s[i]? with
    | none => (.out .unsupported, s)
    | some e =>
      (.out (sstep N e.1 (e.2.1, e.2.2) op).1,
        s.set i (e.1, (sstep N e.1 (e.2.1, e.2.2) op).2.1, (sstep N e.1 (e.2.1, e.2.2) op).2.2))
  | s, .clone i =>
    match s[i]? with
    | none => (.out .unsupported, s)
    | some e => (.out .ok, s ++ [e])
  | s, .newFromIter .list xs =>
    if xs.length ≤ N then (.out .ok, s ++ [(.list, xs, false)])
    else (.out (.error .builderFull), s)
  | s, .newFromIter .vector xs =>
    if N < xs.length then (.out (.error .builderFull), s)
    else if xs.length = N then (.out .ok, s ++ [(.vector, xs, false)])
    else (.out (.error (.wrongVectorLength xs.length N)), s)
  | s, .newRepeat x n =>
    if n ≤ N then (.out .ok, s ++ [(.list, List.replicate n x, false)])
    else (.out (.error .builderFull), s)
  | s, .fromElem x => (.out .ok, s ++ [(.vector, List.replicate N x, false)])
  | s, .pop i n =>
    match s[i]? with
    | none => (.out .unsupported, s)
    | some e =>
      match e.1 with
      | .vector => (.out .unsupported, s)
      | .list =>
        if n ≤ e.2.1.length then (.out .ok, s.set i (.list, e.2.1.drop n, false))
        else (.out (.error (.outOfBoundsIterFrom n e.2.1.length)), s.set i (.list, e.2.1, false))
  | s, .toVector i =>
    match s[i]? with
    | none => (.out .unsupported, s)
    | some e =>
      match e.1 with
      | .vector => (.out .unsupported, s)
      | .list =>
        if e.2.1.length = N then (.out .ok, s ++ [(.vector, e.2.1, false)])
        else (.out (.error (.wrongVectorLength e.2.1.length N)), s)
  | s, .toList i =>
    match s[i]? with
    | none => (.out .unsupported, s)
    | some e =>
      match e.1 with
      | .list => (.out .unsupported, s)
      | .vector => (.out .ok, s ++ [(.list, e.2.1, e.2.2)])
  | s, .rebase i j =>
    match s[i]?, s[j]? with
    | some e, some b => if e.1 = b.1 then (.out .ok, s) else (.out .unsupported, s)
    | _, _ => (.out .unsupported, s)
  | s, .intra i =>
    match s[i]? with
    | none => (.out .unsupported, s)
    | some e => (.out .ok, s.set i (e.1, e.2.1, false))
  | s, .root i =>
    match s[i]? with
    | none => (.out .unsupported, s)
    | some e =>
      if e.2.2 then (.out (.error .panic), s)
      else
        match e.1 with
        | .list => (.hash (Spec.listRoot E A mixIn N e.2.1), s)
        | .vector => (.hash (Spec.vectorRoot E A N e.2.1), s)
  | s, .eqFlushed i j =>
    match s[i]?, s[j]? with
    | some e, some b =>
      if e.1 = b.1 ∧ e.2.2 = false ∧ b.2.2 = false then (.out (.bool (decide (e.2.1 = b.2.1))), s)
      else (.out .unsupported, s)
    | _, _ => (.out .unsupported, s)

/-- a history on the plain sequences. -/
def wsrun (E : Elem T H) (A : HashAlg H) (mixIn : H → Nat → H) (N : Nat) :
    SWorld T → List (WOp T) → List (WOut T H) × SWorld T
  | s, [] => ([], s)
  | s, op :: ops =>
    ((wsstep E A mixIn N s op).1 :: (wsrun E A mixIn N (wsstep E A mixIn N s op).2 ops).1,
      (wsrun E A mixIn N (wsstep E A mixIn N s op).2 ops).2)

end Steps

/-! ## Registry facts (proved in `Proofs/Registry.lean`, hypotheses here) -/

/-- the registry postcondition of an allocating operation (the body of `RegPost` of
`Proofs/Registry.lean`): the result tree is registered in an extension of the registry for which the
new heap is valid; old registrations and old memos are unchanged. -/
def WRegPost (E : Elem T H) (A : HashAlg H) (f : Registry T) (h : Heap H) (t' : Tree T)
    (h' : Heap H) : Prop :=
  ∃ f', Ext A.zero f h f' h' ∧ HeapOK E A f' h' ∧ Registered f' t'

/-- exactly the registry facts the world refinement needs (`toVector`, `vectorFromIter`,
`vectorFromElem`, `intraRebaseColl` are derived from these). -/
structure RegFacts (E : Elem T H) (A : HashAlg H) (cfg : Cfg) : Prop where
  applyUpdates : ∀ (f : Registry T) (h : Heap H) (c : Coll T) (r : Except Err Unit) (c' : Coll T)
      (h' : Heap H), HeapOK E A f h → Registered f c.tree →
      Coll.applyUpdates E.pf A.zero cfg c h = (r, c', h') → WRegPost E A f h c'.tree h'
  popFront : ∀ (f : Registry T) (h : Heap H) (c : Coll T) (n : Nat) (r : Except Err Unit)
      (c' : Coll T) (h' : Heap H), HeapOK E A f h → Registered f c.tree →
      Coll.popFront E.pf A.zero cfg c n h = (r, c', h') → WRegPost E A f h c'.tree h'
  tryFromIter : ∀ (f : Registry T) (h : Heap H) (xs : List T) (c' : Coll T) (h' : Heap H),
      HeapOK E A f h →
      Coll.tryFromIter E.pf A.zero cfg xs h = .ok (c', h') → WRegPost E A f h c'.tree h'
  repeat_ : ∀ (f : Registry T) (h : Heap H) (x : T) (n : Nat) (c' : Coll T) (h' : Heap H),
      HeapOK E A f h →
      Coll.repeat_ E.pf A.zero cfg x n h = .ok (c', h') → WRegPost E A f h c'.tree h'

theorem WRegPost.refl {E : Elem T H} {A : HashAlg H} {f : Registry T} {h : Heap H} {t : Tree T}
    (hok : HeapOK E A f h) (hr : Registered f t) : WRegPost E A f h t h :=
  ⟨f, Ext.refl _ _ _, hok, hr⟩

/-- chaining two allocating operations. -/
theorem WRegPost.trans {E : Elem T H} {A : HashAlg H} {f : Registry T} {h h1 h2 : Heap H}
    {t1 t2 : Tree T} (a : WRegPost E A f h t1 h1)
    (b : ∀ f1, HeapOK E A f1 h1 → Registered f1 t1 → WRegPost E A f1 h1 t2 h2) :
    WRegPost E A f h t2 h2 := by
  obtain ⟨f1, e1, ok1, r1⟩ := a
  obtain ⟨f2, e2, ok2, r2⟩ := b f1 ok1 r1
  exact ⟨f2, e1.trans e2, ok2, r2⟩

/-! ## The world invariant -/

/-- one handle against its plain sequence, relative to a registry. -/
structure HInv (pf : Option Nat) (cfg : Cfg) (f : Registry T) (c : Coll T)
    (s : CKind × List T × Bool) : Prop where
  kind : c.kind = s.1
  pending : c.hasPending = s.2.2
  reg : Registered f c.tree
  /-- a pending map without entries is literally `U::default()` (needed by the derived `==`) -/
  normal : c.updates.Normal
  inv : ∃ xs, CollInv pf cfg c xs ∧ Coll.view xs c = s.2.1

/-- all handles against their plain sequences. -/
def HandlesOK (pf : Option Nat) (cfg : Cfg) (f : Registry T) (cs : List (Coll T))
    (sw : SWorld T) : Prop :=
  cs.length = sw.length ∧ ∀ (k : Nat) c s, cs[k]? = some c → sw[k]? = some s → HInv pf cfg f c s

/-- **the world invariant**: the memo store is valid for some registry (no stale memo), and every
handle is registered in it, satisfies the collection invariant and shows its plain sequence. -/
def WInv (E : Elem T H) (A : HashAlg H) (cfg : Cfg) (w : MWorld T H) (sw : SWorld T) : Prop :=
  ∃ f, HeapOK E A f w.heap ∧ HandlesOK E.pf cfg f w.colls sw

theorem HInv.mono {pf : Option Nat} {cfg : Cfg} {f f' : Registry T} {c : Coll T}
    {s : CKind × List T × Bool} (hm : ∀ t, Registered f t → Registered f' t)
    (a : HInv pf cfg f c s) : HInv pf cfg f' c s :=
  ⟨a.kind, a.pending, hm _ a.reg, a.normal, a.inv⟩

section Handles
variable {pf : Option Nat} {cfg : Cfg} {f f' : Registry T} {cs : List (Coll T)} {sw : SWorld T}

theorem HandlesOK.get_some (Hs : HandlesOK pf cfg f cs sw) {i : Nat} {c : Coll T}
    (hc : cs[i]? = some c) : ∃ s, sw[i]? = some s ∧ HInv pf cfg f c s := by
  have hi : i < cs.length := by
    rcases Nat.lt_or_ge i cs.length with h | h
    · exact h
    · rw [List.getElem?_eq_none h] at hc; cases hc
  have hi' : i < sw.length := Hs.1 ▸ hi
  exact ⟨sw[i], List.getElem?_eq_getElem hi', Hs.2 i c _ hc (List.getElem?_eq_getElem hi')⟩

theorem HandlesOK.get_none (Hs : HandlesOK pf cfg f cs sw) {i : Nat} (hc : cs[i]? = none) :
    sw[i]? = none := by
  rw [List.getElem?_eq_none_iff] at hc ⊢
  have := Hs.1; omega

theorem HandlesOK.mono (hm : ∀ t, Registered f t → Registered f' t)
    (Hs : HandlesOK pf cfg f cs sw) : HandlesOK pf cfg f' cs sw :=
  ⟨Hs.1, fun k c s hc hs => (Hs.2 k c s hc hs).mono hm⟩

theorem HandlesOK.set (hm : ∀ t, Registered f t → Registered f' t)
    (Hs : HandlesOK pf cfg f cs sw) (i : Nat) {c' : Coll T} {s' : CKind × List T × Bool}
    (h' : HInv pf cfg f' c' s') : HandlesOK pf cfg f' (cs.set i c') (sw.set i s') := by
  refine ⟨by rw [List.length_set, List.length_set]; exact Hs.1, ?_⟩
  intro k c s hc hs
  rw [List.getElem?_set] at hc hs
  by_cases hik : i = k
  · rw [if_pos hik] at hc hs
    split at hc
    · split at hs
      · cases hc; cases hs; exact h'
      · cases hs
    · cases hc
  · rw [if_neg hik] at hc hs
    exact (Hs.2 k c s hc hs).mono hm

theorem HandlesOK.append (hm : ∀ t, Registered f t → Registered f' t)
    (Hs : HandlesOK pf cfg f cs sw) {c' : Coll T} {s' : CKind × List T × Bool}
    (h' : HInv pf cfg f' c' s') : HandlesOK pf cfg f' (cs ++ [c']) (sw ++ [s']) := by
  refine ⟨by rw [List.length_append, List.length_append, Hs.1]; rfl, ?_⟩
  intro k c s hc hs
  rcases Nat.lt_or_ge k cs.length with hk | hk
  · rw [List.getElem?_append_left hk] at hc
    rw [List.getElem?_append_left (Hs.1 ▸ hk)] at hs
    exact (Hs.2 k c s hc hs).mono hm
  · rw [List.getElem?_append_right hk] at hc
    rw [List.getElem?_append_right (Hs.1 ▸ hk), ← Hs.1] at hs
    cases hj : k - cs.length with
    | zero => rw [hj] at hc hs; cases hc; cases hs; exact h'
    | succ j => rw [hj] at hc; cases hc

end Handles

/-- registrations survive an extension of the registry. -/
theorem WRegPost.elim {E : Elem T H} {A : HashAlg H} {f : Registry T} {h h' : Heap H} {t' : Tree T}
    (hok : HeapOK E A f h) (a : WRegPost E A f h t' h') :
    ∃ f', HeapOK E A f' h' ∧ Registered f' t' ∧ ∀ t, Registered f t → Registered f' t := by
  obtain ⟨f', e, ok', r'⟩ := a
  exact ⟨f', ok', r', fun t ht => ht.ext hok e⟩

/-! ## Structural facts about the single-handle step -/

theorem ws_set_self {α : Type} (l : List α) (i : Nat) (a : α) (h : l[i]? = some a) :
    l.set i a = l := by
  obtain ⟨hi, rfl⟩ := List.getElem?_eq_some_iff.1 h
  exact List.set_getElem_self hi

theorem ws_bulkMap_normal (k : MapKind) (kvs : List (Nat × T)) :
    (bulkMap k kvs : UMap T).Normal := by
  unfold bulkMap
  have : ∀ (m : UMap T), m.Normal →
      (kvs.foldl (fun m kv => m.insert kv.1 kv.2) m).Normal := by
    induction kvs with
    | nil => intro m hm; exact hm
    | cons p rest ih => intro m _; exact ih _ (UMap.normal_insert m p.1 p.2)
  exact this _ (UMap.normal_empty k)

theorem ws_backingUpdate_updates (pf : Option Nat) (z : H) (cfg : Cfg) (c : Coll T) (u : UMap T)
    (h : Heap H) : (Coll.backingUpdate pf z cfg c u h).2.1.updates = c.updates := by
  unfold Coll.backingUpdate
  split
  · rfl
  · split
    · split
      · rfl
      · simp only; split <;> rfl
    · split
      · rfl
      · split <;> rfl

theorem ws_applyUpdates_normal (pf : Option Nat) (z : H) (cfg : Cfg) (c : Coll T) (h : Heap H)
    (hn : c.updates.Normal) : (c.applyUpdates pf z cfg h).2.1.updates.Normal := by
  unfold Coll.applyUpdates
  split
  · exact hn
  · simp only; rw [ws_backingUpdate_updates]; exact UMap.normal_empty _

/-- a single-handle operation either only replaces the pending map (by a normal one) and leaves
the tree and the heap alone, or it is the flush. -/
theorem ws_mstep_cases (pf : Option Nat) (z : H) (cfg : Cfg) (c : Coll T) (h : Heap H)
    (op : HOp T) (hn : c.updates.Normal) :
    (∃ u : UMap T, u.Normal ∧ (mstep pf z cfg (c, h) op).2 = ({ c with updates := u }, h)) ∨
    (mstep pf z cfg (c, h) op).2 =
      ((c.applyUpdates pf z cfg h).2.1, (c.applyUpdates pf z cfg h).2.2) := by
  have same : ∃ u : UMap T, u.Normal ∧ (c, h) = ({ c with updates := u }, h) := ⟨c.updates, hn, rfl⟩
  cases op with
  | push x =>
    left
    simp only [mstep]
    cases hp : c.push cfg x with
    | error e => exact same
    | ok c' =>
      unfold Coll.push at hp
      split at hp
      · cases hp
      · simp only at hp
        split at hp
        · cases hp
        · cases hp; exact ⟨_, UMap.normal_insert _ _ _, rfl⟩
  | getMut i x =>
    left
    simp only [mstep]
    cases hp : c.getMutSet pf i x with
    | none => exact same
    | some r =>
      obtain ⟨old, c'⟩ := r
      unfold Coll.getMutSet at hp
      split at hp
      · rename_i o u hu
        cases hp
        unfold UMap.getMutSet at hu
        split at hu
        · cases hu; exact ⟨_, UMap.normal_insertEntry _ _ _, rfl⟩
        · split at hu
          · cases hu; exact ⟨_, UMap.normal_insertEntry _ _ _, rfl⟩
          · cases hu
      · cases hp
  | cow i act =>
    left
    simp only [mstep]
    cases hp : c.getCow pf i act with
    | none => exact same
    | some r =>
      obtain ⟨old, c'⟩ := r
      unfold Coll.getCow at hp
      simp only at hp
      split at hp
      · cases hp
      · cases act with
        | read => simp only at hp; cases hp; exact same
        | intoMut x => simp only at hp; cases hp; exact ⟨_, UMap.normal_insertEntry _ _ _, rfl⟩
        | makeMut x => simp only at hp; cases hp; exact ⟨_, UMap.normal_insertEntry _ _ _, rfl⟩
        | makeMut2 x y => simp only at hp; cases hp; exact ⟨_, UMap.normal_insertEntry _ _ _, rfl⟩
  | bulk kvs =>
    left
    simp only [mstep]
    split
    · exact same
    · split
      · exact same
      · rename_i c' hp
        rw [hist_bulkUpdate_ok hp]
        exact ⟨_, ws_bulkMap_normal _ _, rfl⟩
  | apply =>
    right
    simp only [mstep]
    generalize c.applyUpdates pf z cfg h = r
    obtain ⟨r1, c', h'⟩ := r
    cases r1 <;> rfl
  | flushToVec =>
    right
    simp only [mstep]
    generalize c.applyUpdates pf z cfg h = r
    obtain ⟨r1, c', h'⟩ := r
    cases r1 with
    | error e => rfl
    | ok u => simp only; split <;> rfl
  | len => left; exact same
  | isEmpty => left; exact same
  | pending => left; exact same
  | get i => left; simp only [mstep]; split <;> exact same
  | toVec => left; simp only [mstep]; split <;> exact same
  | iterFrom i => left; simp only [mstep]; split <;> exact same

/-- the registry side of a single-handle operation: only the flush allocates. -/
theorem ws_mstep_reg {E : Elem T H} {A : HashAlg H} {cfg : Cfg} (R : RegFacts E A cfg)
    {f : Registry T} {h : Heap H} {c : Coll T} (hok : HeapOK E A f h) (hr : Registered f c.tree)
    (hn : c.updates.Normal) (op : HOp T) :
    WRegPost E A f h (mstep E.pf A.zero cfg (c, h) op).2.1.tree
        (mstep E.pf A.zero cfg (c, h) op).2.2 ∧
      (mstep E.pf A.zero cfg (c, h) op).2.1.updates.Normal := by
  rcases ws_mstep_cases E.pf A.zero cfg c h op hn with ⟨u, hu, e⟩ | e
  · rw [e]; exact ⟨WRegPost.refl hok hr, hu⟩
  · rw [e]
    exact ⟨R.applyUpdates f h c _ _ _ hok hr rfl, ws_applyUpdates_normal _ _ _ _ _ hn⟩

/-! ## One step of the world refines the plain sequences -/

section Refine
variable [DecidableEq T] [DecidableEq H]

/-- the statement of one refinement step. -/
def WRef (E : Elem T H) (A : HashAlg H) (mixIn : H → Nat → H) (cfg : Cfg) (w : MWorld T H)
    (sw : SWorld T) (op : WOp T) : Prop :=
  (wstep E A mixIn cfg w op).1 = (wsstep E A mixIn cfg.N sw op).1 ∧
    WInv E A cfg (wstep E A mixIn cfg w op).2 (wsstep E A mixIn cfg.N sw op).2

variable {E : Elem T H} {A : HashAlg H} {mixIn : H → Nat → H} {cfg : Cfg} {w : MWorld T H}
  {sw : SWorld T}

theorem wref_on (K : CfgOK E.pf cfg) (R : RegFacts E A cfg) (W : WInv E A cfg w sw) (i : Nat)
    (op : HOp T) : WRef E A mixIn cfg w sw (.on i op) := by
  obtain ⟨f, hok, Hs⟩ := W
  cases hc : w.colls[i]? with
  | none =>
    have hs := Hs.get_none hc
    simp only [WRef, wstep, wsstep, hc, hs]
    exact ⟨by trivial, f, hok, Hs⟩
  | some c =>
    obtain ⟨s, hs, hI⟩ := Hs.get_some hc
    obtain ⟨xs, I, hv⟩ := hI.inv
    have ag := step_refines K I A.zero w.heap op
    rw [hI.kind, hv, hI.pending] at ag
    obtain ⟨ho, xs', I', hv', hp', hk'⟩ := ag
    obtain ⟨hreg, hnorm⟩ := ws_mstep_reg R hok hI.reg hI.normal op
    obtain ⟨f', ok', r', hm⟩ := hreg.elim hok
    simp only [WRef, wstep, wsstep, hc, hs]
    exact ⟨by rw [ho], f', ok', Hs.set hm i ⟨hk', hp', r', hnorm, xs', I', hv'⟩⟩

theorem wref_clone (W : WInv E A cfg w sw) (i : Nat) : WRef E A mixIn cfg w sw (.clone i) := by
  obtain ⟨f, hok, Hs⟩ := W
  cases hc : w.colls[i]? with
  | none =>
    have hs := Hs.get_none hc
    simp only [WRef, wstep, wsstep, hc, hs]
    exact ⟨by trivial, f, hok, Hs⟩
  | some c =>
    obtain ⟨s, hs, hI⟩ := Hs.get_some hc
    simp only [WRef, wstep, wsstep, hc, hs]
    exact ⟨by trivial, f, hok, Hs.append (fun _ h => h) hI⟩

omit [DecidableEq T] [DecidableEq H] in
theorem ws_cap (K : CfgOK E.pf cfg) {c : Coll T} {xs : List T} (I : CollInv E.pf cfg c xs) :
    xs.length ≤ cap E.pf c.depth := by
  rw [I.depth]; exact Nat.le_trans I.le_N (listDepth_ok E.pf K.pf cfg.N K.le).2

theorem wref_root (K : CfgOK E.pf cfg) (W : WInv E A cfg w sw) (i : Nat) :
    WRef E A mixIn cfg w sw (.root i) := by
  obtain ⟨f, hok, Hs⟩ := W
  cases hc : w.colls[i]? with
  | none =>
    have hs := Hs.get_none hc
    simp only [WRef, wstep, wsstep, hc, hs]
    exact ⟨by trivial, f, hok, Hs⟩
  | some c =>
    obtain ⟨s, hs, hI⟩ := Hs.get_some hc
    obtain ⟨xs, I, hv⟩ := hI.inv
    have hN2 : cfg.N ≤ 2 ^ 64 := Nat.le_trans K.le (by decide)
    cases hp : s.2.2 with
    | true =>
      have hpc : c.hasPending = true := hI.pending.trans hp
      simp only [WRef, wstep, wsstep, hc, hs, hp, Coll.treeHashRoot, hpc, if_true]
      exact ⟨by trivial, f, hok, Hs⟩
    | false =>
      have hpc : c.hasPending = false := hI.pending.trans hp
      have hupd : c.updates.isEmpty = true := by simpa [Coll.hasPending] using hpc
      have hx : s.2.1 = xs := by rw [← hv]; exact C01_view_of_not_pending xs c hpc
      cases hk : s.1 with
      | list =>
        obtain ⟨h', e, ok'⟩ := C02_list_root_is_spec E A mixIn f c w.heap cfg.N xs K.pf
          (hI.kind.trans hk) hupd I.shape I.len I.depth (ws_cap K I) hok hI.reg K.pos hN2
        simp only [WRef, wstep, wsstep, hc, hs, hp, hk, e, hx, Bool.false_eq_true, if_false]
        exact ⟨by trivial, f, ok', Hs⟩
      | vector =>
        obtain ⟨h', e, ok'⟩ := C02_vector_root_is_spec E A mixIn f c w.heap cfg.N xs K.pf
          (hI.kind.trans hk) hupd I.shape I.len I.depth (ws_cap K I) hok hI.reg K.pos hN2
        simp only [WRef, wstep, wsstep, hc, hs, hp, hk, e, hx, Bool.false_eq_true, if_false]
        exact ⟨by trivial, f, ok', Hs⟩

omit [DecidableEq T] [DecidableEq H] in
theorem ws_collInv_congr {pf : Option Nat} {c c' : Coll T} {xs : List T} (I : CollInv pf cfg c xs)
    (he : c'.tree.erase = c.tree.erase) (hl : c'.length = c.length) (hd : c'.depth = c.depth)
    (hu : c'.updates = c.updates) (hk : c'.kind = c.kind) : CollInv pf cfg c' xs := by
  refine ⟨by rw [he, hd]; exact I.shape, hl.trans I.len, hd.trans I.depth, ?_,
    by rw [hu]; exact I.mapKind, by rw [hu]; exact I.wf, by rw [hu]; exact I.keys,
    by rw [hu]; exact I.contiguous, by rw [hu]; exact I.maxRel⟩
  rw [hk]; exact I.bound

omit [DecidableEq T] [DecidableEq H] in
/-- a handle whose observable fields are those of `c` is as good as `c`. -/
theorem ws_hinv_congr {pf : Option Nat} {f' : Registry T} {c c' : Coll T}
    {k : CKind} {v : List T} {xs : List T} (I : CollInv pf cfg c xs) (hv : Coll.view xs c = v)
    (hn : c.updates.Normal) (hck : c.kind = k)
    (he : c'.tree.erase = c.tree.erase) (hl : c'.length = c.length) (hd : c'.depth = c.depth)
    (hu : c'.updates = c.updates) (hk : c'.kind = c.kind) (hr : Registered f' c'.tree) :
    HInv pf cfg f' c' (k, v, c.hasPending) :=
  ⟨hk.trans hck, by show (!c'.updates.isEmpty) = (!c.updates.isEmpty); rw [hu], hr, by rw [hu]; exact hn,
    xs, ws_collInv_congr I he hl hd hu hk, by rw [← hv]; unfold Coll.view; rw [hu]⟩

omit [DecidableEq T] [DecidableEq H] in
/-- a flushed handle with the default pending map. -/
theorem ws_hinv_fresh {pf : Option Nat} {f' : Registry T} {c : Coll T} {k : CKind} {ys : List T}
    (I : CollInv pf cfg c ys) (hu : c.updates = UMap.empty cfg.map) (hk : c.kind = k)
    (hr : Registered f' c.tree) : HInv pf cfg f' c (k, ys, false) := by
  have hp : c.hasPending = false := by rw [C01_hasPending, hu, UMap.co_isEmpty_empty]; rfl
  exact ⟨hk, hp, hr, by rw [hu]; exact UMap.normal_empty _, ys, I, C01_view_of_not_pending ys c hp⟩

omit [DecidableEq T] [DecidableEq H] in
/-- the flush, with everything the world needs to know about its result. -/
theorem ws_flush (K : CfgOK E.pf cfg) (R : RegFacts E A cfg) {f : Registry T} {h : Heap H}
    {c : Coll T} {xs : List T} (hok : HeapOK E A f h) (hr : Registered f c.tree)
    (hn : c.updates.Normal) (I : CollInv E.pf cfg c xs) :
    ∃ c1 h1 f1, c.applyUpdates E.pf A.zero cfg h = (.ok (), c1, h1) ∧
      CollInv E.pf cfg c1 (Coll.view xs c) ∧ c1.updates.isEmpty = true ∧ c1.hasPending = false ∧
      Coll.view (Coll.view xs c) c1 = Coll.view xs c ∧ c1.kind = c.kind ∧ c1.updates.Normal ∧
      HeapOK E A f1 h1 ∧ Registered f1 c1.tree ∧ (∀ t, Registered f t → Registered f1 t) := by
  obtain ⟨c1, h1, hfl, I1, he1, hv1, hk1, _, _⟩ := C01_applyUpdates K I A.zero h
  obtain ⟨f1, ok1, r1, hm1⟩ := (R.applyUpdates f h c _ c1 h1 hok hr hfl).elim hok
  have hn1 := ws_applyUpdates_normal E.pf A.zero cfg c h hn
  rw [hfl] at hn1
  exact ⟨c1, h1, f1, hfl, I1, he1, by rw [C01_hasPending, he1]; rfl, hv1, hk1, hn1, ok1, r1, hm1⟩

omit [DecidableEq T] [DecidableEq H] in
theorem ws_toVector_reg (R : RegFacts E A cfg) {f : Registry T} {h h' : Heap H} {c c' : Coll T}
    (hok : HeapOK E A f h) (hr : Registered f c.tree)
    (e : Coll.toVector E.pf A.zero cfg c h = .ok (c', h')) : WRegPost E A f h c'.tree h' := by
  unfold Coll.toVector at e
  split at e
  · split at e
    · cases e
    · rename_i c1 h1 hfl
      cases e
      exact R.applyUpdates f h c _ c1 h' hok hr hfl
  · cases e

omit [DecidableEq T] [DecidableEq H] in
theorem ws_vectorFromElem_reg (R : RegFacts E A cfg) {f : Registry T} {h h' : Heap H} {x : T}
    {c' : Coll T} (hok : HeapOK E A f h)
    (e : Coll.vectorFromElem E.pf A.zero cfg x h = .ok (c', h')) : WRegPost E A f h c'.tree h' := by
  unfold Coll.vectorFromElem at e
  split at e
  · cases e
  · rename_i c0 h0 hr
    exact (R.repeat_ f h x cfg.N c0 h0 hok hr).trans (fun f1 ok1 r1 => ws_toVector_reg R ok1 r1 e)

omit [DecidableEq T] [DecidableEq H] in
theorem ws_vectorFromIter_reg (R : RegFacts E A cfg) {f : Registry T} {h h' : Heap H} {xs : List T}
    {c' : Coll T} (hok : HeapOK E A f h)
    (e : Coll.vectorFromIter E.pf A.zero cfg xs h = .ok (c', h')) : WRegPost E A f h c'.tree h' := by
  unfold Coll.vectorFromIter at e
  split at e
  · cases e
  · rename_i c0 h0 hr
    exact (R.tryFromIter f h xs c0 h0 hok hr).trans (fun f1 ok1 r1 => ws_toVector_reg R ok1 r1 e)

theorem wref_rebase (K : CfgOK E.pf cfg) (hcf : CollisionFree E A) (W : WInv E A cfg w sw)
    (i j : Nat) : WRef E A mixIn cfg w sw (.rebase i j) := by
  obtain ⟨f, hok, Hs⟩ := W
  cases hc : w.colls[i]? with
  | none =>
    have hs := Hs.get_none hc
    cases hb : w.colls[j]? with
    | none =>
      have hsb := Hs.get_none hb
      simp only [WRef, wstep, wsstep, hc, hs, hb, hsb]
      exact ⟨by trivial, f, hok, Hs⟩
    | some b =>
      obtain ⟨sb, hsb, hIb⟩ := Hs.get_some hb
      simp only [WRef, wstep, wsstep, hc, hs, hb, hsb]
      exact ⟨by trivial, f, hok, Hs⟩
  | some c =>
    obtain ⟨sc, hs, hI⟩ := Hs.get_some hc
    cases hb : w.colls[j]? with
    | none =>
      have hsb := Hs.get_none hb
      simp only [WRef, wstep, wsstep, hc, hs, hb, hsb]
      exact ⟨by trivial, f, hok, Hs⟩
    | some b =>
      obtain ⟨sb, hsb, hIb⟩ := Hs.get_some hb
      by_cases hkk : c.kind = b.kind
      · have hkk' : sc.1 = sb.1 := by rw [← hI.kind, ← hIb.kind]; exact hkk
        obtain ⟨xs, I, hv⟩ := hI.inv
        obtain ⟨ys, J, _⟩ := hIb.inv
        have hvec : c.kind = .vector → c.length = b.length := by
          intro hkv
          have h1 := I.bound
          have h2 := J.bound
          rw [hkv] at h1
          rw [← hkk, hkv] at h2
          simp only at h1 h2
          rw [I.len, J.len, h1, h2]
        obtain ⟨c', h', f', e, he, hl, hd, hu, hk, _, _, _, _, _, ok', r', _, _, hf, hr, hn⟩ :=
          C07_rebase_preserves_meaning E A hcf E.pf K.pf f w.heap c b xs ys hok
            ⟨I.shape, I.len, ws_cap K I, hI.reg⟩ ⟨J.shape, J.len, ws_cap K J, hIb.reg⟩
            (I.depth.trans J.depth.symm) hvec
        have hm : ∀ t, Registered f t → Registered f' t := fun t ht => ht.ext hok ⟨hn, hf, hr⟩
        have hI' := ws_hinv_congr I hv hI.normal hI.kind he hl hd hu hk r'.reg
        rw [hI.pending] at hI'
        simp only [WRef, wstep, wsstep, hc, hs, hb, hsb, if_pos hkk, if_pos hkk', e]
        refine ⟨by trivial, f', ok', ?_⟩
        have := Hs.set hm i hI'
        rw [ws_set_self _ _ _ hs] at this
        exact this
      · have hkk' : ¬ sc.1 = sb.1 := by rw [← hI.kind, ← hIb.kind]; exact hkk
        simp only [WRef, wstep, wsstep, hc, hs, hb, hsb, if_neg hkk, if_neg hkk']
        exact ⟨by trivial, f, hok, Hs⟩

omit [DecidableEq T] [DecidableEq H] in
/-- the two statements of collision freedom (`Proofs/Rebase.lean`, `Proofs/Intra.lean`) are the
same. -/
theorem CollisionFree.toPrime {E : Elem T H} {A : HashAlg H} (h : CollisionFree E A) :
    CollisionFree' E A := ⟨h.h2_inj, h.leaf_inj, h.pack_inj⟩

omit [DecidableEq T] [DecidableEq H] in
theorem CollisionFree'.toUnprimed {E : Elem T H} {A : HashAlg H} (h : CollisionFree' E A) :
    CollisionFree E A := ⟨h.h2_inj, h.leaf_inj, h.pack_inj⟩

theorem wref_intra (K : CfgOK E.pf cfg) (hcf : CollisionFree E A) (nz : NoZeroNode A)
    (R : RegFacts E A cfg) (W : WInv E A cfg w sw) (i : Nat) :
    WRef E A mixIn cfg w sw (.intra i) := by
  obtain ⟨f, hok, Hs⟩ := W
  cases hc : w.colls[i]? with
  | none =>
    have hs := Hs.get_none hc
    simp only [WRef, wstep, wsstep, hc, hs]
    exact ⟨by trivial, f, hok, Hs⟩
  | some c =>
    obtain ⟨s, hs, hI⟩ := Hs.get_some hc
    obtain ⟨xs, I, hv⟩ := hI.inv
    obtain ⟨c1, h1, f1, hfl, I1, he1, hp1, hv1, hk1, hn1, ok1, r1, hm1⟩ :=
      ws_flush K R hok hI.reg hI.normal I
    obtain ⟨c', h', f', e, he, hl, hd, hu, hk, _, r', ok', hag, _, _⟩ :=
      C09_intra_preserves_meaning K.pf hcf.toPrime nz cfg c c1 w.heap h1 f1 (Coll.view xs c) hfl
        I1.shape I1.len (ws_cap K I1) r1 ok1
    have hm : ∀ t, Registered f t → Registered f' t := by
      intro t ht u hu'
      have := hm1 t ht u hu'
      rw [hag _ (ok1.bound _ _ this)]; exact this
    have hI' := ws_hinv_congr I1 (hv1.trans hv) hn1 (hk1.trans hI.kind) he hl hd hu hk r'
    rw [hp1] at hI'
    simp only [WRef, wstep, wsstep, hc, hs, e]
    exact ⟨by trivial, f', ok', Hs.set hm i hI'⟩

theorem wref_pop (K : CfgOK E.pf cfg) (R : RegFacts E A cfg) (W : WInv E A cfg w sw) (i n : Nat) :
    WRef E A mixIn cfg w sw (.pop i n) := by
  obtain ⟨f, hok, Hs⟩ := W
  cases hc : w.colls[i]? with
  | none =>
    have hs := Hs.get_none hc
    simp only [WRef, wstep, wsstep, hc, hs]
    exact ⟨by trivial, f, hok, Hs⟩
  | some c =>
    obtain ⟨s, hs, hI⟩ := Hs.get_some hc
    obtain ⟨xs, I, hv⟩ := hI.inv
    cases hk : s.1 with
    | vector =>
      have hck : c.kind = .vector := hI.kind.trans hk
      simp only [WRef, wstep, wsstep, hc, hs, hk, hck]
      exact ⟨by trivial, f, hok, Hs⟩
    | list =>
      have hck : c.kind = .list := hI.kind.trans hk
      obtain ⟨c1, h1, f1, hfl, I1, he1, hp1, hv1, hk1, hn1, _, _, _⟩ :=
        ws_flush K R hok hI.reg hI.normal I
      have F : Flushed E.pf cfg c1 (Coll.view xs c) := ⟨he1, I1.shape, I1.len, I1.depth, I1.le_N⟩
      obtain ⟨p0, p1, p2⟩ := C11_pop_front E.pf A.zero cfg K c w.heap c1 h1 hfl _ F n
      have hI1 : ∀ f', Registered f' c1.tree → HInv E.pf cfg f' c1 (.list, s.2.1, false) := by
        intro f' r'
        have := ws_hinv_congr (c' := c1) I1 (hv1.trans hv) hn1 (hk1.trans hck) rfl rfl rfl rfl rfl r'
        rw [hp1] at this; exact this
      by_cases hn0 : n = 0
      · have e := p0 hn0
        obtain ⟨f', ok', r', hm⟩ := (R.popFront f w.heap c n _ c1 h1 hok hI.reg e).elim hok
        subst hn0
        simp only [WRef, wstep, wsstep, hc, hs, hk, hck, e, Nat.zero_le, if_true, List.drop_zero]
        exact ⟨by trivial, f', ok', Hs.set hm i (hI1 f' r')⟩
      · by_cases hle : n ≤ (Coll.view xs c).length
        · obtain ⟨c', h', e, ht, hl, hd, hu, hkl⟩ := p1 hn0 hle
          obtain ⟨f', ok', r', hm⟩ := (R.popFront f w.heap c n _ c' h' hok hI.reg e).elim hok
          have I' : CollInv E.pf cfg c' ((Coll.view xs c).drop n) := by
            refine CollInv.of_flushed ht (by rw [hl, List.length_drop]) hd ?_ hu
            rw [hkl]
            show ((Coll.view xs c).drop n).length ≤ cfg.N
            rw [List.length_drop]
            exact Nat.le_trans (Nat.sub_le _ _) I1.le_N
          have hI' := ws_hinv_fresh I' hu hkl r'
          rw [hv] at hle hI'
          simp only [WRef, wstep, wsstep, hc, hs, hk, hck, e, if_pos hle]
          exact ⟨by trivial, f', ok', Hs.set hm i hI'⟩
        · have e := p2 (by omega)
          obtain ⟨f', ok', r', hm⟩ := (R.popFront f w.heap c n _ c1 h1 hok hI.reg e).elim hok
          rw [hv] at hle e
          simp only [WRef, wstep, wsstep, hc, hs, hk, hck, e, if_neg hle]
          exact ⟨by trivial, f', ok', Hs.set hm i (hI1 f' r')⟩

theorem wref_toVector (K : CfgOK E.pf cfg) (R : RegFacts E A cfg) (W : WInv E A cfg w sw)
    (i : Nat) : WRef E A mixIn cfg w sw (.toVector i) := by
  obtain ⟨f, hok, Hs⟩ := W
  cases hc : w.colls[i]? with
  | none =>
    have hs := Hs.get_none hc
    simp only [WRef, wstep, wsstep, hc, hs]
    exact ⟨by trivial, f, hok, Hs⟩
  | some c =>
    obtain ⟨s, hs, hI⟩ := Hs.get_some hc
    obtain ⟨xs, I, hv⟩ := hI.inv
    cases hk : s.1 with
    | vector =>
      have hck : c.kind = .vector := hI.kind.trans hk
      simp only [WRef, wstep, wsstep, hc, hs, hk, hck]
      exact ⟨by trivial, f, hok, Hs⟩
    | list =>
      have hck : c.kind = .list := hI.kind.trans hk
      by_cases hN : (Coll.view xs c).length = cfg.N
      · obtain ⟨c', h', e, hkv, I', he', hv', _, hnorm'⟩ :=
          C05_toVector E.pf A.zero cfg K c xs I hN w.heap
        obtain ⟨f', ok', r', hm⟩ := (ws_toVector_reg R hok hI.reg e).elim hok
        have hu' := hnorm' (hI.normal.eq_empty I.mapKind)
        have hI' := ws_hinv_fresh I' hu' hkv r'
        rw [hv] at hN hI'
        simp only [WRef, wstep, wsstep, hc, hs, hk, hck, e, if_pos hN]
        exact ⟨by trivial, f', ok', Hs.append hm hI'⟩
      · have e := C05_toVector_rejects E.pf A.zero cfg c xs I hN w.heap
        rw [hv] at hN e
        simp only [WRef, wstep, wsstep, hc, hs, hk, hck, e, if_neg hN]
        exact ⟨by trivial, f, hok, Hs⟩

theorem wref_toList (W : WInv E A cfg w sw) (i : Nat) : WRef E A mixIn cfg w sw (.toList i) := by
  obtain ⟨f, hok, Hs⟩ := W
  cases hc : w.colls[i]? with
  | none =>
    have hs := Hs.get_none hc
    simp only [WRef, wstep, wsstep, hc, hs]
    exact ⟨by trivial, f, hok, Hs⟩
  | some c =>
    obtain ⟨s, hs, hI⟩ := Hs.get_some hc
    obtain ⟨xs, I, hv⟩ := hI.inv
    cases hk : s.1 with
    | list =>
      have hck : c.kind = .list := hI.kind.trans hk
      simp only [WRef, wstep, wsstep, hc, hs, hk, hck]
      exact ⟨by trivial, f, hok, Hs⟩
    | vector =>
      have hck : c.kind = .vector := hI.kind.trans hk
      obtain ⟨I', hkl, hv', ht, hu⟩ := C05_toList E.pf cfg c xs I hck
      simp only [WRef, wstep, wsstep, hc, hs, hk, hck]
      refine ⟨by trivial, f, hok, Hs.append (fun _ h => h) ⟨hkl, ?_, by rw [ht]; exact hI.reg,
        by rw [hu]; exact hI.normal, xs, I', hv'.trans hv⟩⟩
      show (!(Coll.toList cfg c).updates.isEmpty) = _
      rw [hu]; exact hI.pending

theorem wref_newFromIter (K : CfgOK E.pf cfg) (R : RegFacts E A cfg) (W : WInv E A cfg w sw)
    (k : CKind) (xs : List T) : WRef E A mixIn cfg w sw (.newFromIter k xs) := by
  obtain ⟨f, hok, Hs⟩ := W
  cases k with
  | list =>
    by_cases hl : xs.length ≤ cfg.N
    · obtain ⟨c, h', e, I, hk, hu, _⟩ := C05_tryFromIter_inv K A.zero xs hl w.heap
      obtain ⟨f', ok', r', hm⟩ := (R.tryFromIter f w.heap xs c h' hok e).elim hok
      simp only [WRef, wstep, wsstep, e, if_pos hl]
      exact ⟨by trivial, f', ok', Hs.append hm (ws_hinv_fresh I hu hk r')⟩
    · have e := C05_tryFromIter_rejects E.pf K.pf A.zero cfg K.le xs (by omega) w.heap
      simp only [WRef, wstep, wsstep, e, if_neg hl]
      exact ⟨by trivial, f, hok, Hs⟩
  | vector =>
    by_cases hl : cfg.N < xs.length
    · have e0 := C05_tryFromIter_rejects E.pf K.pf A.zero cfg K.le xs hl w.heap
      have e : Coll.vectorFromIter E.pf A.zero cfg xs w.heap = .error .builderFull := by
        simp only [Coll.vectorFromIter, e0]
      simp only [WRef, wstep, wsstep, e, if_pos hl]
      exact ⟨by trivial, f, hok, Hs⟩
    · obtain ⟨c0, h0, e0, I0, hk0, hu0, hv0⟩ :=
        C05_tryFromIter_inv K A.zero xs (by omega) w.heap
      by_cases hN : xs.length = cfg.N
      · obtain ⟨c', h', e1, hkv, I', he', hv', _, hnorm'⟩ :=
          C05_toVector E.pf A.zero cfg K c0 xs I0 (by rw [hv0]; exact hN) h0
        have e : Coll.vectorFromIter E.pf A.zero cfg xs w.heap = .ok (c', h') := by
          simp only [Coll.vectorFromIter, e0, e1]
        obtain ⟨f', ok', r', hm⟩ := (ws_vectorFromIter_reg R hok e).elim hok
        have hI' := ws_hinv_fresh I' (hnorm' (fun _ => hu0)) hkv r'
        rw [hv0] at hI'
        simp only [WRef, wstep, wsstep, e, if_neg hl, if_pos hN]
        exact ⟨by trivial, f', ok', Hs.append hm hI'⟩
      · have e1 := C05_toVector_rejects E.pf A.zero cfg c0 xs I0 (by rw [hv0]; exact hN) h0
        have e : Coll.vectorFromIter E.pf A.zero cfg xs w.heap =
            .error (.wrongVectorLength xs.length cfg.N) := by
          simp only [Coll.vectorFromIter, e0, e1, hv0]
        simp only [WRef, wstep, wsstep, e, if_neg hl, if_neg hN]
        exact ⟨by trivial, f, hok, Hs⟩

theorem wref_newRepeat (K : CfgOK E.pf cfg) (R : RegFacts E A cfg) (W : WInv E A cfg w sw)
    (x : T) (n : Nat) : WRef E A mixIn cfg w sw (.newRepeat x n) := by
  obtain ⟨f, hok, Hs⟩ := W
  by_cases hl : n ≤ cfg.N
  · obtain ⟨c, h', e, I, hk, hu, _⟩ := C05_repeat_inv K A.zero x n hl w.heap
    obtain ⟨f', ok', r', hm⟩ := (R.repeat_ f w.heap x n c h' hok e).elim hok
    simp only [WRef, wstep, wsstep, e, if_pos hl]
    exact ⟨by trivial, f', ok', Hs.append hm (ws_hinv_fresh I hu hk r')⟩
  · have e := (C05_repeat E.pf K.pf A.zero cfg x n w.heap (Nat.le_trans K.le (by decide))).2
      (by omega)
    simp only [WRef, wstep, wsstep, e, if_neg hl]
    exact ⟨by trivial, f, hok, Hs⟩

theorem wref_fromElem (K : CfgOK E.pf cfg) (R : RegFacts E A cfg) (W : WInv E A cfg w sw)
    (x : T) : WRef E A mixIn cfg w sw (.fromElem x) := by
  obtain ⟨f, hok, Hs⟩ := W
  obtain ⟨c, h', e, I, hk, hu, _⟩ := C05_vector_from_elem_inv K A.zero x w.heap
  obtain ⟨f', ok', r', hm⟩ := (ws_vectorFromElem_reg R hok e).elim hok
  simp only [WRef, wstep, wsstep, e]
  exact ⟨by trivial, f', ok', Hs.append hm (ws_hinv_fresh I hu hk r')⟩

theorem wref_eqFlushed (K : CfgOK E.pf cfg) (W : WInv E A cfg w sw) (i j : Nat) :
    WRef E A mixIn cfg w sw (.eqFlushed i j) := by
  obtain ⟨f, hok, Hs⟩ := W
  cases hc : w.colls[i]? with
  | none =>
    have hs := Hs.get_none hc
    cases hb : w.colls[j]? with
    | none =>
      have hsb := Hs.get_none hb
      simp only [WRef, wstep, wsstep, hc, hs, hb, hsb]
      exact ⟨by trivial, f, hok, Hs⟩
    | some b =>
      obtain ⟨sb, hsb, hIb⟩ := Hs.get_some hb
      simp only [WRef, wstep, wsstep, hc, hs, hb, hsb]
      exact ⟨by trivial, f, hok, Hs⟩
  | some c =>
    obtain ⟨sc, hs, hI⟩ := Hs.get_some hc
    cases hb : w.colls[j]? with
    | none =>
      have hsb := Hs.get_none hb
      simp only [WRef, wstep, wsstep, hc, hs, hb, hsb]
      exact ⟨by trivial, f, hok, Hs⟩
    | some b =>
      obtain ⟨sb, hsb, hIb⟩ := Hs.get_some hb
      by_cases hcond : c.kind = b.kind ∧ c.hasPending = false ∧ b.hasPending = false
      · have hcond' : sc.1 = sb.1 ∧ sc.2.2 = false ∧ sb.2.2 = false := by
          rw [← hI.kind, ← hIb.kind, ← hI.pending, ← hIb.pending]; exact hcond
        obtain ⟨xs, I, hv⟩ := hI.inv
        obtain ⟨ys, J, hvb⟩ := hIb.inv
        have hx : sc.2.1 = xs := by rw [← hv]; exact C01_view_of_not_pending xs c hcond.2.1
        have hy : sb.2.1 = ys := by rw [← hvb]; exact C01_view_of_not_pending ys b hcond.2.2
        have ha : c.updates = UMap.empty cfg.map :=
          hI.normal.eq_empty I.mapKind (by simpa [Coll.hasPending] using hcond.2.1)
        have hb' : b.updates = UMap.empty cfg.map :=
          hIb.normal.eq_empty J.mapKind (by simpa [Coll.hasPending] using hcond.2.2)
        have hbeq := C06_beq_eq_decide K I J ha hb'
        simp only [WRef, wstep, wsstep, hc, hs, hb, hsb, if_pos hcond, if_pos hcond', hbeq, hx, hy]
        exact ⟨by trivial, f, hok, Hs⟩
      · have hcond' : ¬ (sc.1 = sb.1 ∧ sc.2.2 = false ∧ sb.2.2 = false) := by
          rw [← hI.kind, ← hIb.kind, ← hI.pending, ← hIb.pending]; exact hcond
        simp only [WRef, wstep, wsstep, hc, hs, hb, hsb, if_neg hcond, if_neg hcond']
        exact ⟨by trivial, f, hok, Hs⟩

/-- **One step of the world refines the plain sequences.** Under the world invariant, every
operation returns on the model what it returns on the plain sequences, and the invariant (validity
of every memo included) holds again. -/
theorem wstep_refines (K : CfgOK E.pf cfg) (hcf : CollisionFree E A) (nz : NoZeroNode A)
    (R : RegFacts E A cfg) (W : WInv E A cfg w sw) (op : WOp T) :
    (wstep E A mixIn cfg w op).1 = (wsstep E A mixIn cfg.N sw op).1 ∧
      WInv E A cfg (wstep E A mixIn cfg w op).2 (wsstep E A mixIn cfg.N sw op).2 := by
  cases op with
  | on i op => exact wref_on K R W i op
  | clone i => exact wref_clone W i
  | newFromIter k xs => exact wref_newFromIter K R W k xs
  | newRepeat x n => exact wref_newRepeat K R W x n
  | fromElem x => exact wref_fromElem K R W x
  | pop i n => exact wref_pop K R W i n
  | toVector i => exact wref_toVector K R W i
  | toList i => exact wref_toList W i
  | rebase i j => exact wref_rebase K hcf W i j
  | intra i => exact wref_intra K hcf nz R W i
  | root i => exact wref_root K W i
  | eqFlushed i j => exact wref_eqFlushed K W i j

/-! ## All finite histories -/

theorem wrun_append (E : Elem T H) (A : HashAlg H) (mixIn : H → Nat → H) (cfg : Cfg)
    (w : MWorld T H) (a b : List (WOp T)) :
    wrun E A mixIn cfg w (a ++ b) =
      ((wrun E A mixIn cfg w a).1 ++ (wrun E A mixIn cfg (wrun E A mixIn cfg w a).2 b).1,
        (wrun E A mixIn cfg (wrun E A mixIn cfg w a).2 b).2) := by
  induction a generalizing w with
  | nil => rfl
  | cons op rest ih => simp only [List.cons_append, wrun, ih]

omit [DecidableEq H] in
theorem wsrun_append (E : Elem T H) (A : HashAlg H) (mixIn : H → Nat → H) (N : Nat)
    (s : SWorld T) (a b : List (WOp T)) :
    wsrun E A mixIn N s (a ++ b) =
      ((wsrun E A mixIn N s a).1 ++ (wsrun E A mixIn N (wsrun E A mixIn N s a).2 b).1,
        (wsrun E A mixIn N (wsrun E A mixIn N s a).2 b).2) := by
  induction a generalizing s with
  | nil => rfl
  | cons op rest ih => simp only [List.cons_append, wsrun, ih]

theorem length_wrun (E : Elem T H) (A : HashAlg H) (mixIn : H → Nat → H) (cfg : Cfg)
    (w : MWorld T H) (ops : List (WOp T)) : (wrun E A mixIn cfg w ops).1.length = ops.length := by
  induction ops generalizing w with
  | nil => rfl
  | cons op rest ih => simp only [wrun, List.length_cons, ih]

omit [DecidableEq H] in
theorem length_wsrun (E : Elem T H) (A : HashAlg H) (mixIn : H → Nat → H) (N : Nat)
    (s : SWorld T) (ops : List (WOp T)) : (wsrun E A mixIn N s ops).1.length = ops.length := by
  induction ops generalizing s with
  | nil => rfl
  | cons op rest ih => simp only [wsrun, List.length_cons, ih]

/-- **The refinement, every finite history, from every world satisfying the invariant.** -/
theorem wrun_refines_from (K : CfgOK E.pf cfg) (hcf : CollisionFree E A) (nz : NoZeroNode A)
    (R : RegFacts E A cfg) (ops : List (WOp T)) :
    ∀ (w : MWorld T H) (sw : SWorld T), WInv E A cfg w sw →
      (wrun E A mixIn cfg w ops).1 = (wsrun E A mixIn cfg.N sw ops).1 ∧
        WInv E A cfg (wrun E A mixIn cfg w ops).2 (wsrun E A mixIn cfg.N sw ops).2 := by
  induction ops with
  | nil => intro w sw W; exact ⟨rfl, W⟩
  | cons op rest ih =>
    intro w sw W
    obtain ⟨ho, W'⟩ := wstep_refines (mixIn := mixIn) K hcf nz R W op
    obtain ⟨ho2, W''⟩ := ih _ _ W'
    refine ⟨?_, W''⟩
    show (wstep E A mixIn cfg w op).1 :: _ = (wsstep E A mixIn cfg.N sw op).1 :: _
    rw [ho, ho2]

/-- the world without handles, on the empty memo store. -/
def MWorld.empty : MWorld T H := ⟨Heap.empty, []⟩

omit [DecidableEq T] [DecidableEq H] in
theorem WInv.empty (E : Elem T H) (A : HashAlg H) (cfg : Cfg) :
    WInv E A cfg (MWorld.empty : MWorld T H) [] :=
  ⟨fun _ => none, HeapOK.mk (fun _ _ h => by cases h) (fun _ _ h => by cases h), rfl,
    fun k c s hc _ => by simp [MWorld.empty] at hc⟩

/-- **The multi-handle, whole-history refinement.** For EVERY finite list of world operations,
started in the empty world: the outputs of the model (real trees, node identities, one shared memo
store, pending-write maps) are the outputs of the plain sequences, and at the end the world
invariant holds: every memo of every live node is absent or the true hash (`HeapOK`), every handle
satisfies the collection invariant and shows its plain sequence. -/
theorem wrun_refines (K : CfgOK E.pf cfg) (hcf : CollisionFree E A) (nz : NoZeroNode A)
    (R : RegFacts E A cfg) (ops : List (WOp T)) :
    (wrun E A mixIn cfg MWorld.empty ops).1 = (wsrun E A mixIn cfg.N [] ops).1 ∧
      WInv E A cfg (wrun E A mixIn cfg MWorld.empty ops).2 (wsrun E A mixIn cfg.N [] ops).2 :=
  wrun_refines_from K hcf nz R ops _ _ (WInv.empty E A cfg)

/-- the output of one more operation `r` after a history, on the model, is its output on the plain
sequences. -/
theorem wrun_then_step (K : CfgOK E.pf cfg) (hcf : CollisionFree E A) (nz : NoZeroNode A)
    (R : RegFacts E A cfg) (ops : List (WOp T)) (r : WOp T) :
    (wstep E A mixIn cfg (wrun E A mixIn cfg MWorld.empty ops).2 r).1 =
      (wsstep E A mixIn cfg.N (wsrun E A mixIn cfg.N [] ops).2 r).1 :=
  (wstep_refines K hcf nz R (wrun_refines K hcf nz R ops).2 r).1

end Refine

/-! ## Facts about the SPECIFICATION only

Everything in this section is about plain sequences: no trees, no memos. -/

/-- the handles an operation mentions. -/
def WOp.handles : WOp T → List Nat
  | .on i _ => [i]
  | .clone i => [i]
  | .newFromIter _ _ => []
  | .newRepeat _ _ => []
  | .fromElem _ => []
  | .pop i _ => [i]
  | .toVector i => [i]
  | .toList i => [i]
  | .rebase i j => [i, j]
  | .intra i => [i]
  | .root i => [i]
  | .eqFlushed i j => [i, j]

/-- the handle an operation is addressed to *in place* (the only existing handle it may change);
`rebase i j` is addressed to `i`, its base `j` is only read. Operations that create a handle, `root`
and `eqFlushed` are addressed to no existing handle. -/
def WOp.writes : WOp T → Option Nat
  | .on i _ => some i
  | .pop i _ => some i
  | .rebase i _ => some i
  | .intra i => some i
  | _ => none

def WOp.isRoot : WOp T → Bool
  | .root _ => true
  | _ => false

/-- the history without its root computations. -/
def stripRoots (ops : List (WOp T)) : List (WOp T) := ops.filter (fun o => !o.isRoot)

/-- the outputs at the positions of the operations that are not root computations. -/
def nonRootOuts {α : Type} : List (WOp T) → List α → List α
  | o :: ops, x :: xs => if o.isRoot then nonRootOuts ops xs else x :: nonRootOuts ops xs
  | _, _ => []

section SpecFacts
variable [DecidableEq T] {E : Elem T H} {A : HashAlg H} {mixIn : H → Nat → H} {N : Nat}

/-- a root computation does not change the plain sequences. -/
theorem wsstep_root_state (s : SWorld T) (i : Nat) : (wsstep E A mixIn N s (.root i)).2 = s := by
  simp only [wsstep]
  repeat' split
  all_goals rfl

/-- `rebase_on` does not change the plain sequences. -/
theorem wsstep_rebase_state (s : SWorld T) (i j : Nat) :
    (wsstep E A mixIn N s (.rebase i j)).2 = s := by
  simp only [wsstep]
  repeat' split
  all_goals rfl

/-- `rebase_on` never fails on the plain sequences. -/
theorem wsstep_rebase_out (s : SWorld T) (i j : Nat) :
    (wsstep E A mixIn N s (.rebase i j)).1 = .out .ok ∨
      (wsstep E A mixIn N s (.rebase i j)).1 = .out .unsupported := by
  simp only [wsstep]
  repeat' split
  all_goals first | exact Or.inl rfl | exact Or.inr rfl

/-- on the plain sequences `intra_rebase` IS the flush. -/
theorem wsstep_intra_eq_flush (s : SWorld T) (i : Nat) :
    wsstep E A mixIn N s (.intra i) = wsstep E A mixIn N s (.on i .apply) := by
  simp only [wsstep, sstep]

/-- an operation changes no existing entry but the one it is addressed to. -/
theorem wsstep_frame (s : SWorld T) (o : WOp T) (k : Nat) (hk : k < s.length)
    (hw : o.writes ≠ some k) : (wsstep E A mixIn N s o).2[k]? = s[k]? := by
  cases o with
  | newFromIter kd xs =>
    cases kd <;> simp only [wsstep] <;> (repeat' split) <;>
      first
      | rfl
      | exact List.getElem?_append_left hk
  | _ =>
    simp only [wsstep] <;> (repeat' split) <;>
      first
      | rfl
      | exact List.getElem?_append_left hk
      | (refine List.getElem?_set_ne ?_; intro h; apply hw; rw [h]; rfl)

/-- in-place operations create no handle. -/
theorem wsstep_length_of_writes (s : SWorld T) (o : WOp T) (i : Nat) (hw : o.writes = some i) :
    (wsstep E A mixIn N s o).2.length = s.length := by
  cases o with
  | newFromIter kd xs => cases hw
  | _ =>
    simp only [WOp.writes] at hw <;> simp only [wsstep] <;> (repeat' split) <;>
      first
      | rfl
      | exact List.length_set
      | cases hw

/-- the output of an operation only depends on the entries of the handles it mentions. -/
theorem wsstep_out_congr (s s' : SWorld T) (r : WOp T) (h : ∀ k ∈ r.handles, s[k]? = s'[k]?) :
    (wsstep E A mixIn N s r).1 = (wsstep E A mixIn N s' r).1 := by
  cases r with
  | on i op =>
    have := h i (by simp [WOp.handles])
    simp only [wsstep, this]; split <;> rfl
  | clone i =>
    have := h i (by simp [WOp.handles])
    simp only [wsstep, this]; split <;> rfl
  | newFromIter k xs =>
    cases k <;> simp only [wsstep] <;> (repeat' split) <;> rfl
  | newRepeat x n => simp only [wsstep]; split <;> rfl
  | fromElem x => rfl
  | pop i n =>
    have := h i (by simp [WOp.handles])
    simp only [wsstep, this]; (repeat' split) <;> rfl
  | toVector i =>
    have := h i (by simp [WOp.handles])
    simp only [wsstep, this]; (repeat' split) <;> rfl
  | toList i =>
    have := h i (by simp [WOp.handles])
    simp only [wsstep, this]; (repeat' split) <;> rfl
  | rebase i j =>
    have h1 := h i (by simp [WOp.handles])
    have h2 := h j (by simp [WOp.handles])
    simp only [wsstep, h1, h2]; (repeat' split) <;> rfl
  | intra i =>
    have := h i (by simp [WOp.handles])
    simp only [wsstep, this]; split <;> rfl
  | root i =>
    have := h i (by simp [WOp.handles])
    simp only [wsstep, this]; (repeat' split) <;> rfl
  | eqFlushed i j =>
    have h1 := h i (by simp [WOp.handles])
    have h2 := h j (by simp [WOp.handles])
    simp only [wsstep, h1, h2]; (repeat' split) <;> rfl

/-- removing the root computations from a history leaves all other outputs, and the final plain
sequences, unchanged. -/
theorem wsrun_stripRoots (ops : List (WOp T)) : ∀ s : SWorld T,
    nonRootOuts ops (wsrun E A mixIn N s ops).1 = (wsrun E A mixIn N s (stripRoots ops)).1 ∧
      (wsrun E A mixIn N s ops).2 = (wsrun E A mixIn N s (stripRoots ops)).2 := by
  induction ops with
  | nil => intro s; exact ⟨rfl, rfl⟩
  | cons o rest ih =>
    intro s
    cases hr : o.isRoot with
    | true =>
      have hst : stripRoots (o :: rest) = stripRoots rest := by
        simp [stripRoots, hr]
      have hstate : (wsstep E A mixIn N s o).2 = s := by
        cases o <;> simp [WOp.isRoot] at hr
        exact wsstep_root_state s _
      rw [hst]
      simp only [wsrun, nonRootOuts, hr, if_true, hstate]
      exact ih s
    | false =>
      have hst : stripRoots (o :: rest) = o :: stripRoots rest := by
        simp [stripRoots, hr]
      rw [hst]
      simp only [wsrun, nonRootOuts, hr, Bool.false_eq_true, if_false]
      obtain ⟨a, b⟩ := ih (wsstep E A mixIn N s o).2
      exact ⟨by rw [a], b⟩

/-- inserting anywhere in a history an operation that does not change the plain sequences changes
no other output and not the final plain sequences. -/
theorem wsrun_insert_invisible (o : WOp T) (ho : ∀ s, (wsstep E A mixIn N s o).2 = s)
    (pre post : List (WOp T)) (s : SWorld T) :
    (wsrun E A mixIn N s (pre ++ o :: post)).1.eraseIdx pre.length =
        (wsrun E A mixIn N s (pre ++ post)).1 ∧
      (wsrun E A mixIn N s (pre ++ o :: post)).2 = (wsrun E A mixIn N s (pre ++ post)).2 := by
  rw [wsrun_append, wsrun_append]
  simp only [wsrun, ho]
  refine ⟨?_, by trivial⟩
  rw [List.eraseIdx_append_of_length_le (by rw [length_wsrun]; exact Nat.le_refl _), length_wsrun,
    Nat.sub_self]
  rfl

/-- two families of plain sequences that agree on every handle except `i`. -/
def AgreeOff (i : Nat) (s s' : SWorld T) : Prop :=
  s.length = s'.length ∧ ∀ k : Nat, k ≠ i → s[k]? = s'[k]?

omit [DecidableEq T] in
theorem AgreeOff.set {i : Nat} {s s' : SWorld T} (h : AgreeOff i s s') (k : Nat)
    (e : CKind × List T × Bool) : AgreeOff i (s.set k e) (s'.set k e) := by
  refine ⟨by rw [List.length_set, List.length_set]; exact h.1, ?_⟩
  intro m hm
  rw [List.getElem?_set, List.getElem?_set, h.1, h.2 m hm]

omit [DecidableEq T] in
theorem AgreeOff.append {i : Nat} {s s' : SWorld T} (h : AgreeOff i s s')
    (e : CKind × List T × Bool) : AgreeOff i (s ++ [e]) (s' ++ [e]) := by
  refine ⟨by rw [List.length_append, List.length_append, h.1], ?_⟩
  intro m hm
  rcases Nat.lt_or_ge m s.length with hlt | hge
  · rw [List.getElem?_append_left hlt, List.getElem?_append_left (h.1 ▸ hlt)]; exact h.2 m hm
  · rw [List.getElem?_append_right hge, List.getElem?_append_right (h.1 ▸ hge), h.1]

/-- an operation that does not mention handle `i` cannot tell two families apart that agree off
`i`, and keeps them agreeing off `i`. -/
theorem wsstep_agreeOff (i : Nat) (s s' : SWorld T) (r : WOp T) (hA : AgreeOff i s s')
    (hr : i ∉ r.handles) :
    (wsstep E A mixIn N s r).1 = (wsstep E A mixIn N s' r).1 ∧
      AgreeOff i (wsstep E A mixIn N s r).2 (wsstep E A mixIn N s' r).2 := by
  refine ⟨wsstep_out_congr s s' r (fun k hk => hA.2 k (fun h => hr (h ▸ hk))), ?_⟩
  cases r with
  | newFromIter kd xs =>
    cases kd <;> simp only [wsstep] <;> (repeat' split) <;>
      first
      | exact hA
      | exact hA.append _
  | rebase j l =>
    have hj : j ≠ i := fun h => hr (by simp [WOp.handles, h])
    have hl : l ≠ i := fun h => hr (by simp [WOp.handles, h])
    simp only [wsstep, hA.2 j hj, hA.2 l hl]
    (repeat' split) <;> exact hA
  | eqFlushed j l =>
    have hj : j ≠ i := fun h => hr (by simp [WOp.handles, h])
    have hl : l ≠ i := fun h => hr (by simp [WOp.handles, h])
    simp only [wsstep, hA.2 j hj, hA.2 l hl]
    (repeat' split) <;> exact hA
  | newRepeat x n => simp only [wsstep]; split <;> first | exact hA | exact hA.append _
  | fromElem x => exact hA.append _
  | on j op =>
    have hj : j ≠ i := fun h => hr (by simp [WOp.handles, h])
    simp only [wsstep, hA.2 j hj]
    (repeat' split) <;> first | exact hA | exact hA.set _ _ | exact hA.append _
  | clone j =>
    have hj : j ≠ i := fun h => hr (by simp [WOp.handles, h])
    simp only [wsstep, hA.2 j hj]
    (repeat' split) <;> first | exact hA | exact hA.set _ _ | exact hA.append _
  | pop j n =>
    have hj : j ≠ i := fun h => hr (by simp [WOp.handles, h])
    simp only [wsstep, hA.2 j hj]
    (repeat' split) <;> first | exact hA | exact hA.set _ _ | exact hA.append _
  | toVector j =>
    have hj : j ≠ i := fun h => hr (by simp [WOp.handles, h])
    simp only [wsstep, hA.2 j hj]
    (repeat' split) <;> first | exact hA | exact hA.set _ _ | exact hA.append _
  | toList j =>
    have hj : j ≠ i := fun h => hr (by simp [WOp.handles, h])
    simp only [wsstep, hA.2 j hj]
    (repeat' split) <;> first | exact hA | exact hA.set _ _ | exact hA.append _
  | intra j =>
    have hj : j ≠ i := fun h => hr (by simp [WOp.handles, h])
    simp only [wsstep, hA.2 j hj]
    (repeat' split) <;> first | exact hA | exact hA.set _ _ | exact hA.append _
  | root j =>
    have hj : j ≠ i := fun h => hr (by simp [WOp.handles, h])
    simp only [wsstep, hA.2 j hj]
    (repeat' split) <;> first | exact hA | exact hA.set _ _ | exact hA.append _

/-- a continuation that never mentions handle `i` cannot tell two families apart that agree off
`i`. -/
theorem wsrun_agreeOff (i : Nat) (post : List (WOp T)) (hpost : ∀ r ∈ post, i ∉ r.handles) :
    ∀ s s' : SWorld T, AgreeOff i s s' →
      (wsrun E A mixIn N s post).1 = (wsrun E A mixIn N s' post).1 := by
  induction post with
  | nil => intro s s' _; rfl
  | cons r rest ih =>
    intro s s' hA
    obtain ⟨ho, hA'⟩ := wsstep_agreeOff (E := E) (A := A) (mixIn := mixIn) (N := N) i s s' r hA
      (hpost r (List.mem_cons_self))
    simp only [wsrun]
    rw [ho, ih (fun r' hr' => hpost r' (List.mem_cons_of_mem _ hr')) _ _ hA']

/-- an in-place operation on handle `i` leaves all other entries as they were. -/
theorem wsstep_agreeOff_of_writes (s : SWorld T) (o : WOp T) (i : Nat) (hw : o.writes = some i) :
    AgreeOff i (wsstep E A mixIn N s o).2 s := by
  have hl := wsstep_length_of_writes (E := E) (A := A) (mixIn := mixIn) (N := N) s o i hw
  refine ⟨hl, ?_⟩
  intro k hk
  rcases Nat.lt_or_ge k s.length with hlt | hge
  · exact wsstep_frame s o k hlt (by rw [hw]; intro h; cases h; exact hk rfl)
  · rw [List.getElem?_eq_none hge, List.getElem?_eq_none (by rw [hl]; exact hge)]

/-- removing an in-place operation on handle `i` from a history changes no output of a
continuation that never mentions `i`. -/
theorem wsrun_remove_write (o : WOp T) (i : Nat) (hw : o.writes = some i)
    (pre post : List (WOp T)) (hpost : ∀ r ∈ post, i ∉ r.handles) (s : SWorld T) :
    (wsrun E A mixIn N s (pre ++ o :: post)).1.eraseIdx pre.length =
      (wsrun E A mixIn N s (pre ++ post)).1 := by
  rw [wsrun_append, wsrun_append]
  simp only [wsrun]
  rw [List.eraseIdx_append_of_length_le (by rw [length_wsrun]; exact Nat.le_refl _), length_wsrun,
    Nat.sub_self]
  show _ ++ _ = _ ++ _
  rw [wsrun_agreeOff i post hpost _ _ (wsstep_agreeOff_of_writes _ o i hw)]
  rfl

end SpecFacts

/-! ## The corollaries: C03, C04, C07, C09, C02 for every finite history of the MODEL

Each is the refinement `wrun_refines` plus a fact about plain sequences from the section above. -/

section Corollaries
variable [DecidableEq T] [DecidableEq H] {E : Elem T H} {A : HashAlg H} {mixIn : H → Nat → H}
  {cfg : Cfg}

/-- immutability is structural: an operation does not touch the `Coll` value of any existing handle
but the one it is addressed to (no hypothesis needed). -/
theorem wstep_frame_model (w : MWorld T H) (o : WOp T) (k : Nat) (hk : k < w.colls.length)
    (hw : o.writes ≠ some k) : (wstep E A mixIn cfg w o).2.colls[k]? = w.colls[k]? := by
  cases o with
  | newFromIter kd xs =>
    cases kd <;> simp only [wstep] <;> (repeat' split) <;>
      first
      | rfl
      | exact List.getElem?_append_left hk
  | _ =>
    simp only [wstep] <;> (repeat' split) <;>
      first
      | rfl
      | exact List.getElem?_append_left hk
      | (refine List.getElem?_set_ne ?_; intro h; apply hw; rw [h]; rfl)

/-- **C03 (root computations are invisible).** For every finite history, the outputs of all
operations other than root computations are exactly the outputs of the history from which every root
computation has been removed. -/
theorem C03_roots_invisible (K : CfgOK E.pf cfg) (hcf : CollisionFree E A) (nz : NoZeroNode A)
    (R : RegFacts E A cfg) (ops : List (WOp T)) :
    nonRootOuts ops (wrun E A mixIn cfg MWorld.empty ops).1 =
      (wrun E A mixIn cfg MWorld.empty (stripRoots ops)).1 := by
  rw [(wrun_refines K hcf nz R ops).1, (wrun_refines K hcf nz R (stripRoots ops)).1]
  exact (wsrun_stripRoots ops []).1

/-- **C03**, two histories: if they differ only by inserted / removed root computations, all their
common (non-root) outputs are equal. -/
theorem C03_roots_invisible_two (K : CfgOK E.pf cfg) (hcf : CollisionFree E A) (nz : NoZeroNode A)
    (R : RegFacts E A cfg) (ops1 ops2 : List (WOp T)) (h : stripRoots ops1 = stripRoots ops2) :
    nonRootOuts ops1 (wrun E A mixIn cfg MWorld.empty ops1).1 =
      nonRootOuts ops2 (wrun E A mixIn cfg MWorld.empty ops2).1 := by
  rw [C03_roots_invisible K hcf nz R ops1, C03_roots_invisible K hcf nz R ops2, h]

/-- an operation that does not change the plain sequences can be inserted anywhere in a history
without changing any other output (later root computations included). -/
theorem insert_invisible (K : CfgOK E.pf cfg) (hcf : CollisionFree E A) (nz : NoZeroNode A)
    (R : RegFacts E A cfg) (o : WOp T) (ho : ∀ s, (wsstep E A mixIn cfg.N s o).2 = s)
    (pre post : List (WOp T)) :
    (wrun E A mixIn cfg MWorld.empty (pre ++ o :: post)).1.eraseIdx pre.length =
      (wrun E A mixIn cfg MWorld.empty (pre ++ post)).1 := by
  rw [(wrun_refines K hcf nz R (pre ++ o :: post)).1, (wrun_refines K hcf nz R (pre ++ post)).1]
  exact (wsrun_insert_invisible o ho pre post []).1

/-- **C03**, one root computation inserted anywhere: every other output — of reads, writes,
rejections, equality tests, later and earlier root computations — is unchanged. -/
theorem C03_root_insert_invisible (K : CfgOK E.pf cfg) (hcf : CollisionFree E A)
    (nz : NoZeroNode A) (R : RegFacts E A cfg) (pre post : List (WOp T)) (i : Nat) :
    (wrun E A mixIn cfg MWorld.empty (pre ++ .root i :: post)).1.eraseIdx pre.length =
      (wrun E A mixIn cfg MWorld.empty (pre ++ post)).1 :=
  insert_invisible K hcf nz R (.root i) (fun s => wsstep_root_state s i) pre post

/-- **C03 (no stale memo, ever).** After every finite history, every node of every handle's tree
has a memo that is absent or equal to its true Merkle hash. -/
theorem C03_memos_valid_always (K : CfgOK E.pf cfg) (hcf : CollisionFree E A) (nz : NoZeroNode A)
    (R : RegFacts E A cfg) (ops : List (WOp T)) :
    ∀ c ∈ (wrun E A mixIn cfg MWorld.empty ops).2.colls, ∀ s ∈ c.tree.subtrees,
      (wrun E A mixIn cfg MWorld.empty ops).2.heap.read A.zero s.id = A.zero ∨
      (wrun E A mixIn cfg MWorld.empty ops).2.heap.read A.zero s.id = trueHash E A s := by
  obtain ⟨f, hok, Hs⟩ := (wrun_refines (mixIn := mixIn) K hcf nz R ops).2
  intro c hc s hs
  obtain ⟨k, hk, hget⟩ := List.getElem_of_mem hc
  obtain ⟨se, _, hI⟩ := Hs.get_some (i := k) (c := c) (by rw [List.getElem?_eq_getElem hk, hget])
  exact hok.memo _ _ (hI.reg s hs)

/-- the world invariant after every history, spelled out: there is ONE registry for which the
shared memo store is valid and in which every handle's tree is registered. -/
theorem C03_heapOK_always (K : CfgOK E.pf cfg) (hcf : CollisionFree E A) (nz : NoZeroNode A)
    (R : RegFacts E A cfg) (ops : List (WOp T)) :
    ∃ f, HeapOK E A f (wrun E A mixIn cfg MWorld.empty ops).2.heap ∧
      ∀ c ∈ (wrun E A mixIn cfg MWorld.empty ops).2.colls, Registered f c.tree := by
  obtain ⟨f, hok, Hs⟩ := (wrun_refines (mixIn := mixIn) K hcf nz R ops).2
  refine ⟨f, hok, ?_⟩
  intro c hc
  obtain ⟨k, hk, hget⟩ := List.getElem_of_mem hc
  obtain ⟨se, _, hI⟩ := Hs.get_some (i := k) (c := c) (by rw [List.getElem?_eq_getElem hk, hget])
  exact hI.reg

/-- **C04 (versions are isolated), one observation.** After any history `ops`, let `o` be any
operation, and `r` any operation (a read, a write, a root computation, an equality test, a
conversion …) all of whose handles exist already and none of which is the handle `o` is addressed
to (for `rebase i j` that is `i`; the base `j` may be observed). Then `r` answers after
`ops ++ [o]` exactly what it answers after `ops`. -/
theorem C04_isolation (K : CfgOK E.pf cfg) (hcf : CollisionFree E A) (nz : NoZeroNode A)
    (R : RegFacts E A cfg) (ops : List (WOp T)) (o r : WOp T)
    (hr : ∀ k ∈ r.handles, k < (wrun E A mixIn cfg MWorld.empty ops).2.colls.length ∧
      o.writes ≠ some k) :
    (wstep E A mixIn cfg (wrun E A mixIn cfg MWorld.empty (ops ++ [o])).2 r).1 =
      (wstep E A mixIn cfg (wrun E A mixIn cfg MWorld.empty ops).2 r).1 := by
  rw [wrun_then_step K hcf nz R (ops ++ [o]) r, wrun_then_step K hcf nz R ops r]
  apply wsstep_out_congr
  intro k hk
  obtain ⟨hlt, hw⟩ := hr k hk
  rw [wsrun_append]
  simp only [wsrun]
  apply wsstep_frame _ _ _ _ hw
  obtain ⟨f, _, Hs⟩ := (wrun_refines (mixIn := mixIn) K hcf nz R ops).2
  rw [← Hs.1]; exact hlt

/-- **C04**, the plain contents: an operation leaves kind, contents and pending flag of every other
existing handle unchanged; on the model, the other handle is even the very same `Coll` value. -/
theorem C04_isolation_entry (K : CfgOK E.pf cfg) (hcf : CollisionFree E A) (nz : NoZeroNode A)
    (R : RegFacts E A cfg) (ops : List (WOp T)) (o : WOp T) (k : Nat)
    (hk : k < (wrun E A mixIn cfg MWorld.empty ops).2.colls.length) (hw : o.writes ≠ some k) :
    (wrun E A mixIn cfg MWorld.empty (ops ++ [o])).2.colls[k]? =
        (wrun E A mixIn cfg MWorld.empty ops).2.colls[k]? ∧
      (wsrun E A mixIn cfg.N [] (ops ++ [o])).2[k]? = (wsrun E A mixIn cfg.N [] ops).2[k]? := by
  constructor
  · rw [wrun_append]
    simp only [wrun]
    exact wstep_frame_model _ o k hk hw
  · rw [wsrun_append]
    simp only [wsrun]
    apply wsstep_frame _ _ _ _ hw
    obtain ⟨f, _, Hs⟩ := (wrun_refines (mixIn := mixIn) K hcf nz R ops).2
    rw [← Hs.1]; exact hk

/-- **C04 with continuations.** Removing from a history an in-place operation `o` on handle `i`
(a write, push, flush, `pop_front`, `intra_rebase`, or `rebase_on` of `i`) changes no output of any
continuation that does not mention `i` — whatever it does with the other handles, including
operations that take them as rebase bases, clone or convert them, hash them, or create new
handles. -/
theorem C04_isolation_continuation (K : CfgOK E.pf cfg) (hcf : CollisionFree E A)
    (nz : NoZeroNode A) (R : RegFacts E A cfg) (pre post : List (WOp T)) (o : WOp T) (i : Nat)
    (hw : o.writes = some i) (hpost : ∀ r ∈ post, i ∉ r.handles) :
    (wrun E A mixIn cfg MWorld.empty (pre ++ o :: post)).1.eraseIdx pre.length =
      (wrun E A mixIn cfg MWorld.empty (pre ++ post)).1 := by
  rw [(wrun_refines K hcf nz R (pre ++ o :: post)).1, (wrun_refines K hcf nz R (pre ++ post)).1]
  exact wsrun_remove_write o i hw pre post hpost []

/-- **C07 (rebase preserves meaning), with continuations.** Inserting `rebase i j` anywhere in a
history changes no other output, for any continuation (which may write to, flush, hash, compare,
convert, pop, rebase again … the rebased handle and its base); and the rebase itself never fails. -/
theorem C07_history (K : CfgOK E.pf cfg) (hcf : CollisionFree E A) (nz : NoZeroNode A)
    (R : RegFacts E A cfg) (pre post : List (WOp T)) (i j : Nat) :
    (wrun E A mixIn cfg MWorld.empty (pre ++ .rebase i j :: post)).1.eraseIdx pre.length =
        (wrun E A mixIn cfg MWorld.empty (pre ++ post)).1 ∧
      ((wstep E A mixIn cfg (wrun E A mixIn cfg MWorld.empty pre).2 (.rebase i j)).1 = .out .ok ∨
       (wstep E A mixIn cfg (wrun E A mixIn cfg MWorld.empty pre).2 (.rebase i j)).1 =
          .out .unsupported) := by
  refine ⟨insert_invisible K hcf nz R (.rebase i j) (fun s => wsstep_rebase_state s i j) pre post, ?_⟩
  rw [wrun_then_step K hcf nz R pre (.rebase i j)]
  exact wsstep_rebase_out _ i j

/-- **C09 (intra-rebase), with continuations.** In every history, replacing `intra i` by the plain
flush `on i .apply` changes no output at all (that of the operation itself included); and
`intra i` on an existing handle answers `ok`. -/
theorem C09_history (K : CfgOK E.pf cfg) (hcf : CollisionFree E A) (nz : NoZeroNode A)
    (R : RegFacts E A cfg) (pre post : List (WOp T)) (i : Nat) :
    (wrun E A mixIn cfg MWorld.empty (pre ++ .intra i :: post)).1 =
        (wrun E A mixIn cfg MWorld.empty (pre ++ .on i .apply :: post)).1 ∧
      (i < (wrun E A mixIn cfg MWorld.empty pre).2.colls.length →
        (wstep E A mixIn cfg (wrun E A mixIn cfg MWorld.empty pre).2 (.intra i)).1 = .out .ok) := by
  constructor
  · rw [(wrun_refines K hcf nz R (pre ++ .intra i :: post)).1,
      (wrun_refines K hcf nz R (pre ++ .on i .apply :: post)).1, wsrun_append, wsrun_append]
    simp only [wsrun, wsstep_intra_eq_flush]
  · intro hi
    rw [wrun_then_step K hcf nz R pre (.intra i)]
    obtain ⟨f, _, Hs⟩ := (wrun_refines (mixIn := mixIn) K hcf nz R pre).2
    have hi' : i < (wsrun E A mixIn cfg.N [] pre).2.length := Hs.1 ▸ hi
    simp only [wsstep, List.getElem?_eq_getElem hi']

/-- the SSZ `hash_tree_root` of `List[T, N]` / `Vector[T, N]` holding `xs` (`Spec/Merkle.lean`). -/
def specRoot (E : Elem T H) (A : HashAlg H) (mixIn : H → Nat → H) (N : Nat) : CKind → List T → H
  | .list, xs => Spec.listRoot E A mixIn N xs
  | .vector, xs => Spec.vectorRoot E A N xs

/-- **C02 (roots after any history).** After any finite history, `tree_hash_root` of a handle that
shows `xs` with no write pending returns the SSZ `hash_tree_root` of `List[T, N]` / `Vector[T, N]`
holding `xs` — whatever the history was (pushes, pops, rebases, intra-rebases, conversions,
earlier root computations on this or other handles sharing nodes with it …). -/
theorem C02_history (K : CfgOK E.pf cfg) (hcf : CollisionFree E A) (nz : NoZeroNode A)
    (R : RegFacts E A cfg) (ops : List (WOp T)) (i : Nat) (k : CKind) (xs : List T)
    (h : (wsrun E A mixIn cfg.N [] ops).2[i]? = some (k, xs, false)) :
    (wstep E A mixIn cfg (wrun E A mixIn cfg MWorld.empty ops).2 (.root i)).1 =
      .hash (specRoot E A mixIn cfg.N k xs) := by
  rw [wrun_then_step K hcf nz R ops (.root i)]
  simp only [wsstep, h, Bool.false_eq_true, if_false]
  cases k <;> rfl

/-- **C02**, stated on the model only: if after a history handle `i` is the collection `c`, has no
write pending and `to_vec()` gives `xs`, its root is the SSZ root of `xs`. -/
theorem C02_history_model (K : CfgOK E.pf cfg) (hcf : CollisionFree E A) (nz : NoZeroNode A)
    (R : RegFacts E A cfg) (ops : List (WOp T)) (i : Nat) (c : Coll T) (xs : List T)
    (hc : (wrun E A mixIn cfg MWorld.empty ops).2.colls[i]? = some c)
    (hp : c.hasPending = false) (hx : c.toVec E.pf = .ok xs) :
    (wstep E A mixIn cfg (wrun E A mixIn cfg MWorld.empty ops).2 (.root i)).1 =
      .hash (specRoot E A mixIn cfg.N c.kind xs) := by
  obtain ⟨f, _, Hs⟩ := (wrun_refines (mixIn := mixIn) K hcf nz R ops).2
  obtain ⟨s, hs, hI⟩ := Hs.get_some hc
  obtain ⟨ys, I, hv⟩ := hI.inv
  have hx' := C01_toVec K I
  rw [hx] at hx'
  have hxs : xs = s.2.1 := by injection hx' with hx'; rw [hx', hv]
  have hs' : (wsrun E A mixIn cfg.N [] ops).2[i]? = some (c.kind, xs, false) := by
    rw [hs, hI.kind, hxs, ← hp, hI.pending]
  exact C02_history K hcf nz R ops i c.kind xs hs'

/-- **C02**: the root depends only on the kind and the contents, not on the history: two handles
reached by two arbitrary histories that have the same kind and contents (and no write pending) have
the same root. -/
theorem C02_root_depends_only_on_contents (K : CfgOK E.pf cfg) (hcf : CollisionFree E A)
    (nz : NoZeroNode A) (R : RegFacts E A cfg) (ops1 ops2 : List (WOp T)) (i1 i2 : Nat)
    (c1 c2 : Coll T) (xs : List T)
    (h1 : (wrun E A mixIn cfg MWorld.empty ops1).2.colls[i1]? = some c1)
    (h2 : (wrun E A mixIn cfg MWorld.empty ops2).2.colls[i2]? = some c2)
    (hk : c1.kind = c2.kind) (hp1 : c1.hasPending = false) (hp2 : c2.hasPending = false)
    (hx1 : c1.toVec E.pf = .ok xs) (hx2 : c2.toVec E.pf = .ok xs) :
    (wstep E A mixIn cfg (wrun E A mixIn cfg MWorld.empty ops1).2 (.root i1)).1 =
      (wstep E A mixIn cfg (wrun E A mixIn cfg MWorld.empty ops2).2 (.root i2)).1 := by
  rw [C02_history_model K hcf nz R ops1 i1 c1 xs h1 hp1 hx1,
    C02_history_model K hcf nz R ops2 i2 c2 xs h2 hp2 hx2, hk]

end Corollaries

/-! ## Non-vacuity: a concrete multi-handle history, run on the model and on the specification

Hashes are terms of the free algebra `HT` of `Proofs/Rebase.lean` (collision free, no node hashes
to zero); `List<_, 8>` / `Vector<_, 8>` with two elements per packed leaf. -/

namespace WorldExample

def exCfg (k : MapKind) : Cfg := ⟨8, k⟩

theorem exK (k : MapKind) : CfgOK (HT.elem (some 2)).pf (exCfg k) :=
  ⟨RebaseExample.pfOK_two, (by show 1 ≤ 8; decide), (by show 8 ≤ 2 ^ 63; decide)⟩

theorem exNZ : NoZeroNode HT.alg := by intro a b h; cases h

/-- `mix_in_length` in the free algebra. -/
def exMix : HT → Nat → HT := fun r n => HT.nd r (HT.leafv n)

/-- 30 operations over six handles: construction, `clone`, a write and a push on the clone, a read
through the original (unaffected), a root computation refused because writes are pending, a flush,
roots of both handles, `rebase_on`, `intra_rebase`, `pop_front`, reads, the derived equality,
`repeat`, both conversions, `from_elem`, a rebase that makes two vectors share their tree, kind
mismatches and out-of-range handles, rejected calls. -/
def exOps : List (WOp Nat) :=
  [.newFromIter .list [1, 2, 3, 4, 5], .clone 0, .on 1 (.getMut 1 20), .on 1 (.push 6),
   .on 0 (.get 1), .root 1, .on 1 .apply, .root 0, .root 1, .rebase 1 0, .on 1 .toVec, .intra 1,
   .pop 1 2, .on 1 .toVec, .on 0 .toVec, .root 1, .eqFlushed 0 1, .newRepeat 7 8, .toVector 2,
   .toList 3, .fromElem 7, .eqFlushed 3 5, .rebase 5 3, .rebase 0 3, .on 9 .len, .pop 3 1, .pop 1 9,
   .newFromIter .vector [1, 2], .on 4 (.push 1), .root 4]

def exR1 : HT := .nd (.nd (.nd (.pk [1, 2]) (.pk [3, 4])) (.nd (.pk [5, 0]) .z)) (.leafv 5)
def exR2 : HT := .nd (.nd (.nd (.pk [1, 20]) (.pk [3, 4])) (.nd (.pk [5, 6]) .z)) (.leafv 6)
def exR3 : HT := .nd (.nd (.nd (.pk [3, 4]) (.pk [5, 6])) (.nd .z .z)) (.leafv 4)
def exR4 : HT :=
  .nd (.nd (.nd (.pk [7, 7]) (.pk [7, 7])) (.nd (.pk [7, 7]) (.pk [7, 7]))) (.leafv 8)

def exOuts : List (WOut Nat HT) :=
  [.out .ok, .out .ok, .out (.some 2), .out .ok, .out (.some 2), .out (.error .panic), .out .ok,
   .hash exR1, .hash exR2, .out .ok, .out (.vals [1, 20, 3, 4, 5, 6]), .out .ok, .out .ok,
   .out (.vals [3, 4, 5, 6]), .out (.vals [1, 2, 3, 4, 5]), .hash exR3, .out (.bool false), .out .ok,
   .out .ok, .out .ok, .out .ok, .out (.bool true), .out .ok, .out .unsupported, .out .unsupported,
   .out .unsupported, .out (.error (.outOfBoundsIterFrom 9 4)),
   .out (.error (.wrongVectorLength 2 8)), .out (.error (.listFull 8)), .hash exR4]

def exFinal : SWorld Nat :=
  [(.list, [1, 2, 3, 4, 5], false), (.list, [3, 4, 5, 6], false),
   (.list, [7, 7, 7, 7, 7, 7, 7, 7], false), (.vector, [7, 7, 7, 7, 7, 7, 7, 7], false),
   (.list, [7, 7, 7, 7, 7, 7, 7, 7], false), (.vector, [7, 7, 7, 7, 7, 7, 7, 7], false)]

-- the specification, by evaluation
theorem exSpec : wsrun (HT.elem (some 2)) HT.alg exMix 8 [] exOps = (exOuts, exFinal) := by decide

-- the model itself (trees, node identities, memos, pending maps), by evaluation, every map kind
example (k : MapKind) :
    (wrun (HT.elem (some 2)) HT.alg exMix (exCfg k) MWorld.empty exOps).1 = exOuts := by
  cases k <;> decide

-- the same through the theorem: only the specification is evaluated
example (k : MapKind) (R : RegFacts (HT.elem (some 2)) HT.alg (exCfg k)) :
    (wrun (HT.elem (some 2)) HT.alg exMix (exCfg k) MWorld.empty exOps).1 = exOuts ∧
      WInv (HT.elem (some 2)) HT.alg (exCfg k)
        (wrun (HT.elem (some 2)) HT.alg exMix (exCfg k) MWorld.empty exOps).2 exFinal := by
  have h := wrun_refines (mixIn := exMix) (exK k) (HT.collisionFree _) exNZ R exOps
  rw [show (exCfg k).N = 8 from rfl, exSpec] at h
  exact h

/-! ### a non-trivial world satisfying `WInv`, built by hand (no `RegFacts` needed)

two handles sharing one seven-node tree; the second has a pending write. -/

def exT : Tree Nat :=
  .node 6 (.node 2 (.packed 0 [1, 2]) (.packed 1 [3, 4])) (.node 5 (.packed 3 [5]) (.zero 4 0))

def exW1 : MWorld Nat HT :=
  ⟨⟨#[.z, .z, .z, .z, .z, .z, .z]⟩,
    [⟨.list, exT, 5, 2, .btree []⟩, ⟨.list, exT, 5, 2, .btree [(1, 20)]⟩]⟩

-- it is the world reached by construction, `clone`, and a write on the clone
example : (wrun (HT.elem (some 2)) HT.alg exMix (exCfg .btree) MWorld.empty
    [.newFromIter .list [1, 2, 3, 4, 5], .clone 0, .on 1 (.getMut 1 20)]).2 = exW1 := rfl

theorem exT_canon : exT.erase = canon (some 2) 2 [1, 2, 3, 4, 5] := by decide

theorem exC0_inv : CollInv (some 2) (exCfg .btree) ⟨.list, exT, 5, 2, .btree []⟩ [1, 2, 3, 4, 5] :=
  CollInv.of_flushed (by
    show exT.erase = canon (some 2) (listDepth (some 2) 8) [1, 2, 3, 4, 5]
    rw [show listDepth (some 2) 8 = 2 by decide]; exact exT_canon) rfl
    (by show 2 = listDepth (some 2) 8; decide) (by show 5 ≤ 8; decide) rfl

theorem exC1_inv :
    CollInv (some 2) (exCfg .btree) ⟨.list, exT, 5, 2, .btree [(1, 20)]⟩ [1, 2, 3, 4, 5] :=
  (exC0_inv.insertEntry 1 20 (by decide)).1

/-- the hypothesis `WInv` of `wstep_refines` / `wrun_refines_from` on a world with two handles
sharing a tree, one of them with a pending write. -/
theorem exW1_inv : WInv (HT.elem (some 2)) HT.alg (exCfg .btree) exW1
    [(.list, [1, 2, 3, 4, 5], false), (.list, [1, 20, 3, 4, 5], true)] := by
  refine ⟨IntraEx.regOf exT, IntraEx.heapCheck_sound _ _ _ _ (by decide), rfl, ?_⟩
  intro k c s hc hs
  match k with
  | 0 =>
    cases hc; cases hs
    exact ⟨rfl, rfl, IntraEx.regCheck_sound _ (by decide), UMap.normal_empty .btree, _, exC0_inv,
      by decide⟩
  | 1 =>
    cases hc; cases hs
    exact ⟨rfl, rfl, IntraEx.regCheck_sound _ (by decide), (fun h => absurd h (by decide)), _,
      exC1_inv, by decide⟩
  | k + 2 => simp [exW1] at hc

-- `wstep_refines` on that world: the model's output is the specification's output
example (R : RegFacts (HT.elem (some 2)) HT.alg (exCfg .btree)) (op : WOp Nat) :
    (wstep (HT.elem (some 2)) HT.alg exMix (exCfg .btree) exW1 op).1 =
      (wsstep (HT.elem (some 2)) HT.alg exMix 8
        [(.list, [1, 2, 3, 4, 5], false), (.list, [1, 20, 3, 4, 5], true)] op).1 :=
  (wstep_refines (exK .btree) (HT.collisionFree _) exNZ R exW1_inv op).1

-- the operations that need no registry fact, without any hypothesis: `root`, `clone`, `rebase`,
-- `toList`, `eqFlushed`
example : WRef (HT.elem (some 2)) HT.alg exMix (exCfg .btree) exW1
    [(.list, [1, 2, 3, 4, 5], false), (.list, [1, 20, 3, 4, 5], true)] (.root 0) :=
  wref_root (exK .btree) exW1_inv 0

example : WRef (HT.elem (some 2)) HT.alg exMix (exCfg .btree) exW1
    [(.list, [1, 2, 3, 4, 5], false), (.list, [1, 20, 3, 4, 5], true)] (.rebase 1 0) :=
  wref_rebase (exK .btree) (HT.collisionFree _) exW1_inv 1 0

example : (wstep (HT.elem (some 2)) HT.alg exMix (exCfg .btree) exW1 (.root 0)).1 = .hash exR1 ∧
    (wstep (HT.elem (some 2)) HT.alg exMix (exCfg .btree) exW1 (.root 1)).1 = .out (.error .panic) ∧
    (wstep (HT.elem (some 2)) HT.alg exMix (exCfg .btree) exW1 (.rebase 1 0)).1 = .out .ok := by
  decide

/-! ### the corollaries on the example history -/

-- C03: the 5 root computations of `exOps` removed, the other 25 outputs are the same
example : stripRoots exOps =
    [.newFromIter .list [1, 2, 3, 4, 5], .clone 0, .on 1 (.getMut 1 20), .on 1 (.push 6),
     .on 0 (.get 1), .on 1 .apply, .rebase 1 0, .on 1 .toVec, .intra 1,
     .pop 1 2, .on 1 .toVec, .on 0 .toVec, .eqFlushed 0 1, .newRepeat 7 8, .toVector 2,
     .toList 3, .fromElem 7, .eqFlushed 3 5, .rebase 5 3, .rebase 0 3, .on 9 .len, .pop 3 1,
     .pop 1 9, .newFromIter .vector [1, 2], .on 4 (.push 1)] := rfl

-- by evaluation of the model on the history without root computations
example : (wrun (HT.elem (some 2)) HT.alg exMix (exCfg .btree) MWorld.empty (stripRoots exOps)).1 =
    nonRootOuts exOps exOuts := by
  decide

example (R : RegFacts (HT.elem (some 2)) HT.alg (exCfg .btree)) : nonRootOuts exOps
      (wrun (HT.elem (some 2)) HT.alg exMix (exCfg .btree) MWorld.empty exOps).1 =
    (wrun (HT.elem (some 2)) HT.alg exMix (exCfg .btree) MWorld.empty (stripRoots exOps)).1 :=
  C03_roots_invisible (exK .btree) (HT.collisionFree _) exNZ R exOps

-- C04: after the first two operations (a list and its clone), a write / push / flush / pop /
-- intra-rebase / rebase on the clone (handle 1) is not seen through the original (handle 0)
example (R : RegFacts (HT.elem (some 2)) HT.alg (exCfg .btree)) (o : WOp Nat)
    (ho : o.writes = some 1) (hop : HOp Nat) :
    (wstep (HT.elem (some 2)) HT.alg exMix (exCfg .btree)
      (wrun (HT.elem (some 2)) HT.alg exMix (exCfg .btree) MWorld.empty
        (exOps.take 2 ++ [o])).2 (.on 0 hop)).1 =
    (wstep (HT.elem (some 2)) HT.alg exMix (exCfg .btree)
      (wrun (HT.elem (some 2)) HT.alg exMix (exCfg .btree) MWorld.empty
        (exOps.take 2)).2 (.on 0 hop)).1 :=
  C04_isolation (exK .btree) (HT.collisionFree _) exNZ R (exOps.take 2) o (.on 0 hop) (by
    intro k hk
    simp only [WOp.handles, List.mem_singleton] at hk
    subst hk
    exact ⟨by decide, by rw [ho]; intro h; cases h⟩)

-- … checked by evaluation for the write of `exOps`
example :
    (wstep (HT.elem (some 2)) HT.alg exMix (exCfg .btree)
      (wrun (HT.elem (some 2)) HT.alg exMix (exCfg .btree) MWorld.empty
        (exOps.take 2 ++ [.on 1 (.getMut 1 20)])).2 (.on 0 .toVec)).1 =
    (wstep (HT.elem (some 2)) HT.alg exMix (exCfg .btree)
      (wrun (HT.elem (some 2)) HT.alg exMix (exCfg .btree) MWorld.empty
        (exOps.take 2)).2 (.on 0 .toVec)).1 := by decide

-- C04 with a continuation: everything after the in-place operations on handle 1 that does not
-- mention handle 1
example (R : RegFacts (HT.elem (some 2)) HT.alg (exCfg .btree)) :
    (wrun (HT.elem (some 2)) HT.alg exMix (exCfg .btree) MWorld.empty
      (exOps.take 2 ++ .on 1 (.getMut 1 20) :: [.on 0 .toVec, .root 0, .clone 0, .rebase 2 0,
        .on 2 (.push 9), .on 0 .len])).1.eraseIdx 2 =
    (wrun (HT.elem (some 2)) HT.alg exMix (exCfg .btree) MWorld.empty
      (exOps.take 2 ++ [.on 0 .toVec, .root 0, .clone 0, .rebase 2 0,
        .on 2 (.push 9), .on 0 .len])).1 :=
  C04_isolation_continuation (exK .btree) (HT.collisionFree _) exNZ R (exOps.take 2) _
    (.on 1 (.getMut 1 20)) 1 rfl (by decide)

-- C07 / C09 on the example (the rebase at position 9, the intra-rebase at position 11)
example (R : RegFacts (HT.elem (some 2)) HT.alg (exCfg .btree)) :
    (wrun (HT.elem (some 2)) HT.alg exMix (exCfg .btree) MWorld.empty
      (exOps.take 9 ++ .rebase 1 0 :: exOps.drop 10)).1.eraseIdx 9 =
    (wrun (HT.elem (some 2)) HT.alg exMix (exCfg .btree) MWorld.empty
      (exOps.take 9 ++ exOps.drop 10)).1 :=
  (C07_history (exK .btree) (HT.collisionFree _) exNZ R (exOps.take 9) (exOps.drop 10) 1 0).1

example (R : RegFacts (HT.elem (some 2)) HT.alg (exCfg .btree)) :
    (wrun (HT.elem (some 2)) HT.alg exMix (exCfg .btree) MWorld.empty
      (exOps.take 11 ++ .intra 1 :: exOps.drop 12)).1 =
    (wrun (HT.elem (some 2)) HT.alg exMix (exCfg .btree) MWorld.empty
      (exOps.take 11 ++ .on 1 .apply :: exOps.drop 12)).1 :=
  (C09_history (exK .btree) (HT.collisionFree _) exNZ R (exOps.take 11) (exOps.drop 12) 1).1

-- … both checked by evaluation of the model: without the rebase the other 29 outputs are the same,
-- and with the flush instead of the intra-rebase all 30 outputs are the same
example :
    (wrun (HT.elem (some 2)) HT.alg exMix (exCfg .btree) MWorld.empty
      (exOps.take 9 ++ exOps.drop 10)).1 = exOuts.eraseIdx 9 := by decide

example :
    (wrun (HT.elem (some 2)) HT.alg exMix (exCfg .btree) MWorld.empty
      (exOps.take 11 ++ .on 1 .apply :: exOps.drop 12)).1 = exOuts := by decide

-- C02: the hypothesis of `C02_history` after the whole example history, handle 1
example (R : RegFacts (HT.elem (some 2)) HT.alg (exCfg .btree)) :
    (wstep (HT.elem (some 2)) HT.alg exMix (exCfg .btree)
      (wrun (HT.elem (some 2)) HT.alg exMix (exCfg .btree) MWorld.empty exOps).2 (.root 1)).1 =
      .hash (specRoot (HT.elem (some 2)) HT.alg exMix 8 .list [3, 4, 5, 6]) :=
  C02_history (exK .btree) (HT.collisionFree _) exNZ R exOps 1 .list [3, 4, 5, 6] (by
    show (wsrun (HT.elem (some 2)) HT.alg exMix 8 [] exOps).2[1]? = _
    rw [exSpec]; rfl)

example : specRoot (HT.elem (some 2)) HT.alg exMix 8 .list [3, 4, 5, 6] = exR3 := by decide

-- the two statements of collision freedom are interchangeable
example : CollisionFree' (HT.elem (some 2)) HT.alg := (HT.collisionFree _).toPrime

end WorldExample

end Milhouse
