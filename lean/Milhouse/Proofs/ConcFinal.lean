import Milhouse.Proofs.Conc
/-!
# C16 — the memo store after concurrent hashing does not depend on the schedule

`Proofs/Conc.lean` shows that every finished task holds the true hash and that memos only go from
absent to true. This file shows what the *final memo store* is, for every complete schedule:

* `Visits A h0 t id`: `id` is the identity of a subtree of `t` that hashing reaches when started in
  heap `h0`: the root is reached; the children of a reached `node` are reached iff the node's memo
  is absent in `h0`.  `MVisits` is the same set without `Zero` nodes (they carry no memo).
* `C16_final_memos_deterministic`: after any complete schedule (hashing steps and admissible
  foreign allocations), the memo of a registered id is the true hash if it was memoised in `h0` or
  is visited (and its node carries a memo), and is unchanged otherwise.
* `C16_final_heap_schedule_independent` (+ `_pure`: the heaps are equal as values).
* `C16_final_memos_eq_sequential` (+ `_pure`): the final memo store is the one obtained by running
  the sequential `treeHash` over the trees one after the other.

Invariant (`FInv`): `Cov` — every task that has returned from a subtree has left all visited nodes
of that subtree memoised (`Need`), a task about to write has done so below the node it writes;
`G` — every registered node whose memo is present has all its visited nodes memoised (so a task
that hits a memo written by somebody else may return at once); `upd` — only visited ids changed.
-/
namespace Milhouse

/-- does the node carry a memo (`Leaf`, `PackedLeaf`, `Node` do; `Zero` does not). -/
def Tree.hasMemo {T : Type} : Tree T → Bool
  | .zero _ _ => false
  | _ => true

namespace Conc
variable {T H : Type}

/-! ## 1. The visit set -/

/-- `id` names a subtree of `t` reachable from the root of `t` along a path all of whose proper
ancestors have an absent memo in `h0`. -/
def Visits (A : HashAlg H) (h0 : Heap H) : Tree T → Nat → Prop
  | .node i l r, id =>
      id = i ∨ (h0.read A.zero i = A.zero ∧ (Visits A h0 l id ∨ Visits A h0 r id))
  | .leaf i _, id => id = i
  | .packed i _, id => id = i
  | .zero i _, id => id = i

/-- the visited ids whose node carries a memo (everything but `Zero`). -/
def MVisits (A : HashAlg H) (h0 : Heap H) : Tree T → Nat → Prop
  | .node i l r, id =>
      id = i ∨ (h0.read A.zero i = A.zero ∧ (MVisits A h0 l id ∨ MVisits A h0 r id))
  | .leaf i _, id => id = i
  | .packed i _, id => id = i
  | .zero _ _, _ => False

/-- visited memo-carrying ids strictly below the root. -/
def BVisits (A : HashAlg H) (h0 : Heap H) : Tree T → Nat → Prop
  | .node i l r, id => h0.read A.zero i = A.zero ∧ (MVisits A h0 l id ∨ MVisits A h0 r id)
  | _, _ => False

/-- the visited subtrees as a list (executable form of `Visits`). -/
def visitList [DecidableEq H] (A : HashAlg H) (h0 : Heap H) : Tree T → List (Tree T)
  | .node i l r =>
      .node i l r ::
        (if h0.read A.zero i = A.zero then visitList A h0 l ++ visitList A h0 r else [])
  | t => [t]

theorem visits_iff_visitList [DecidableEq H] (A : HashAlg H) (h0 : Heap H) (t : Tree T)
    (id : Nat) : Visits A h0 t id ↔ ∃ s ∈ visitList A h0 t, id = s.id := by
  induction t with
  | leaf i v => simp [Visits, visitList, Tree.id]
  | packed i vs => simp [Visits, visitList, Tree.id]
  | zero i d => simp [Visits, visitList, Tree.id]
  | node i l r ihl ihr =>
    simp only [Visits, visitList, ihl, ihr]
    by_cases hz : h0.read A.zero i = A.zero
    · simp [hz, Tree.id, or_and_right, exists_or]
    · simp [hz, Tree.id]

theorem mvisits_iff_visitList [DecidableEq H] (A : HashAlg H) (h0 : Heap H) (t : Tree T)
    (id : Nat) :
    MVisits A h0 t id ↔ ∃ s ∈ visitList A h0 t, id = s.id ∧ s.hasMemo = true := by
  induction t with
  | leaf i v => simp [MVisits, visitList, Tree.id, Tree.hasMemo]
  | packed i vs => simp [MVisits, visitList, Tree.id, Tree.hasMemo]
  | zero i d => simp [MVisits, visitList, Tree.id, Tree.hasMemo]
  | node i l r ihl ihr =>
    simp only [MVisits, visitList, ihl, ihr]
    by_cases hz : h0.read A.zero i = A.zero
    · simp [hz, Tree.id, Tree.hasMemo, or_and_right, exists_or]
    · simp [hz, Tree.id, Tree.hasMemo]

theorem visits_root (A : HashAlg H) (h0 : Heap H) (t : Tree T) : Visits A h0 t t.id := by
  cases t <;> simp [Visits, Tree.id]

theorem mvisits_iff (A : HashAlg H) (h0 : Heap H) (t : Tree T) (id : Nat) :
    MVisits A h0 t id ↔ (t.hasMemo = true ∧ id = t.id) ∨ BVisits A h0 t id := by
  cases t <;> simp [MVisits, BVisits, Tree.hasMemo, Tree.id]

theorem mvisits_visits (A : HashAlg H) (h0 : Heap H) :
    ∀ (t : Tree T) (id : Nat), MVisits A h0 t id → Visits A h0 t id := by
  intro t
  induction t with
  | leaf i v => intro id h; exact h
  | packed i vs => intro id h; exact h
  | zero i d => intro id h; exact h.elim
  | node i l r ihl ihr =>
    intro id h
    rcases h with h | ⟨hz, h | h⟩
    · exact Or.inl h
    · exact Or.inr ⟨hz, Or.inl (ihl id h)⟩
    · exact Or.inr ⟨hz, Or.inr (ihr id h)⟩

/-- a visited id is registered (as the subtree reached). -/
theorem visits_registered (A : HashAlg H) (h0 : Heap H) (f : Registry T) :
    ∀ (t : Tree T) (id : Nat), Registered f t → Visits A h0 t id → ∃ s, f id = some s := by
  intro t
  induction t with
  | leaf i v => intro id hr h; cases h; exact ⟨_, hr.self⟩
  | packed i vs => intro id hr h; cases h; exact ⟨_, hr.self⟩
  | zero i d => intro id hr h; cases h; exact ⟨_, hr.self⟩
  | node i l r ihl ihr =>
    intro id hr h
    rcases h with h | ⟨_, h | h⟩
    · cases h; exact ⟨_, hr.self⟩
    · exact ihl id hr.node_left h
    · exact ihr id hr.node_right h

/-- For a registered tree: the memo-carrying visited ids are the visited ids whose registered
node carries a memo. -/
theorem mvisits_iff_visits (A : HashAlg H) (h0 : Heap H) (f : Registry T) :
    ∀ (t : Tree T) (id : Nat) (s : Tree T), Registered f t → f id = some s →
      (MVisits A h0 t id ↔ (Visits A h0 t id ∧ s.hasMemo = true)) := by
  intro t
  induction t with
  | leaf i v =>
    intro id s hr hs
    have := hr.self
    simp only [MVisits, Visits, Tree.id] at this ⊢
    constructor
    · rintro rfl; rw [this] at hs; cases hs; exact ⟨rfl, rfl⟩
    · exact fun h => h.1
  | packed i vs =>
    intro id s hr hs
    have := hr.self
    simp only [MVisits, Visits, Tree.id] at this ⊢
    constructor
    · rintro rfl; rw [this] at hs; cases hs; exact ⟨rfl, rfl⟩
    · exact fun h => h.1
  | zero i d =>
    intro id s hr hs
    have := hr.self
    simp only [MVisits, Visits, Tree.id] at this ⊢
    constructor
    · exact False.elim
    · rintro ⟨rfl, hm⟩; rw [this] at hs; cases hs; simp [Tree.hasMemo] at hm
  | node i l r ihl ihr =>
    intro id s hr hs
    have hself := hr.self
    simp only [Tree.id] at hself
    have hl := ihl id s hr.node_left hs
    have hrr := ihr id s hr.node_right hs
    simp only [MVisits, Visits]
    constructor
    · rintro (rfl | ⟨hz, h | h⟩)
      · rw [hself] at hs; cases hs; exact ⟨Or.inl rfl, rfl⟩
      · exact ⟨Or.inr ⟨hz, Or.inl (hl.1 h).1⟩, (hl.1 h).2⟩
      · exact ⟨Or.inr ⟨hz, Or.inr (hrr.1 h).1⟩, (hrr.1 h).2⟩
    · rintro ⟨h | ⟨hz, h | h⟩, hm⟩
      · exact Or.inl h
      · exact Or.inr ⟨hz, Or.inl (hl.2 ⟨h, hm⟩)⟩
      · exact Or.inr ⟨hz, Or.inr (hrr.2 ⟨h, hm⟩)⟩

/-! ## 2. Coverage invariant -/

/-- the memo of `id` holds the true hash of the node registered under `id`. -/
def Done (E : Elem T H) (A : HashAlg H) (f : Registry T) (h : Heap H) (id : Nat) : Prop :=
  ∀ s, f id = some s → h.read A.zero id = trueHash E A s

/-- every memo-carrying visited node of `t` is memoised in `h`. -/
def Need (E : Elem T H) (A : HashAlg H) (f : Registry T) (h0 h : Heap H) (t : Tree T) : Prop :=
  ∀ id, MVisits A h0 t id → Done E A f h id

/-- the same strictly below the root of `t`. -/
def NeedBelow (E : Elem T H) (A : HashAlg H) (f : Registry T) (h0 h : Heap H) (t : Tree T) :
    Prop :=
  ∀ id, BVisits A h0 t id → Done E A f h id

/-- what an in-flight task has already achieved. -/
def Cov (E : Elem T H) (A : HashAlg H) (f : Registry T) (h0 h : Heap H) :
    Task T H → Tree T → Prop
  | .visit _, _ => True
  | .join _ l r, .node i tl tr =>
      h0.read A.zero i = A.zero ∧ Cov E A f h0 h l tl ∧ Cov E A f h0 h r tr
  | .join _ _ _, _ => False
  | .wr i _, t => t.id = i ∧ t.hasMemo = true ∧ NeedBelow E A f h0 h t
  | .fin _, t => Need E A f h0 h t

/-- every registered node whose memo is present has all its visited nodes memoised. -/
def GInv (E : Elem T H) (A : HashAlg H) (f : Registry T) (h0 h : Heap H) : Prop :=
  ∀ s, f s.id = some s → h.read A.zero s.id ≠ A.zero → Need E A f h0 h s

/-- memoised ids stay memoised. -/
def DoneLe (E : Elem T H) (A : HashAlg H) (f : Registry T) (h h' : Heap H) : Prop :=
  ∀ id, Done E A f h id → Done E A f h' id

theorem doneLe_of_memoLe {E : Elem T H} {A : HashAlg H} {f f' : Registry T} {h h' : Heap H}
    (hle : RegLe f f') (hm : MemoLe E A f' h h') : DoneLe E A f h h' := by
  intro id hd s hs
  rcases hm id with e | ⟨_, s', hs', e⟩
  · rw [e]; exact hd s hs
  · rw [hle id s hs] at hs'; cases hs'; exact e

theorem Cov.mono {E : Elem T H} {A : HashAlg H} {f : Registry T} {h0 h h' : Heap H}
    (hd : DoneLe E A f h h') :
    ∀ (tk : Task T H) (t : Tree T), Cov E A f h0 h tk t → Cov E A f h0 h' tk t := by
  intro tk
  induction tk with
  | visit t' => intro t _; trivial
  | wr i v => intro t ⟨h1, h2, h3⟩; exact ⟨h1, h2, fun id hb => hd id (h3 id hb)⟩
  | fin v => intro t hc id hv; exact hd id (hc id hv)
  | join i l r ihl ihr =>
    intro t hc
    cases t with
    | node i' tl tr => exact ⟨hc.1, ihl tl hc.2.1, ihr tr hc.2.2⟩
    | leaf _ _ => exact hc.elim
    | packed _ _ => exact hc.elim
    | zero _ _ => exact hc.elim

variable [DecidableEq H]

/-- **Single-step coverage.** A step of a task on a registered tree keeps `Cov` and `GInv`, and
changes only memo-carrying visited ids of that tree. -/
theorem cov_step (E : Elem T H) (A : HashAlg H) (f f' : Registry T) (h0 : Heap H)
    (hle : RegLe f f') :
    ∀ (tk : Task T H) (t : Tree T) (p : Pos) (h h' : Heap H) (tk' : Task T H),
      HeapOK E A f' h → (∀ id, h.read A.zero id = A.zero → h0.read A.zero id = A.zero) →
      GInv E A f h0 h → Registered f t → TaskOK E A f' tk t → Cov E A f h0 h tk t →
      step E A h tk p = some (h', tk') →
      Cov E A f h0 h' tk' t ∧ GInv E A f h0 h' ∧
        (∀ id, h'.read A.zero id ≠ h.read A.zero id → MVisits A h0 t id) := by
  intro tk
  induction tk with
  | visit t' =>
    intro t p h h' tk' hm hz hg hreg hok _ hs
    obtain ⟨rfl, _⟩ := hok
    have hc := hreg.self
    cases p with
    | here =>
      cases t' with
      | zero i d =>
        simp [step] at hs; obtain ⟨rfl, rfl⟩ := hs
        exact ⟨fun id hv => hv.elim, hg, fun id hne => absurd rfl hne⟩
      | leaf i v =>
        simp only [step] at hs
        split at hs
        · simp at hs; obtain ⟨rfl, rfl⟩ := hs
          rename_i hne
          exact ⟨hg _ hc hne, hg, fun id hne => absurd rfl hne⟩
        · simp at hs; obtain ⟨rfl, rfl⟩ := hs
          exact ⟨⟨rfl, rfl, fun id hb => hb.elim⟩, hg, fun id hne => absurd rfl hne⟩
      | packed i vs =>
        simp only [step] at hs
        split at hs
        · simp at hs; obtain ⟨rfl, rfl⟩ := hs
          rename_i hne
          exact ⟨hg _ hc hne, hg, fun id hne => absurd rfl hne⟩
        · simp at hs; obtain ⟨rfl, rfl⟩ := hs
          exact ⟨⟨rfl, rfl, fun id hb => hb.elim⟩, hg, fun id hne => absurd rfl hne⟩
      | node i l r =>
        simp only [step] at hs
        split at hs
        · simp at hs; obtain ⟨rfl, rfl⟩ := hs
          rename_i hne
          exact ⟨hg _ hc hne, hg, fun id hne => absurd rfl hne⟩
        · simp at hs; obtain ⟨rfl, rfl⟩ := hs
          rename_i hne
          have h0z : h0.read A.zero i = A.zero := hz i (Classical.not_not.1 hne)
          exact ⟨⟨h0z, trivial, trivial⟩, hg, fun id hne => absurd rfl hne⟩
    | left p => simp [step] at hs
    | right p => simp [step] at hs
  | wr i v =>
    intro t p h h' tk' hm hz hg hreg hok hcov hs
    obtain ⟨hc', rfl⟩ := hok
    obtain ⟨hid, hmemo, hbelow⟩ := hcov
    have hc : f i = some t := hid ▸ hreg.self
    cases p with
    | here =>
      simp [step] at hs; obtain ⟨rfl, rfl⟩ := hs
      obtain ⟨_, hml⟩ := write_true E A f' h i t hm hc'
      have hd : DoneLe E A f h _ := doneLe_of_memoLe hle hml
      have hb : i < h.next := hm.bound i t hc'
      have hneed : Need E A f h0 (h.write i (trueHash E A t)) t := by
        intro id hv
        rcases (mvisits_iff A h0 t id).1 hv with ⟨_, rfl⟩ | hbv
        · intro s hs
          rw [hid] at hs ⊢
          rw [hc] at hs; cases hs
          exact Heap.read_write_same _ _ _ _ hb
        · exact hd id (hbelow id hbv)
      refine ⟨hneed, ?_, ?_⟩
      · intro s hs hne
        by_cases he : s.id = i
        · rw [he, hc] at hs; cases hs; exact hneed
        · rw [Heap.read_write_other _ _ _ _ _ (Ne.symm he)] at hne
          exact fun id hv => hd id (hg s hs hne id hv)
      · intro id hne
        by_cases he : i = id
        · subst he
          exact (mvisits_iff A h0 t i).2 (Or.inl ⟨hmemo, hid.symm⟩)
        · exact absurd (Heap.read_write_other _ _ _ _ _ he) hne
    | left p => simp [step] at hs
    | right p => simp [step] at hs
  | fin v =>
    intro t p h h' tk' _ _ _ _ _ _ hs
    cases p <;> simp [step] at hs
  | join i l r ihl ihr =>
    intro t p h h' tk' hm hz hg hreg hok hcov hs
    cases t with
    | leaf _ _ => exact hok.elim
    | packed _ _ => exact hok.elim
    | zero _ _ => exact hok.elim
    | node i' tl tr =>
      obtain ⟨rfl, hc', hl, hr⟩ := hok
      obtain ⟨h0z, hcl, hcr⟩ := hcov
      cases p with
      | here =>
        cases l <;> cases r <;> simp [step] at hs
        obtain ⟨rfl, rfl⟩ := hs
        refine ⟨⟨rfl, rfl, ?_⟩, hg, fun id hne => absurd rfl hne⟩
        rintro id ⟨_, hv | hv⟩
        · exact hcl id hv
        · exact hcr id hv
      | left p =>
        simp only [step, Option.map_eq_some_iff] at hs
        obtain ⟨⟨h1, l1⟩, hs1, heq⟩ := hs
        simp at heq; obtain ⟨rfl, rfl⟩ := heq
        obtain ⟨c1, g1, u1⟩ := ihl tl p h h1 l1 hm hz hg hreg.node_left hl hcl hs1
        obtain ⟨_, _, hml⟩ := step_inv E A f' l tl p h h1 l1 hm hl hs1
        exact ⟨⟨h0z, c1, Cov.mono (doneLe_of_memoLe hle hml) r tr hcr⟩, g1,
          fun id hne => Or.inr ⟨h0z, Or.inl (u1 id hne)⟩⟩
      | right p =>
        simp only [step, Option.map_eq_some_iff] at hs
        obtain ⟨⟨h1, r1⟩, hs1, heq⟩ := hs
        simp at heq; obtain ⟨rfl, rfl⟩ := heq
        obtain ⟨c1, g1, u1⟩ := ihr tr p h h1 r1 hm hz hg hreg.node_right hr hcr hs1
        obtain ⟨_, _, hml⟩ := step_inv E A f' r tr p h h1 r1 hm hr hs1
        exact ⟨⟨h0z, Cov.mono (doneLe_of_memoLe hle hml) l tl hcl, c1⟩, g1,
          fun id hne => Or.inr ⟨h0z, Or.inr (u1 id hne)⟩⟩

/-! ## 3. The pool invariant along every schedule -/

/-- Invariant of the whole state, relative to the initial heap `h0` and the initial registry `f`;
`f'` is the current registry (extended by the foreign allocations made so far). -/
structure FInv (E : Elem T H) (A : HashAlg H) (f : Registry T) (h0 : Heap H)
    (trees : List (Tree T)) (f' : Registry T) (st : St T H) : Prop where
  regLe : RegLe f f'
  pool : PoolOK E A f' st trees
  memoLe : MemoLe E A f' h0 st.1
  next : h0.next ≤ st.1.next
  g : GInv E A f h0 st.1
  cov : ∀ (i : Nat) (tk : Task T H) (t : Tree T),
    st.2[i]? = some tk → trees[i]? = some t → Cov E A f h0 st.1 tk t
  upd : ∀ id, id < h0.next → st.1.read A.zero id ≠ h0.read A.zero id →
    ∃ t ∈ trees, MVisits A h0 t id

omit [DecidableEq H] in
theorem zero_back {E : Elem T H} {A : HashAlg H} {f' : Registry T} {h0 h : Heap H}
    (hm : MemoLe E A f' h0 h) : ∀ id, h.read A.zero id = A.zero → h0.read A.zero id = A.zero := by
  intro id hz
  rcases hm id with e | ⟨e, _⟩
  · rw [← e]; exact hz
  · exact e

omit [DecidableEq H] in
theorem finv_init (E : Elem T H) (A : HashAlg H) (f : Registry T) (h0 : Heap H)
    (trees : List (Tree T)) (hh : HeapOK E A f h0) (hreg : ∀ t ∈ trees, Registered f t) :
    FInv E A f h0 trees f (initSt h0 trees) := by
  refine ⟨RegLe.refl f, poolOK_init E A f h0 trees hh hreg, MemoLe.refl _ _ _ _, Nat.le_refl _,
    ?_, ?_, fun id _ hne => absurd rfl hne⟩
  · -- present in `h0` ⇒ nothing below is visited, the root holds the true hash
    intro s hs hne id hv
    rcases (mvisits_iff A h0 s id).1 hv with ⟨_, rfl⟩ | hb
    · intro s' hs'
      rw [hs] at hs'; cases hs'
      rcases hh.memo _ _ hs with h0z | h1
      · exact absurd h0z hne
      · exact h1
    · cases s with
      | node i l r => exact absurd hb.1 hne
      | leaf _ _ => exact hb.elim
      | packed _ _ => exact hb.elim
      | zero _ _ => exact hb.elim
  · intro i tk t hi ht
    simp only [initSt, List.getElem?_map, ht, Option.map_some, Option.some.injEq] at hi
    subst hi; trivial

/-- a hashing action preserves the invariant (same registry). -/
theorem finv_run (E : Elem T H) (A : HashAlg H) (f : Registry T) (h0 : Heap H)
    (trees : List (Tree T)) (hreg : ∀ t ∈ trees, Registered f t) (f' : Registry T) (st : St T H)
    (i : Nat) (p : Pos) (hinv : FInv E A f h0 trees f' st) :
    FInv E A f h0 trees f' (act E A st (.run i p)) := by
  cases hi : st.2[i]? with
  | none => rw [act_run_none E A st i p hi]; exact hinv
  | some tk =>
    cases hs : step E A st.1 tk p with
    | none => rw [act_run_stuck E A st i p tk hi hs]; exact hinv
    | some r =>
      obtain ⟨h', tk'⟩ := r
      obtain ⟨a1, a2, a3⟩ := act_run_inv E A f' st trees i p hinv.pool
      rw [act_run_some E A st i p tk tk' h' hi hs] at a1 a2 a3 ⊢
      have hlt : i < st.2.length := (List.getElem?_eq_some_iff.1 hi).1
      have hlt' : i < trees.length := hinv.pool.len ▸ hlt
      have ht : trees[i]? = some trees[i] := List.getElem?_eq_getElem hlt'
      have hmem : trees[i] ∈ trees := List.getElem_mem hlt'
      obtain ⟨c1, g1, u1⟩ := cov_step E A f f' h0 hinv.regLe tk trees[i] p st.1 h' tk'
        hinv.pool.heap (zero_back hinv.memoLe) hinv.g (hreg _ hmem)
        (hinv.pool.tasks i tk _ hi ht) (hinv.cov i tk _ hi ht) hs
      have hd : DoneLe E A f st.1 h' := doneLe_of_memoLe hinv.regLe a3
      refine ⟨hinv.regLe, a1, hinv.memoLe.trans a3, ?_, g1, ?_, ?_⟩
      · show h0.next ≤ h'.next
        have : h'.next = st.1.next := a2
        rw [this]; exact hinv.next
      · intro j tkj tj hj htj
        by_cases hij : i = j
        · subst hij
          simp [List.getElem?_set_self hlt] at hj
          subst hj
          rw [ht] at htj; cases htj
          exact c1
        · simp only [List.getElem?_set_ne hij] at hj
          exact Cov.mono hd tkj tj (hinv.cov j tkj tj hj htj)
      · intro id hlt0 hne
        show ∃ t ∈ trees, MVisits A h0 t id
        by_cases hch : h'.read A.zero id = st.1.read A.zero id
        · exact hinv.upd id hlt0 (by rw [← hch]; exact hne)
        · exact ⟨_, hmem, u1 id hch⟩

/-- an admissible foreign allocation preserves the invariant (extended registry). -/
theorem finv_alloc (E : Elem T H) (A : HashAlg H) (f : Registry T) (h0 : Heap H)
    (trees : List (Tree T)) (f' : Registry T) (st : St T H) (s : Tree T) (m : H)
    (hm : m = A.zero ∨ m = trueHash E A s) (hinv : FInv E A f h0 trees f' st) :
    FInv E A f h0 trees (regExt f' st.1.next s) (act E A st (.alloc s m)) := by
  obtain ⟨hle1, a1, a3⟩ := act_alloc_inv E A f' st trees s m hinv.pool hm
  have hle : RegLe f (regExt f' st.1.next s) := hinv.regLe.trans hle1
  have hd : DoneLe E A f st.1 (act E A st (.alloc s m)).1 := doneLe_of_memoLe hle a3
  have hold : ∀ id, id < st.1.next →
      (act E A st (.alloc s m)).1.read A.zero id = st.1.read A.zero id :=
    fun id hlt => Heap.read_alloc_old _ _ _ _ hlt
  refine ⟨hle, a1, (hinv.memoLe.mono hle1).trans a3, ?_, ?_, ?_, ?_⟩
  · show h0.next ≤ (st.1.alloc m).2.next
    rw [Heap.next_alloc]; exact Nat.le_succ_of_le hinv.next
  · intro s' hs' hne id hv
    have hb : s'.id < st.1.next := hinv.pool.heap.bound _ _ (hinv.regLe _ _ hs')
    rw [hold _ hb] at hne
    exact hd id (hinv.g s' hs' hne id hv)
  · intro j tkj tj hj htj
    exact Cov.mono hd tkj tj (hinv.cov j tkj tj hj htj)
  · intro id hlt0 hne
    rw [hold _ (Nat.lt_of_lt_of_le hlt0 hinv.next)] at hne
    exact hinv.upd id hlt0 hne

/-- **The invariant holds along every schedule.** -/
theorem finv_run_schedule (E : Elem T H) (A : HashAlg H) (f : Registry T) (h0 : Heap H)
    (trees : List (Tree T)) (hreg : ∀ t ∈ trees, Registered f t) :
    ∀ (sched : List (Act T H)) (f' : Registry T) (st : St T H),
      FInv E A f h0 trees f' st → (∀ a ∈ sched, AllocOK E A a) →
      ∃ f'', FInv E A f h0 trees f'' (runSchedule E A st sched) := by
  intro sched
  induction sched with
  | nil => intro f' st hinv _; exact ⟨f', hinv⟩
  | cons a as ih =>
    intro f' st hinv hall
    have has : ∀ a ∈ as, AllocOK E A a := fun a ha => hall a (List.mem_cons_of_mem _ ha)
    rw [runSchedule_cons]
    cases a with
    | run i p => exact ih f' _ (finv_run E A f h0 trees hreg f' st i p hinv) has
    | alloc s m =>
      have hm : m = A.zero ∨ m = trueHash E A s := hall (.alloc s m) (List.mem_cons_self ..)
      exact ih _ _ (finv_alloc E A f h0 trees f' st s m hm hinv) has

/-- pure schedules keep the registry and `next`. -/
theorem finv_run_pure (E : Elem T H) (A : HashAlg H) (f : Registry T) (h0 : Heap H)
    (trees : List (Tree T)) (hreg : ∀ t ∈ trees, Registered f t) :
    ∀ (sched : List (Nat × Pos)) (st : St T H),
      FInv E A f h0 trees f st → FInv E A f h0 trees f (runPure E A st sched) := by
  intro sched
  induction sched with
  | nil => intro st hinv; exact hinv
  | cons a as ih =>
    intro st hinv
    have := ih _ (finv_run E A f h0 trees hreg f st a.1 a.2 hinv)
    simpa only [runPure, List.map_cons, runSchedule_cons] using this

/-! ## 4. The final memo store -/

omit [DecidableEq H] in
/-- **Final memos, core form.** After a complete schedule, for every id allocated in `h0`:
if it is a memo-carrying visited id of some tree, its memo is the true hash of the registered
node; otherwise its memo is what it was in `h0`. -/
theorem final_read (E : Elem T H) (A : HashAlg H) (f f' : Registry T) (h0 : Heap H)
    (trees : List (Tree T)) (st : St T H) (hinv : FInv E A f h0 trees f' st)
    (hfin : AllFin st.2) (id : Nat) (hlt : id < h0.next) :
    ((∃ t ∈ trees, MVisits A h0 t id) → ∀ s, f id = some s →
        st.1.read A.zero id = trueHash E A s) ∧
    ((¬ ∃ t ∈ trees, MVisits A h0 t id) → st.1.read A.zero id = h0.read A.zero id) := by
  constructor
  · rintro ⟨t, ht, hv⟩ s hs
    obtain ⟨i, hi⟩ := List.getElem?_of_mem ht
    have hlt' : i < st.2.length := by
      rw [hinv.pool.len]; exact (List.getElem?_eq_some_iff.1 hi).1
    have htk := List.getElem?_eq_getElem hlt'
    obtain ⟨v, hv'⟩ := hfin _ (List.mem_of_getElem? htk)
    rw [hv'] at htk
    exact hinv.cov i _ t htk hi id hv s hs
  · intro hno
    apply Classical.byContradiction
    intro hne
    exact hno (hinv.upd id hlt hne)

/-- **C16: the final memos are determined by the initial state.** Pool of threads hashing registered
trees from a valid heap `h0`; any schedule of hashing steps and admissible foreign allocations
after which every task has returned. For every id registered in the initial registry, with node
`s`: if the id was memoised in `h0`, or is visited from some tree of the pool and `s` carries a
memo, then the final memo is the true hash of `s`; otherwise it is what it was in `h0`. -/
theorem C16_final_memos_deterministic (E : Elem T H) (A : HashAlg H) (f : Registry T)
    (h0 : Heap H) (trees : List (Tree T)) (sched : List (Act T H))
    (hh : HeapOK E A f h0) (hreg : ∀ t ∈ trees, Registered f t)
    (hal : ∀ a ∈ sched, AllocOK E A a)
    (hfin : AllFin (runSchedule E A (initSt h0 trees) sched).2)
    (id : Nat) (s : Tree T) (hs : f id = some s) :
    ((h0.read A.zero id ≠ A.zero ∨ ((∃ t ∈ trees, Visits A h0 t id) ∧ s.hasMemo = true)) →
      (runSchedule E A (initSt h0 trees) sched).1.read A.zero id = trueHash E A s) ∧
    (¬ (h0.read A.zero id ≠ A.zero ∨ ((∃ t ∈ trees, Visits A h0 t id) ∧ s.hasMemo = true)) →
      (runSchedule E A (initSt h0 trees) sched).1.read A.zero id = h0.read A.zero id) := by
  obtain ⟨f'', hinv⟩ := finv_run_schedule E A f h0 trees hreg sched f _
    (finv_init E A f h0 trees hh hreg) hal
  obtain ⟨r1, r2⟩ := final_read E A f f'' h0 trees _ hinv hfin id (hh.bound id s hs)
  have hiff : (∃ t ∈ trees, MVisits A h0 t id) ↔
      ((∃ t ∈ trees, Visits A h0 t id) ∧ s.hasMemo = true) := by
    constructor
    · rintro ⟨t, ht, hv⟩
      have := (mvisits_iff_visits A h0 f t id s (hreg t ht) hs).1 hv
      exact ⟨⟨t, ht, this.1⟩, this.2⟩
    · rintro ⟨⟨t, ht, hv⟩, hm⟩
      exact ⟨t, ht, (mvisits_iff_visits A h0 f t id s (hreg t ht) hs).2 ⟨hv, hm⟩⟩
  constructor
  · rintro (hne | hv)
    · by_cases hex : ∃ t ∈ trees, MVisits A h0 t id
      · exact r1 hex s hs
      · rw [r2 hex]
        rcases hh.memo id s hs with h0z | h1
        · exact absurd h0z hne
        · exact h1
    · exact r1 (hiff.2 hv) s hs
  · intro hno
    exact r2 (fun hex => hno (Or.inr (hiff.1 hex)))

/-- The same for schedules of hashing steps only (`List (Nat × Pos)`). -/
theorem C16_final_memos_deterministic_pure (E : Elem T H) (A : HashAlg H) (f : Registry T)
    (h0 : Heap H) (trees : List (Tree T)) (sched : List (Nat × Pos))
    (hh : HeapOK E A f h0) (hreg : ∀ t ∈ trees, Registered f t)
    (hfin : AllFin (runPure E A (initSt h0 trees) sched).2)
    (id : Nat) (s : Tree T) (hs : f id = some s) :
    ((h0.read A.zero id ≠ A.zero ∨ ((∃ t ∈ trees, Visits A h0 t id) ∧ s.hasMemo = true)) →
      (runPure E A (initSt h0 trees) sched).1.read A.zero id = trueHash E A s) ∧
    (¬ (h0.read A.zero id ≠ A.zero ∨ ((∃ t ∈ trees, Visits A h0 t id) ∧ s.hasMemo = true)) →
      (runPure E A (initSt h0 trees) sched).1.read A.zero id = h0.read A.zero id) :=
  C16_final_memos_deterministic E A f h0 trees _ hh hreg
    (fun a ha => by obtain ⟨ip, _, rfl⟩ := List.mem_map.1 ha; trivial) hfin id s hs

/-- **C16: the final memo store does not depend on the schedule.** Two complete schedules (hashing
steps and admissible foreign allocations, not necessarily the same allocations) from the same
initial state end in heaps that agree on every id registered initially. -/
theorem C16_final_heap_schedule_independent (E : Elem T H) (A : HashAlg H) (f : Registry T)
    (h0 : Heap H) (trees : List (Tree T)) (s1 s2 : List (Act T H))
    (hh : HeapOK E A f h0) (hreg : ∀ t ∈ trees, Registered f t)
    (hal1 : ∀ a ∈ s1, AllocOK E A a) (hal2 : ∀ a ∈ s2, AllocOK E A a)
    (hfin1 : AllFin (runSchedule E A (initSt h0 trees) s1).2)
    (hfin2 : AllFin (runSchedule E A (initSt h0 trees) s2).2)
    (id : Nat) (s : Tree T) (hs : f id = some s) :
    (runSchedule E A (initSt h0 trees) s1).1.read A.zero id =
      (runSchedule E A (initSt h0 trees) s2).1.read A.zero id := by
  obtain ⟨a1, a2⟩ := C16_final_memos_deterministic E A f h0 trees s1 hh hreg hal1 hfin1 id s hs
  obtain ⟨b1, b2⟩ := C16_final_memos_deterministic E A f h0 trees s2 hh hreg hal2 hfin2 id s hs
  by_cases hc : h0.read A.zero id ≠ A.zero ∨
      ((∃ t ∈ trees, Visits A h0 t id) ∧ s.hasMemo = true)
  · rw [a1 hc, b1 hc]
  · rw [a2 hc, b2 hc]

omit [DecidableEq H] in
/-- heaps are equal when they have the same size and agree on every allocated id. -/
theorem heap_ext (z : H) (h1 h2 : Heap H) (hn : h1.next = h2.next)
    (hr : ∀ i, i < h1.next → h1.read z i = h2.read z i) : h1 = h2 := by
  obtain ⟨m1⟩ := h1
  obtain ⟨m2⟩ := h2
  simp only [Heap.next] at hn hr
  congr 1
  apply Array.ext hn
  intro i hi1 hi2
  have := hr i hi1
  simpa [Heap.read, hi1, hi2] using this

/-- After a complete schedule of hashing steps only, *every* allocated id (registered or not) has
the memo described by `final_read`; hence: -/
theorem final_heap_pure_eq (E : Elem T H) (A : HashAlg H) (f : Registry T)
    (h0 : Heap H) (trees : List (Tree T)) (s1 s2 : List (Nat × Pos))
    (hh : HeapOK E A f h0) (hreg : ∀ t ∈ trees, Registered f t)
    (hfin1 : AllFin (runPure E A (initSt h0 trees) s1).2)
    (hfin2 : AllFin (runPure E A (initSt h0 trees) s2).2) :
    (runPure E A (initSt h0 trees) s1).1 = (runPure E A (initSt h0 trees) s2).1 := by
  have i0 := finv_init E A f h0 trees hh hreg
  have i1 := finv_run_pure E A f h0 trees hreg s1 _ i0
  have i2 := finv_run_pure E A f h0 trees hreg s2 _ i0
  have n1 := (run_inv_pure E A trees f s1 _ i0.pool).2.1
  have n2 := (run_inv_pure E A trees f s2 _ i0.pool).2.1
  apply heap_ext A.zero _ _ (n1.trans n2.symm)
  intro id hlt
  have hlt0 : id < h0.next := by rw [n1] at hlt; exact hlt
  obtain ⟨a1, a2⟩ := final_read E A f f h0 trees _ i1 hfin1 id hlt0
  obtain ⟨b1, b2⟩ := final_read E A f f h0 trees _ i2 hfin2 id hlt0
  by_cases hex : ∃ t ∈ trees, MVisits A h0 t id
  · obtain ⟨t, ht, hv⟩ := hex
    obtain ⟨s, hs⟩ := visits_registered A h0 f t id (hreg t ht) (mvisits_visits A h0 t id hv)
    rw [a1 ⟨t, ht, hv⟩ s hs, b1 ⟨t, ht, hv⟩ s hs]
  · rw [a2 hex, b2 hex]

/-- **Schedule independence for schedules of hashing steps only: the final heaps are equal as
values** (same size, same memo at every id, registered or not). -/
theorem C16_final_heap_schedule_independent_pure (E : Elem T H) (A : HashAlg H) (f : Registry T)
    (h0 : Heap H) (trees : List (Tree T)) (s1 s2 : List (Nat × Pos))
    (hh : HeapOK E A f h0) (hreg : ∀ t ∈ trees, Registered f t)
    (hfin1 : AllFin (runPure E A (initSt h0 trees) s1).2)
    (hfin2 : AllFin (runPure E A (initSt h0 trees) s2).2) :
    (runPure E A (initSt h0 trees) s1).1 = (runPure E A (initSt h0 trees) s2).1 :=
  final_heap_pure_eq E A f h0 trees s1 s2 hh hreg hfin1 hfin2

/-! ## 5. The sequential driver is one complete schedule -/

/-- the heap after running the sequential `treeHash` over the trees one after the other. -/
def seqHeap (E : Elem T H) (A : HashAlg H) (h0 : Heap H) (trees : List (Tree T)) : Heap H :=
  trees.foldl (fun h t => (treeHash E A h t).2) h0

/-- the pool schedule the sequential driver follows: task `i`, then task `i+1`, … each alone along
its `seqSched`. -/
def seqAll (E : Elem T H) (A : HashAlg H) : Heap H → Nat → List (Tree T) → List (Nat × Pos)
  | _, _, [] => []
  | h, i, t :: ts =>
    (seqSched E A h t).map (fun p => (i, p)) ++ seqAll E A (treeHash E A h t).2 (i + 1) ts

theorem runPure_append (E : Elem T H) (A : HashAlg H) (st : St T H) (s1 s2 : List (Nat × Pos)) :
    runPure E A st (s1 ++ s2) = runPure E A (runPure E A st s1) s2 := by
  simp only [runPure, List.map_append, runSchedule_append]

/-- a single-task run is a pool schedule at any index of any pool. -/
theorem runTask_at (E : Elem T H) (A : HashAlg H) :
    ∀ (ps : List Pos) (c c' : Heap H × Task T H), runTask E A c ps = some c' →
      ∀ (pool : List (Task T H)) (i : Nat), pool[i]? = some c.2 →
        runPure E A (c.1, pool) (ps.map fun p => (i, p)) = (c'.1, pool.set i c'.2) := by
  intro ps
  induction ps with
  | nil =>
    intro c c' h pool i hi
    simp [runTask] at h; subst h
    obtain ⟨hlt, he⟩ := List.getElem?_eq_some_iff.1 hi
    simp only [List.map_nil, runPure, runSchedule_nil]
    rw [← he, List.set_getElem_self]
  | cons p ps ih =>
    intro c c' h pool i hi
    simp only [runTask] at h
    cases hs : step E A c.1 c.2 p with
    | none => simp [hs] at h
    | some c1 =>
      simp only [hs] at h
      have hlt : i < pool.length := (List.getElem?_eq_some_iff.1 hi).1
      have := ih c1 c' h (pool.set i c1.2) i (by simp [List.getElem?_set_self hlt])
      simp only [runPure, List.map_cons, runSchedule_cons] at this ⊢
      rw [act_run_some E A (c.1, pool) i p c.2 c1.2 c1.1 hi hs]
      rw [this, List.set_set]

theorem seqAll_run (E : Elem T H) (A : HashAlg H) :
    ∀ (ts : List (Tree T)) (done : List (Task T H)) (h : Heap H), AllFin done →
      ∃ fins, AllFin fins ∧
        runPure E A (h, done ++ ts.map .visit) (seqAll E A h done.length ts) =
          (seqHeap E A h ts, fins) := by
  intro ts
  induction ts with
  | nil => intro done h hd; exact ⟨done, hd, by simp [seqAll, seqHeap, runPure, runSchedule]⟩
  | cons t ts ih =>
    intro done h hd
    have hrun := runTask_at E A _ _ _ (treeHash_is_schedule E A t h)
      (done ++ (Task.visit t :: ts.map .visit)) done.length (by simp)
    have hd' : AllFin (done ++ [Task.fin (treeHash E A h t).1]) := by
      intro tk htk
      rcases List.mem_append.1 htk with hm | hm
      · exact hd tk hm
      · simp at hm; exact ⟨_, hm⟩
    obtain ⟨fins, hf, hr⟩ := ih (done ++ [Task.fin (treeHash E A h t).1]) (treeHash E A h t).2 hd'
    refine ⟨fins, hf, ?_⟩
    simp only [seqAll, List.map_cons, runPure_append]
    rw [hrun]
    simp only [List.length_append, List.length_cons, List.length_nil] at hr
    have hset : (done ++ (Task.visit t :: ts.map .visit)).set done.length
        (Task.fin (treeHash E A h t).1) =
        (done ++ [Task.fin (treeHash E A h t).1]) ++ ts.map .visit := by
      simp
    rw [hset]
    simpa [seqHeap] using hr

/-- **The sequential driver is a complete schedule**: running the tasks one after the other, each
along the schedule of the sequential `treeHash`, finishes every task and ends in `seqHeap`. -/
theorem seqAll_complete (E : Elem T H) (A : HashAlg H) (h0 : Heap H) (trees : List (Tree T)) :
    AllFin (runPure E A (initSt h0 trees) (seqAll E A h0 0 trees)).2 ∧
      (runPure E A (initSt h0 trees) (seqAll E A h0 0 trees)).1 = seqHeap E A h0 trees := by
  obtain ⟨fins, hf, hr⟩ := seqAll_run E A trees [] h0 (fun _ h => by simp at h)
  have hr' : runPure E A (initSt h0 trees) (seqAll E A h0 0 trees) =
      (seqHeap E A h0 trees, fins) := hr
  rw [hr']; exact ⟨hf, rfl⟩

/-- **C16: the final memo store is the sequential one.** After any complete schedule (hashing
steps and admissible foreign allocations), every id registered initially has the memo it has
after running the sequential `treeHash` over the trees one after the other. -/
theorem C16_final_memos_eq_sequential (E : Elem T H) (A : HashAlg H) (f : Registry T)
    (h0 : Heap H) (trees : List (Tree T)) (sched : List (Act T H))
    (hh : HeapOK E A f h0) (hreg : ∀ t ∈ trees, Registered f t)
    (hal : ∀ a ∈ sched, AllocOK E A a)
    (hfin : AllFin (runSchedule E A (initSt h0 trees) sched).2)
    (id : Nat) (s : Tree T) (hs : f id = some s) :
    (runSchedule E A (initSt h0 trees) sched).1.read A.zero id =
      (trees.foldl (fun h t => (treeHash E A h t).2) h0).read A.zero id := by
  obtain ⟨c1, c2⟩ := seqAll_complete E A h0 trees
  have := C16_final_heap_schedule_independent E A f h0 trees sched
    ((seqAll E A h0 0 trees).map fun ip : Nat × Pos => Act.run ip.1 ip.2) hh hreg hal
    (fun a ha => by obtain ⟨ip, _, rfl⟩ := List.mem_map.1 ha; trivial) hfin c1 id s hs
  rw [this]
  show (runPure E A (initSt h0 trees) (seqAll E A h0 0 trees)).1.read A.zero id = _
  rw [c2]; rfl

/-- For schedules of hashing steps only, the final heap *is* the sequential one. -/
theorem C16_final_memos_eq_sequential_pure (E : Elem T H) (A : HashAlg H) (f : Registry T)
    (h0 : Heap H) (trees : List (Tree T)) (sched : List (Nat × Pos))
    (hh : HeapOK E A f h0) (hreg : ∀ t ∈ trees, Registered f t)
    (hfin : AllFin (runPure E A (initSt h0 trees) sched).2) :
    (runPure E A (initSt h0 trees) sched).1 =
      trees.foldl (fun h t => (treeHash E A h t).2) h0 := by
  obtain ⟨c1, c2⟩ := seqAll_complete E A h0 trees
  rw [final_heap_pure_eq E A f h0 trees sched (seqAll E A h0 0 trees) hh hreg hfin c1, c2]
  rfl

/-! ## 6. Non-vacuity: the concrete pools and schedules of `Conc.Ex` -/

namespace Ex

theorem allFin_two (a b : FH) : AllFin ([.fin a, .fin b] : List (Task Nat FH)) := by
  intro tk h
  simp at h
  rcases h with rfl | rfl <;> exact ⟨_, rfl⟩

theorem regs3 : ∀ t ∈ [t3, t3], Registered reg3 t := by
  intro t ht; simp at ht; subst ht; exact reg3_ok

theorem regsDag : ∀ t ∈ [dag, dag], Registered regDag t := by
  intro t ht; simp at ht; subst ht; exact regDag_ok

theorem finA : AllFin (runPure E A (initSt h0 [t3, t3]) schedA).2 := allFin_two v3 v3
theorem finB : AllFin (runPure E A (initSt h0 [t3, t3]) schedB).2 := allFin_two v3 v3
theorem finDag : AllFin (runSchedule E A (initSt h0 [dag, dag]) schedDag).2 := allFin_two vDag vDag

/-- what hashing visits from the all-absent heap: everything. -/
example : (visitList A h0 t3).map Tree.id = [2, 0, 1] := by decide
example : (visitList A h0 dag).map Tree.id = [2, 1, 0, 0, 1, 0, 0] := by decide
example : Visits A h0 t3 1 := by simp [t3, Visits]; decide
example : MVisits A h0 dag 0 := by simp [dag, MVisits]; decide

/-- two different complete schedules of the pool `[t3, t3]` (A: one thread after the other,
B: both threads descend and both write every node) — same final heap, by the theorem … -/
example : schedA ≠ schedB := by decide
example : (runPure E A (initSt h0 [t3, t3]) schedA).1 =
    (runPure E A (initSt h0 [t3, t3]) schedB).1 :=
  C16_final_heap_schedule_independent_pure E A reg3 h0 [t3, t3] schedA schedB h0_ok3 regs3
    finA finB
/-- … and by evaluation. -/
example : (runPure E A (initSt h0 [t3, t3]) schedA).1.memo =
    (runPure E A (initSt h0 [t3, t3]) schedB).1.memo := by decide

/-- both are the heap of the sequential driver (theorem, and evaluation). -/
example : (runPure E A (initSt h0 [t3, t3]) schedB).1 =
    [t3, t3].foldl (fun h t => (treeHash E A h t).2) h0 :=
  C16_final_memos_eq_sequential_pure E A reg3 h0 [t3, t3] schedB h0_ok3 regs3 finB
example : ([t3, t3].foldl (fun h t => (treeHash E A h t).2) h0).memo = #[.lf 7, .lf 9, v3] := by
  decide
/-- the sequential driver's schedule for this pool is schedule A. -/
example : seqAll E A h0 0 [t3, t3] = schedA := by decide

/-- the final memo of every registered id, as `C16_final_memos_deterministic` says: visited and
memo-carrying ⇒ true hash. -/
example : (runPure E A (initSt h0 [t3, t3]) schedB).1.read A.zero 1 = trueHash E A (.leaf 1 9) :=
  (C16_final_memos_deterministic_pure E A reg3 h0 [t3, t3] schedB h0_ok3 regs3 finB 1
    (.leaf 1 9) rfl).1 (Or.inr ⟨⟨t3, by simp, by simp [t3, Visits]; decide⟩, rfl⟩)

/-- a schedule with a foreign allocation and internal sharing (`schedDag`) against the sequential
driver's schedule for the same pool: different schedules, different heaps (one has an extra
node), same memo at every registered id. -/
example : (runSchedule E A (initSt h0 [dag, dag]) schedDag).1.next = 4 ∧
    (runPure E A (initSt h0 [dag, dag]) (seqAll E A h0 0 [dag, dag])).1.next = 3 := by decide
example (id : Nat) (s : Tree Nat) (hs : regDag id = some s) :
    (runSchedule E A (initSt h0 [dag, dag]) schedDag).1.read A.zero id =
      ([dag, dag].foldl (fun h t => (treeHash E A h t).2) h0).read A.zero id :=
  C16_final_memos_eq_sequential E A regDag h0 [dag, dag] schedDag h0_okDag regsDag
    (by decide) finDag id s hs
example : ∀ id < 3, (runSchedule E A (initSt h0 [dag, dag]) schedDag).1.read A.zero id =
    ([dag, dag].foldl (fun h t => (treeHash E A h t).2) h0).read A.zero id := by decide

/-- a heap in which the root of `t3` is already memoised: hashing visits only the root, and the
(absent) memos of the leaves are left as they were — by the theorem and by evaluation. -/
def h1 : Heap FH := ⟨#[.z, .z, v3]⟩

theorem h1_ok3 : HeapOK E A reg3 h1 := by
  refine ⟨?_, ?_⟩
  · intro id s hs
    match id, hs with
    | 0, _ => decide
    | 1, _ => decide
    | 2, _ => decide
  · intro id s hs
    match id, hs with
    | 0, _ => exact Or.inl rfl
    | 1, _ => exact Or.inl rfl
    | 2, hs => cases hs; exact Or.inr rfl

example : (visitList A h1 t3).map Tree.id = [2] := by decide
example : ¬ Visits A h1 t3 0 := by simp [t3, Visits]; decide

theorem fin1 : AllFin (runPure E A (initSt h1 [t3, t3]) [(1, .here), (0, .here)]).2 :=
  allFin_two v3 v3

example : (runPure E A (initSt h1 [t3, t3]) [(1, .here), (0, .here)]).1.read A.zero 0 =
    h1.read A.zero 0 :=
  (C16_final_memos_deterministic_pure E A reg3 h1 [t3, t3] [(1, .here), (0, .here)] h1_ok3 regs3
    fin1 0 (.leaf 0 7) rfl).2 (by
      rintro (h | ⟨⟨t, ht, hv⟩, _⟩)
      · exact h (by decide)
      · simp at ht; subst ht
        simp [t3, Visits] at hv
        exact absurd hv (by decide))
example : (runPure E A (initSt h1 [t3, t3]) [(1, .here), (0, .here)]).1.memo = #[.z, .z, v3] := by
  decide

/-- a `Zero` node is visited but carries no memo. -/
def tz : Tree Nat := .node 2 (.leaf 0 7) (.zero 1 0)
example : Visits A h0 tz 1 ∧ ¬ MVisits A h0 tz 1 := by simp [tz, Visits, MVisits]; decide

end Ex

end Conc

/-! ## 7. The theorems under their manifest names (`Milhouse.*`) -/
section Main
open Conc
variable {T H : Type} [DecidableEq H]

/-- Final memos are determined by the initial state (any complete schedule with admissible foreign
allocations). -/
theorem C16_final_memos_deterministic (E : Elem T H) (A : HashAlg H) (f : Registry T)
    (h0 : Heap H) (trees : List (Tree T)) (sched : List (Act T H))
    (hh : HeapOK E A f h0) (hreg : ∀ t ∈ trees, Registered f t)
    (hal : ∀ a ∈ sched, AllocOK E A a)
    (hfin : AllFin (runSchedule E A (initSt h0 trees) sched).2)
    (id : Nat) (s : Tree T) (hs : f id = some s) :
    ((h0.read A.zero id ≠ A.zero ∨ ((∃ t ∈ trees, Visits A h0 t id) ∧ s.hasMemo = true)) →
      (runSchedule E A (initSt h0 trees) sched).1.read A.zero id = trueHash E A s) ∧
    (¬ (h0.read A.zero id ≠ A.zero ∨ ((∃ t ∈ trees, Visits A h0 t id) ∧ s.hasMemo = true)) →
      (runSchedule E A (initSt h0 trees) sched).1.read A.zero id = h0.read A.zero id) :=
  Conc.C16_final_memos_deterministic E A f h0 trees sched hh hreg hal hfin id s hs

/-- Two complete schedules end in heaps that agree on every initially registered id. -/
theorem C16_final_heap_schedule_independent (E : Elem T H) (A : HashAlg H) (f : Registry T)
    (h0 : Heap H) (trees : List (Tree T)) (s1 s2 : List (Act T H))
    (hh : HeapOK E A f h0) (hreg : ∀ t ∈ trees, Registered f t)
    (hal1 : ∀ a ∈ s1, AllocOK E A a) (hal2 : ∀ a ∈ s2, AllocOK E A a)
    (hfin1 : AllFin (runSchedule E A (initSt h0 trees) s1).2)
    (hfin2 : AllFin (runSchedule E A (initSt h0 trees) s2).2)
    (id : Nat) (s : Tree T) (hs : f id = some s) :
    (runSchedule E A (initSt h0 trees) s1).1.read A.zero id =
      (runSchedule E A (initSt h0 trees) s2).1.read A.zero id :=
  Conc.C16_final_heap_schedule_independent E A f h0 trees s1 s2 hh hreg hal1 hal2 hfin1 hfin2
    id s hs

/-- Two complete schedules of hashing steps only end in the same heap (equal as values). -/
theorem C16_final_heap_schedule_independent_pure (E : Elem T H) (A : HashAlg H) (f : Registry T)
    (h0 : Heap H) (trees : List (Tree T)) (s1 s2 : List (Nat × Pos))
    (hh : HeapOK E A f h0) (hreg : ∀ t ∈ trees, Registered f t)
    (hfin1 : AllFin (runPure E A (initSt h0 trees) s1).2)
    (hfin2 : AllFin (runPure E A (initSt h0 trees) s2).2) :
    (runPure E A (initSt h0 trees) s1).1 = (runPure E A (initSt h0 trees) s2).1 :=
  Conc.C16_final_heap_schedule_independent_pure E A f h0 trees s1 s2 hh hreg hfin1 hfin2

/-- The final memo store of any complete schedule agrees, on every initially registered id, with
running the sequential `treeHash` over the trees one after the other. -/
theorem C16_final_memos_eq_sequential (E : Elem T H) (A : HashAlg H) (f : Registry T)
    (h0 : Heap H) (trees : List (Tree T)) (sched : List (Act T H))
    (hh : HeapOK E A f h0) (hreg : ∀ t ∈ trees, Registered f t)
    (hal : ∀ a ∈ sched, AllocOK E A a)
    (hfin : AllFin (runSchedule E A (initSt h0 trees) sched).2)
    (id : Nat) (s : Tree T) (hs : f id = some s) :
    (runSchedule E A (initSt h0 trees) sched).1.read A.zero id =
      (trees.foldl (fun h t => (treeHash E A h t).2) h0).read A.zero id :=
  Conc.C16_final_memos_eq_sequential E A f h0 trees sched hh hreg hal hfin id s hs

/-- For schedules of hashing steps only the final heap is the sequential one, as a value. -/
theorem C16_final_memos_eq_sequential_pure (E : Elem T H) (A : HashAlg H) (f : Registry T)
    (h0 : Heap H) (trees : List (Tree T)) (sched : List (Nat × Pos))
    (hh : HeapOK E A f h0) (hreg : ∀ t ∈ trees, Registered f t)
    (hfin : AllFin (runPure E A (initSt h0 trees) sched).2) :
    (runPure E A (initSt h0 trees) sched).1 =
      trees.foldl (fun h t => (treeHash E A h t).2) h0 :=
  Conc.C16_final_memos_eq_sequential_pure E A f h0 trees sched hh hreg hfin

end Main

end Milhouse
