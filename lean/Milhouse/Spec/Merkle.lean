import Milhouse.Model.Basic
/-!
# SSZ `hash_tree_root` for `List[T, N]` and `Vector[T, N]`, written from the consensus
specification (ssz/simple-serialize.md, "Merkleization")

> `pack(values)`: serialize the basic values, concatenate, right-pad with zero bytes to a multiple
>   of 32 bytes, split into 32-byte chunks.
> `merkleize(chunks, limit=None)`: pad the chunks with zero chunks to `next_pow_of_two(limit)`
>   (or of `len(chunks)`), then reduce pairwise with `hash` until one root remains.
> `mix_in_length(root, length)`: `hash(root + length)` with the length as a 256-bit little endian.
> List of basic `B`: `mix_in_length(merkleize(pack(v), limit=(N*size_of(B)+31)//32), len(v))`
> List of composite: `mix_in_length(merkleize([hash_tree_root(e) for e in v], limit=N), len(v))`
> Vector: the same without `limit` and without the mix-in.

This file shares no code with `Model/Rebase.lean`'s `treeHash`. Chunks are abstract values of the
hash type: packing a group of at most `pf` basic values into one chunk is `Elem.packHash`, the
root of a composite element is `Elem.leafHash`.
-/
namespace Milhouse.Spec
open Milhouse
variable {T H : Type}

/-- split into groups of `k` (the last may be shorter); `fuel ≥ length` suffices. -/
def groups (k : Nat) : Nat → List T → List (List T)
  | 0, _ => []
  | fuel+1, xs => if xs.isEmpty then [] else xs.take k :: groups k fuel (xs.drop k)

/-- the chunk sequence of an element sequence: `pack` for basic kinds, element roots otherwise. -/
def chunksOf (E : Elem T H) (xs : List T) : List H :=
  match E.pf with
  | some p => (groups p xs.length xs).map E.packHash
  | none => xs.map E.leafHash

/-- `chunk_count(type)`: the merkleization limit of `List[T, N]` / width of `Vector[T, N]`. -/
def chunkLimit (E : Elem T H) (N : Nat) : Nat :=
  match E.pf with
  | some p => (N + p - 1) / p
  | none => N

/-- one pairwise reduction layer. -/
def layerUp (A : HashAlg H) : List H → List H
  | a :: b :: rest => A.h2 a b :: layerUp A rest
  | _ => []

def iter (f : List H → List H) : Nat → List H → List H
  | 0, l => l
  | n+1, l => iter f n (f l)

/-- `merkleize(chunks, limit)` read literally: materialise the zero padding up to
`2^depth = next_pow_of_two(limit)` and reduce layer by layer. -/
def merkleizeNaive (A : HashAlg H) (chunks : List H) (depth : Nat) : H :=
  let padded := chunks ++ List.replicate (2 ^ depth - chunks.length) A.zero
  (iter (layerUp A) depth padded).headD A.zero

/-- The same function without materialising the padding (needed to *run* it for `N = 2^40`);
`merk_eq_naive` proves the two equal. -/
def merk (A : HashAlg H) : Nat → List H → H
  | d, [] => zeroHash A d
  | 0, c :: _ => c
  | d+1, cs@(_ :: _) => A.h2 (merk A d (cs.take (2 ^ d))) (merk A d (cs.drop (2 ^ d)))

/-- `next_pow_of_two(limit)` as an exponent. -/
def limitDepth (limit : Nat) : Nat := intLog limit

/-- `hash_tree_root` of `List[T, N]` holding `xs`. `mixIn` is `mix_in_length`. -/
def listRoot (E : Elem T H) (A : HashAlg H) (mixIn : H → Nat → H) (N : Nat) (xs : List T) : H :=
  mixIn (merk A (limitDepth (chunkLimit E N)) (chunksOf E xs)) xs.length

/-- `hash_tree_root` of `Vector[T, N]` holding `xs` (`xs.length = N`). -/
def vectorRoot (E : Elem T H) (A : HashAlg H) (N : Nat) (xs : List T) : H :=
  merk A (limitDepth (chunkLimit E N)) (chunksOf E xs)

/-! ## Closed form for a sequence of equal elements

`listRoot … (List.replicate n v)` cannot be *run* for `n = 2^43`. The chunk sequence of `n` copies
of `v` is `a = n / pf` copies of one full chunk `F`, then possibly one partial chunk, then zero
chunks, and its merkleization can be computed by doubling. `Proofs/RepRoot.lean` proves
`repRoot = listRoot ∘ replicate`; the driver uses `repRoot` for collections too long to materialise. -/

/-- `d`-fold doubling of a chunk: the root of a full subtree of depth `d` all of whose chunks are `F`. -/
def fullAt (A : HashAlg H) (F : H) : Nat → H
  | 0 => F
  | d+1 => let h := fullAt A F d; A.h2 h h

/-- root of the subtree of depth `d` whose chunks are `a` copies of `F`, then `tail` (if any), then
zero chunks (`a + (1 if tail) ≤ 2^d`). -/
def repMerk (A : HashAlg H) (F : H) (tail : Option H) : Nat → Nat → H
  | 0, a => if a ≥ 1 then F else tail.getD A.zero
  | d+1, a =>
    if a ≥ 2 ^ d then A.h2 (fullAt A F d) (repMerk A F tail d (a - 2 ^ d))
    else A.h2 (repMerk A F tail d a) (zeroHash A d)

/-- `hash_tree_root` of `List[T, N]` holding `n` copies of `v`, without building the list. -/
def repRoot (E : Elem T H) (A : HashAlg H) (mixIn : H → Nat → H) (N n : Nat) (v : T) : H :=
  let pfk := E.pf.getD 1
  let F : H := match E.pf with
    | some k => E.packHash (List.replicate k v)
    | none => E.leafHash v
  let tail : Option H := if n % pfk = 0 then none else some (E.packHash (List.replicate (n % pfk) v))
  mixIn (repMerk A F tail (limitDepth (chunkLimit E N)) (n / pfk)) n

end Milhouse.Spec
