def hello := "world"
