import Milhouse.Model.UpdateMap
/-!
# Tree reads and path-copying updates (`tree.rs:85-250`, `packed_leaf.rs:76-131`)
-/
namespace Milhouse
variable {T H : Type}

/-- `Tree::get_recursive` (`tree.rs:85-104`). `(index >> k) & 1` is `index / 2^k % 2`. -/
def getRec (pf : Option Nat) : Tree T → Nat → Nat → Option T
  | .leaf _ v, _, 0 => some v
  | .packed _ vs, i, 0 => vs[i % pf.getD 1]?
  | .node _ l r, i, d+1 =>
    if i / 2 ^ (d + pdOf pf) % 2 = 0 then getRec pf l i d else getRec pf r i d
  | _, _, _ => none

/-- `PackedLeaf::insert_mut` (`packed_leaf.rs:106-121`) on the value vector. -/
def packedInsert (vs : List T) (sub : Nat) (x : T) : Except Err (List T) :=
  if sub = vs.length then .ok (vs ++ [x])
  else if sub < vs.length then .ok (vs.set sub x)
  else .error (.packedLeafOutOfBounds sub vs.length)

/-- the loop of `PackedLeaf::update` (`packed_leaf.rs:86-104`): apply the in-range entries in
ascending key order, stopping at the first error. -/
def packedApply (p : Nat) : List T → List (Nat × T) → Except Err (List T)
  | vs, [] => .ok vs
  | vs, (k, x) :: rest =>
    match packedInsert vs (k % p) x with
    | .ok vs' => packedApply p vs' rest
    | .error e => .error e

/-- `Tree::with_updated_leaf` (`tree.rs:109-156`). The zero-splitting case allocates the shared
child `Zero(depth-1)` and a transient `Node` before recursing, as the Rust does. -/
def updLeaf (pf : Option Nat) (z : H) (i : Nat) (x : T) :
    Heap H → Tree T → Nat → Except Err (Tree T × Heap H)
  | h, .leaf _ _, 0 =>
    let (id, h) := h.alloc z
    .ok (.leaf id x, h)
  | h, .packed _ vs, 0 =>
    match packedInsert vs (i % pf.getD 1) x with
    | .ok vs' => let (id, h) := h.alloc z; .ok (.packed id vs', h)
    | .error e => .error e
  | h, .node _ l r, d+1 =>
    if i / 2 ^ (d + pdOf pf) % 2 = 0 then
      match updLeaf pf z i x h l d with
      | .ok (l', h) => let (id, h) := h.alloc z; .ok (.node id l' r, h)
      | .error e => .error e
    else
      match updLeaf pf z i x h r d with
      | .ok (r', h) => let (id, h) := h.alloc z; .ok (.node id l r', h)
      | .error e => .error e
  | h, .zero _ zd, 0 =>
    if zd = 0 then
      let (id, h) := h.alloc z
      match pf with
      | some _ => .ok (.packed id [x], h)
      | none => .ok (.leaf id x, h)
    else .error .updateLeafError
  | h, .zero _ zd, d+1 =>
    if zd = d+1 then
      let (zid, h) := h.alloc z
      let zt : Tree T := .zero zid d
      let (_, h) := h.alloc z   -- the transient `Node(new_zero, new_zero)`
      if i / 2 ^ (d + pdOf pf) % 2 = 0 then
        match updLeaf pf z i x h zt d with
        | .ok (l', h) => let (id, h) := h.alloc z; .ok (.node id l' zt, h)
        | .error e => .error e
      else
        match updLeaf pf z i x h zt d with
        | .ok (r', h) => let (id, h) := h.alloc z; .ok (.node id zt r', h)
        | .error e => .error e
    else .error .updateLeafError
  | _, _, _ => .error .updateLeafError

/-- `Tree::with_updated_leaves` (`tree.rs:158-237`) with `hashes = None` (the only value the
public API passes, `interface.rs:89`), so every rebuilt node starts with the zero memo. -/
def updLeaves (pf : Option Nat) (z : H) (m : UMap T) :
    Heap H → Tree T → Nat → Nat → Except Err (Tree T × Heap H)
  | h, .leaf _ _, pfx, 0 =>
    match m.get pfx with
    | some x => let (id, h) := h.alloc z; .ok (.leaf id x, h)
    | none => .error (.leafUpdateMissing pfx)
  | h, .packed _ vs, pfx, 0 =>
    let p := pf.getD 1
    match packedApply p vs (m.range pfx (pfx + p)) with
    | .ok vs' => let (id, h) := h.alloc z; .ok (.packed id vs', h)
    | .error e => .error e
  | h, .node _ l r, pfx, d+1 =>
    let rp := pfx ||| 2 ^ (d + pdOf pf)
    let rend := pfx + 2 ^ (d + 1 + pdOf pf)
    let hasL := m.hasInRange pfx rp
    let hasR := m.hasInRange rp rend
    if !hasL && !hasR then .error (.nodeUpdatesMissing pfx)
    else
      let resL : Except Err (Tree T × Heap H) :=
        if hasL then updLeaves pf z m h l pfx d else .ok (l, h)
      match resL with
      | .error e => .error e
      | .ok (l', h) =>
        let resR : Except Err (Tree T × Heap H) :=
          if hasR then updLeaves pf z m h r rp d else .ok (r, h)
        match resR with
        | .error e => .error e
        | .ok (r', h) => let (id, h) := h.alloc z; .ok (.node id l' r', h)
  | h, .zero _ zd, pfx, 0 =>
    if zd = 0 then
      match pf with
      | some p =>
        match packedApply p [] (m.range pfx (pfx + p)) with
        | .ok vs' => let (id, h) := h.alloc z; .ok (.packed id vs', h)
        | .error e => .error e
      | none =>
        match m.get pfx with
        | some x => let (id, h) := h.alloc z; .ok (.leaf id x, h)
        | none => .error (.leafUpdateMissing pfx)
    else .error .updateLeavesError
  | h, .zero _ zd, pfx, d+1 =>
    if zd = d+1 then
      let (zid, h) := h.alloc z
      let zt : Tree T := .zero zid d
      let (_, h) := h.alloc z   -- the transient `Node(new_zero, new_zero)`
      let rp := pfx ||| 2 ^ (d + pdOf pf)
      let rend := pfx + 2 ^ (d + 1 + pdOf pf)
      let hasL := m.hasInRange pfx rp
      let hasR := m.hasInRange rp rend
      if !hasL && !hasR then .error (.nodeUpdatesMissing pfx)
      else
        let resL : Except Err (Tree T × Heap H) :=
          if hasL then updLeaves pf z m h zt pfx d else .ok (zt, h)
        match resL with
        | .error e => .error e
        | .ok (l', h) =>
          let resR : Except Err (Tree T × Heap H) :=
            if hasR then updLeaves pf z m h zt rp d else .ok (zt, h)
          match resR with
          | .error e => .error e
          | .ok (r', h) => let (id, h) := h.alloc z; .ok (.node id l' r', h)
    else .error .updateLeavesError
  | _, _, _, _ => .error .updateLeavesError

end Milhouse
