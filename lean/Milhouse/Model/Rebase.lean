import Milhouse.Model.Repeat
/-!
# `Tree::rebase_on`, `Tree::intra_rebase`, `Tree::tree_hash` (`tree.rs:253-539`)
-/
namespace Milhouse
variable {T H : Type}

/-- `RebaseAction` (`tree.rs:253-262`). `equalReplace` carries the base node. -/
inductive RebaseAction (T : Type) where
  | notEqualNoop
  | notEqualReplace (t : Tree T)
  | equalNoop
  | equalReplace (t : Tree T)
  deriving Repr

/-- `Tree::rebase_on` (`tree.rs:270-408`). `lengths = none` for vectors. New nodes copy the memo
of the node they replace (`hash: RwLock::new(orig_hash)`). -/
def rebaseOn [DecidableEq T] [DecidableEq H] (z : H) :
    Heap H → Tree T → Tree T → Option (Nat × Nat) → Nat → Except Err (RebaseAction T × Heap H)
  | h, orig, base, lengths, fullDepth =>
    if orig.id = base.id then .ok (.equalNoop, h)   -- `Arc::ptr_eq`
    else
      match orig, base, fullDepth with
      | .leaf _ v1, .leaf _ v2, _ =>
        if v1 = v2 then .ok (.equalReplace base, h) else .ok (.notEqualNoop, h)
      | .packed _ vs1, .packed _ vs2, _ =>
        if vs1 = vs2 then .ok (.equalReplace base, h) else .ok (.notEqualNoop, h)
      | .zero _ z1, .zero _ z2, _ =>
        if z1 = z2 then .ok (.equalReplace base, h)
        else .ok (.notEqualNoop, h)
      | .node oid l1 r1, .node bid l2 r2, fd+1 =>
        let origHash := h.read z oid
        let baseHash := h.read z bid
        let lengthsEq := match lengths with
          | none => true
          | some (ol, bl) => ol == bl
        if origHash ≠ z ∧ origHash = baseHash ∧ lengthsEq = true then .ok (.equalReplace base, h)
        else
          let (leftLengths, rightLengths) : Option (Nat × Nat) × Option (Nat × Nat) :=
            match lengths with
            | none => (none, none)
            | some (ol, bl) =>
              let maxLeft := 2 ^ fd
              let oll := min ol maxLeft
              let bll := min bl maxLeft
              (some (oll, bll), some (ol - oll, bl - bll))
          match rebaseOn z h l1 l2 leftLengths fd with
          | .error e => .error e
          | .ok (la, h) =>
            match rebaseOn z h r1 r2 rightLengths fd with
            | .error e => .error e
            | .ok (ra, h) =>
              let mk (h : Heap H) (l r : Tree T) : Except Err (RebaseAction T × Heap H) :=
                let (id, h) := h.alloc origHash
                .ok (.notEqualReplace (.node id l r), h)
              match la, ra with
              | .notEqualNoop, .notEqualNoop => .ok (.notEqualNoop, h)
              | .notEqualNoop, .equalNoop => .ok (.notEqualNoop, h)
              | .equalNoop, .notEqualNoop => .ok (.notEqualNoop, h)
              | .equalNoop, .equalNoop => .ok (.equalNoop, h)
              | .notEqualNoop, .notEqualReplace nr => mk h l1 nr
              | .equalNoop, .notEqualReplace nr => mk h l1 nr
              | .notEqualNoop, .equalReplace nr => mk h l1 nr
              | .equalNoop, .equalReplace nr => mk h l1 nr
              | .notEqualReplace nl, .notEqualNoop => mk h nl r1
              | .notEqualReplace nl, .equalNoop => mk h nl r1
              | .notEqualReplace nl, .notEqualReplace nr => mk h nl nr
              | .notEqualReplace nl, .equalReplace nr => mk h nl nr
              | .equalReplace nl, .notEqualNoop => mk h nl r1
              | .equalReplace nl, .notEqualReplace nr => mk h nl nr
              | .equalReplace _, .equalReplace _ => .ok (.equalReplace base, h)
              | .equalReplace _, .equalNoop => .ok (.equalReplace base, h)
      | .zero _ _, _, _ => .ok (.notEqualNoop, h)
      | _, .zero _ _, _ => .ok (.notEqualNoop, h)
      | .node _ _ _, .node _ _ _, _ => .error .invalidRebaseNode
      | _, _, _ => .error .invalidRebaseLeaf

/-- `Tree::tree_hash` (`tree.rs:494-539`), sequential: the memo is read, and if it is absent the
children are hashed and the result is written back. Leaves recompute when the memo is zero. -/
def treeHash [DecidableEq H] (E : Elem T H) (A : HashAlg H) : Heap H → Tree T → H × Heap H
  | h, .leaf id v =>
    let existing := h.read A.zero id
    if existing ≠ A.zero then (existing, h)
    else let x := E.leafHash v; (x, h.write id x)
  | h, .packed id vs =>
    let existing := h.read A.zero id
    if existing ≠ A.zero then (existing, h)
    else let x := E.packHash vs; (x, h.write id x)
  | h, .zero _ d => (zeroHash A d, h)
  | h, .node id l r =>
    let existing := h.read A.zero id
    if existing ≠ A.zero then (existing, h)
    else
      let (lh, h) := treeHash E A h l
      let (rh, h) := treeHash E A h r
      let x := A.h2 lh rh
      (x, h.write id x)

/-- The memo-free Merkle hash of a tree: what every memo must equal when present. -/
def trueHash (E : Elem T H) (A : HashAlg H) : Tree T → H
  | .leaf _ v => E.leafHash v
  | .packed _ vs => E.packHash vs
  | .zero _ d => zeroHash A d
  | .node _ l r => A.h2 (trueHash E A l) (trueHash E A r)

/-- `IntraRebaseAction` (`tree.rs:264-267`). -/
inductive IntraAction (T : Type) where
  | noop
  | replace (t : Tree T)
  deriving Repr

/-- `known_subtrees: HashMap<(usize, Hash256), Arc<Tree>>` as an association list. -/
abbrev Known (T H : Type) := List ((Nat × H) × Tree T)

def Known.get? [DecidableEq H] (k : Known T H) (d : Nat) (x : H) : Option (Tree T) :=
  match k with
  | [] => none
  | ((d', x'), t) :: rest => if d = d' ∧ x = x' then some t else Known.get? rest d x

/-- `Tree::intra_rebase` (`tree.rs`, with the `fix:` commits for F2 and F7): `length` is the
number of elements under `orig`; only *full* subtrees are looked up in / added to `known`; every
visited node is hashed with `tree_hash` (cached hash, or computed and cached). -/
def intraRebase [DecidableEq H] (E : Elem T H) (A : HashAlg H) :
    Heap H → Known T H → Tree T → Nat → Nat → Except Err (IntraAction T × Known T H × Heap H)
  | h, known, .leaf _ _, _, _ => .ok (.noop, known, h)
  | h, known, .packed _ _, _, _ => .ok (.noop, known, h)
  | h, known, .zero _ _, _, _ => .ok (.noop, known, h)
  | _, _, .node _ _ _, 0, _ => .error .intraRebaseZeroDepth
  | h, known, orig@(.node _ l r), d+1, length =>
    let (hash, h) := treeHash E A h orig
    if hash = A.zero then .error .intraRebaseZeroHash
    else
      let maxLeft := 2 ^ (d + pdOf E.pf)
      let leftLength := min length maxLeft
      let rightLength := length - leftLength
      let full := rightLength == maxLeft
      match (if full then Known.get? known (d+1) hash else none) with
      | some t => .ok (.replace t, known, h)
      | none =>
        match intraRebase E A h known l d leftLength with
        | .error e => .error e
        | .ok (la, known, h) =>
          match intraRebase E A h known r d rightLength with
          | .error e => .error e
          | .ok (ra, known, h) =>
            let res : IntraAction T × Heap H :=
              match la, ra with
              | .noop, .noop => (.noop, h)
              | .noop, .replace nr => let (nid, h) := h.alloc hash; (.replace (.node nid l nr), h)
              | .replace nl, .noop => let (nid, h) := h.alloc hash; (.replace (.node nid nl r), h)
              | .replace nl, .replace nr =>
                let (nid, h) := h.alloc hash; (.replace (.node nid nl nr), h)
            let (action, h) := res
            if full then
              let newSubtree := match action with
                | .noop => orig
                | .replace t => t
              match Known.get? known (d+1) hash with
              | some _ => .error .intraRebaseRepeatVisit
              | none => .ok (action, ((d+1, hash), newSubtree) :: known, h)
            else .ok (action, known, h)

end Milhouse
