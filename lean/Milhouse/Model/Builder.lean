import Milhouse.Model.Iter
/-!
# Bottom-up builder (`builder.rs`)

`MaybeArced::Unarced` items get their node identity when created instead of when `arced()` is
called: the number of allocations and the resulting graph are the same, only the numbering
differs, and identities are compared up to renaming. The flag records `Unarced`, which
`Builder::push` inspects (`builder.rs:51`).
-/
namespace Milhouse
variable {T H : Type}

structure Builder (T : Type) where
  /-- top first; `true` = `MaybeArced::Unarced` -/
  stack : List (Tree T × Bool)
  depth : Nat
  level : Nat
  length : Nat
  pf : Option Nat
  deriving Repr

namespace Builder

def pd (b : Builder T) : Nat := pdOf b.pf
/-- cached `capacity` (`builder.rs:19`). -/
def capacity (b : Builder T) : Nat := 2 ^ (b.depth + b.pd)

/-- `Builder::new` (`builder.rs:22-37`). -/
def new (pf : Option Nat) (depth level : Nat) : Except Err (Builder T) :=
  if depth + pdOf pf > maxTreeDepth then .error (.builderInvalidDepth depth)
  else .ok ⟨[], depth, level, 0, pf⟩

/-- the merge loop of `push` (`builder.rs:65-69`): pop `n` left siblings, error if one is missing. -/
def mergeStrict (z : H) : Nat → Heap H → Tree T → List (Tree T × Bool) →
    Except Err (Tree T × List (Tree T × Bool) × Heap H)
  | 0, h, top, st => .ok (top, st, h)
  | n+1, h, top, st =>
    match st with
    | [] => .error .builderStackEmptyMerge
    | (left, _) :: st' =>
      let (id, h) := h.alloc z
      mergeStrict z n h (.node id left top) st'

/-- the merge loop of `push_node` (`builder.rs:96-101`): a missing left sibling is skipped. The
flag tells whether the result is still the `Arced` argument. -/
def mergeLax (z : H) : Nat → Heap H → Tree T × Bool → List (Tree T × Bool) →
    (Tree T × Bool) × List (Tree T × Bool) × Heap H
  | 0, h, top, st => (top, st, h)
  | n+1, h, top, st =>
    match st with
    | [] => mergeLax z n h top []
    | (left, _) :: st' =>
      let (id, h) := h.alloc z
      mergeLax z n h (.node id left top.1, true) st'

/-- `Builder::push` (`builder.rs:39-74`). -/
def push (z : H) (b : Builder T) (h : Heap H) (x : T) : Except Err (Builder T × Heap H) :=
  if b.length = b.capacity then .error .builderFull
  else
    let index := b.length
    let nextIndex := index + 1
    let start : Except Err (Tree T × List (Tree T × Bool) × Heap H) :=
      match b.pf with
      | some p =>
        if p = 0 then .error .panic
        else if index % p = 0 then
          let (id, h) := h.alloc z
          .ok (.packed id [x], b.stack, h)
        else
          match b.stack with
          | (.packed id vs, true) :: st =>
            if vs.length = p then .error (.packedLeafFull vs.length)
            else .ok (.packed id (vs ++ [x]), st, h)
          | _ => .error .builderExpectedLeaf
      | none =>
        let (id, h) := h.alloc z
        .ok (.leaf id x, b.stack, h)
    match start with
    | .error e => .error e
    | .ok (top, st, h) =>
      match mergeStrict z (tz nextIndex - b.pd) h top st with
      | .error e => .error e
      | .ok (top, st, h) =>
        .ok ({ b with stack := (top, true) :: st, length := b.length + 1 }, h)

/-- `Builder::push_node` (`builder.rs:76-108`). -/
def pushNode (z : H) (b : Builder T) (h : Heap H) (node : Tree T) (len : Nat) :
    Except Err (Builder T × Heap H) :=
  if b.length = b.capacity then .error .builderFull
  else
    let nextIndexOnLevel := b.length / 2 ^ b.level + 1
    let merges := if b.level = 0 then tz nextIndexOnLevel - b.pd else tz nextIndexOnLevel
    let (top, st, h) := mergeLax z merges h (node, false) b.stack
    .ok ({ b with stack := top :: st, length := b.length + len }, h)

/-- first loop of `finish` (`builder.rs:128-140`): merge the partial packed leaf with its left
siblings while bit `i + pd` of `next` is set. `n` counts the remaining values of `i`. -/
def finishPackedMerge (z : H) (b : Builder T) (next : Nat) :
    Nat → Nat → Heap H → List (Tree T × Bool) → Except Err (List (Tree T × Bool) × Heap H)
  | 0, _, h, st => .ok (st, h)
  | n+1, i, h, st =>
    if next / 2 ^ (i + b.pd) % 2 = 1 then
      match st with
      | [] => .error .builderStackEmptyMergeRight
      | (right, _) :: st1 =>
        match st1 with
        | [] => .error .builderStackEmptyMergeLeft
        | (left, _) :: st2 =>
          let (id, h) := h.alloc z
          finishPackedMerge z b next n (i+1) h ((.node id left right, true) :: st2)
    else .ok (st, h)

/-- inner loop of the padding loop (`builder.rs:158-173`). -/
def finishMergeUp (z : H) (b : Builder T) (next : Nat) :
    Nat → Nat → Heap H → List (Tree T × Bool) → Except Err (List (Tree T × Bool) × Heap H)
  | 0, _, h, st => .ok (st, h)
  | n+1, i, h, st =>
    if (next * 2 ^ b.level) / 2 ^ (i + b.pd) % 2 = 1 then
      match st with
      | [] => .error .builderStackEmptyFinishRight
      | (right, _) :: st1 =>
        match st1 with
        | [] => .error .builderStackEmptyFinishLeft
        | (left, _) :: st2 =>
          let (id, h) := h.alloc z
          finishMergeUp z b next n (i+1) h ((.node id left right, true) :: st2)
    else .ok (st, h)

/-- the padding loop `while next_index_on_level << level != capacity` (`builder.rs:144-176`).
Running out of `fuel` stands for the Rust not terminating / overflowing on a builder that was
driven outside its contract; it is unreachable for builders fed as `List` feeds them. -/
def finishPad (z : H) (b : Builder T) :
    Nat → Nat → Heap H → List (Tree T × Bool) → Except Err (List (Tree T × Bool) × Heap H)
  | 0, _, _, _ => .error .panic
  | fuel+1, next, h, st =>
    if next * 2 ^ b.level = b.capacity then .ok (st, h)
    else
      let depth := tz next + b.level - b.pd
      match st with
      | [] => .error .builderStackEmptyFinish
      | (top, _) :: st1 =>
        let (zid, h) := h.alloc z
        let (id, h) := h.alloc z
        let st2 := (Tree.node id top (.zero zid depth), true) :: st1
        match finishMergeUp z b next (b.depth - (depth + 1)) (depth + 1) h st2 with
        | .error e => .error e
        | .ok (st3, h) =>
          if depth + b.pd < b.level then .error .panic   -- usize underflow in the exponent
          else finishPad z b fuel (next + 2 ^ (depth + b.pd - b.level)) h st3

/-- `Builder::finish` (`builder.rs:110-187`); returns `(tree, depth, length)`. -/
def finish (z : H) (b : Builder T) (h : Heap H) : Except Err ((Tree T × Nat × Nat) × Heap H) :=
  match b.stack with
  | [] => let (id, h) := h.alloc z; .ok ((.zero id b.depth, b.depth, 0), h)
  | _ :: _ =>
    let levelCapacity := 2 ^ b.level
    let next0 := (b.length + levelCapacity - 1) / levelCapacity
    let stage1 : Except Err (Nat × List (Tree T × Bool) × Heap H) :=
      match b.pf with
      | some p =>
        if p = 0 then .error .panic
        else
          let skip := (p - b.length % p) % p
          if skip > 0 && b.level = 0 then
            match finishPackedMerge z b next0 b.depth 0 h b.stack with
            | .error e => .error e
            | .ok (st, h) => .ok (next0 + skip, st, h)
          else .ok (next0, b.stack, h)
      | none => .ok (next0, b.stack, h)
    match stage1 with
    | .error e => .error e
    | .ok (next, st, h) =>
      match finishPad z b 130 next h st with
      | .error e => .error e
      | .ok (st, h) =>
        match st with
        | [] => .error .builderStackEmptyFinalize
        | (tree, _) :: rest =>
          if rest.isEmpty then .ok ((tree, b.depth, b.length), h)
          else .error .builderStackLeftover

end Builder
end Milhouse
