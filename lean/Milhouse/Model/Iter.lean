import Milhouse.Model.TreeOps
/-!
# Stack-machine iterators (`iter.rs`, `level_iter.rs`, `interface_iter.rs`)
-/
namespace Milhouse
variable {T : Type}

/-- The mutable part of `Iter` (`iter.rs:6-22`): `stack` (top first) and `index`. -/
structure IterState (T : Type) where
  stack : List (Tree T)
  index : Nat
  deriving Repr

/-- `Iter::from_index` (`iter.rs:24-38`). -/
def Iter.fromIndex (index : Nat) (root : Tree T) : IterState T := ⟨[root], index⟩

/-- `Iter::next` (`iter.rs:43-99`). `fuel` bounds the `self.next()` self-calls (one per level);
exhausting it cannot happen for `fuel > fullDepth` and is reported as a panic. The `expect` at
`iter.rs:71-75` is a panic outcome. -/
def Iter.next (pf : Option Nat) (fullDepth length : Nat) :
    Nat → IterState T → Except Err (Option T × IterState T)
  | 0, _ => .error .panic
  | fuel+1, s =>
    if s.index ≥ length then .ok (none, s)
    else
      match s.stack with
      | [] => .ok (none, s)
      | .zero _ _ :: _ => .ok (none, s)
      | .leaf _ v :: _ =>
        let index := s.index + 1
        .ok (some v, ⟨s.stack.drop (tz index + 1), index⟩)
      | .packed _ vs :: _ =>
        let p := pf.getD 0
        if p = 0 then .error .panic   -- `% 0`
        else
          let sub := s.index % p
          let result := vs[sub]?
          let index := s.index + 1
          if sub + 1 = p then
            if tz index < pdOf pf then .error .panic
            else .ok (result, ⟨s.stack.drop (tz index - pdOf pf + 1), index⟩)
          else .ok (result, ⟨s.stack, index⟩)
      | .node _ l r :: _ =>
        if fullDepth < s.stack.length then .error .panic   -- usize underflow
        else
          let depth := fullDepth - s.stack.length
          if s.index / 2 ^ (depth + pdOf pf) % 2 = 0 then
            Iter.next pf fullDepth length fuel ⟨l :: s.stack, s.index⟩
          else
            Iter.next pf fullDepth length fuel ⟨r :: s.stack, s.index⟩

/-- Item yielded by `LevelIter` (`level_iter.rs:35-39`). -/
inductive LevelNode (T : Type) where
  | internal (t : Tree T)
  | packedLeaf (v : T)
  deriving Repr

/-- `LevelIter::next` (`level_iter.rs:65-161`). `debug_assert!`s are panic outcomes (the harness
builds with debug assertions, like the repository's own test profile). -/
def LevelIter.next (pf : Option Nat) (fullDepth level length : Nat) :
    Nat → IterState T → Except Err (Option (LevelNode T) × IterState T)
  | 0, _ => .error .panic
  | fuel+1, s =>
    if s.index ≥ length then .ok (none, s)
    else
      let pd := pdOf pf
      match s.stack with
      | [] => .ok (none, s)
      | .zero _ _ :: _ => .ok (none, s)
      | node@(.leaf _ _) :: _ =>
        if level ≠ 0 then .error .panic
        else
          let index := s.index + 1
          .ok (some (.internal node), ⟨s.stack.drop (tz index + 1), index⟩)
      | node@(.packed _ vs) :: _ =>
        -- `full_depth + packing_depth + 1 - stack.len()`
        if fullDepth + pd + 1 < s.stack.length then .error .panic
        else
          let nodeDepth := fullDepth + pd + 1 - s.stack.length
          if nodeDepth = level then
            let index := s.index + 2 ^ level
            if tz index < level then .error .panic
            else .ok (some (.internal node), ⟨s.stack.drop (tz index + 1 - level), index⟩)
          else
            let p := pf.getD 0
            if p = 0 then .error .panic
            else
              let sub := s.index % p
              let result := (vs[sub]?).map LevelNode.packedLeaf
              if level ≠ 0 then .error .panic
              else
                let index := s.index + 1
                if sub + 1 = p then
                  if tz index < pd then .error .panic
                  else .ok (result, ⟨s.stack.drop (tz index - pd + 1), index⟩)
                else .ok (result, ⟨s.stack, index⟩)
      | node@(.node _ l r) :: _ =>
        if fullDepth + pd < s.stack.length then .error .panic
        else
          let childDepth := fullDepth + pd - s.stack.length
          let nodeDepth := childDepth + 1
          if nodeDepth = level then
            let index := s.index + 2 ^ level
            if tz index < level then .error .panic
            else .ok (some (.internal node), ⟨s.stack.drop (tz index + 1 - level), index⟩)
          else if s.index / 2 ^ childDepth % 2 = 0 then
            LevelIter.next pf fullDepth level length fuel ⟨l :: s.stack, s.index⟩
          else
            LevelIter.next pf fullDepth level length fuel ⟨r :: s.stack, s.index⟩

/-- Drain a `LevelIter`: every item until the first `None`. `n` bounds the number of items. -/
def LevelIter.collect (pf : Option Nat) (fullDepth level length : Nat) :
    Nat → IterState T → Except Err (List (LevelNode T))
  | 0, _ => .ok []
  | n+1, s =>
    match LevelIter.next pf fullDepth level length (fullDepth + 2) s with
    | .error e => .error e
    | .ok (none, _) => .ok []
    | .ok (some x, s') =>
      match LevelIter.collect pf fullDepth level length n s' with
      | .error e => .error e
      | .ok xs => .ok (x :: xs)

end Milhouse
