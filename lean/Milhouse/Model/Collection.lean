import Milhouse.Model.Rebase
/-!
# `List` / `Vector` and the pending-write `Interface`
(`interface.rs`, `interface_iter.rs`, `list.rs`, `vector.rs`, `utils.rs:86-90`)

A `Coll` is a `List<T,N,U>` or a `Vector<T,N,U>`: an `Interface { backing, updates }` whose
backing holds the tree root, the cached length (lists; a vector answers `N`), and the depth.
-/
namespace Milhouse
variable {T H : Type}

inductive CKind where
  | list | vector
  deriving DecidableEq, Repr, Inhabited

/-- Static configuration: the type parameters `N` and `U`. -/
structure Cfg where
  N : Nat
  map : MapKind
  deriving Repr, Inhabited

structure Coll (T : Type) where
  kind : CKind
  tree : Tree T
  /-- `ListInner::length`; for a vector the model keeps `N` here (`VectorInner::len`). -/
  length : Nat
  depth : Nat
  updates : UMap T
  deriving Repr, Inhabited

/-- `List::depth()` (`list.rs:184-190`). -/
def listDepth (pf : Option Nat) (N : Nat) : Nat :=
  match pf with
  | some p => intLog N - intLog p
  | none => intLog N

namespace Coll

/-- `updated_length` (`utils.rs:86-90`) and `Interface::len` (`interface.rs:129-131`).
`max_idx + 1` overflows for `usize::MAX`; callers below guard that case. -/
def len (c : Coll T) : Nat :=
  match c.updates.maxIndex with
  | none => c.length
  | some mx => max (mx + 1) c.length

def isEmpty (c : Coll T) : Bool := c.len == 0

def hasPending (c : Coll T) : Bool := !c.updates.isEmpty

/-- `ImmList::get` of the backing (`list.rs:241-248`, `vector.rs:198-206`). -/
def backingGet (pf : Option Nat) (c : Coll T) (i : Nat) : Option T :=
  if i < c.length then getRec pf c.tree i c.depth else none

/-- `Interface::get` (`interface.rs:64-66`): the overlay first. -/
def get (pf : Option Nat) (c : Coll T) (i : Nat) : Option T :=
  match c.updates.get i with
  | some x => some x
  | none => c.backingGet pf i

/-- `get_mut(i)` then `*r = x` (`interface.rs:68-71`). Returns the value seen through the
reference before the write. -/
def getMutSet (pf : Option Nat) (c : Coll T) (i : Nat) (x : T) : Option (T × Coll T) :=
  match c.updates.getMutSet i (c.backingGet pf i) x with
  | some (old, u) => some (old, { c with updates := u })
  | none => none

/-- `get_cow(i)` followed by `act` (`interface.rs:73-76`, `cow.rs`). Returns the value read
through the handle first. -/
def getCow (pf : Option Nat) (c : Coll T) (i : Nat) (act : CowAct T) : Option (T × Coll T) :=
  let cur : Option T :=
    match c.updates.get i with
    | some x => some x
    | none => c.backingGet pf i
  match cur with
  | none => none
  | some old =>
    match act with
    | .read => some (old, c)
    | .intoMut x => some (old, { c with updates := c.updates.insertEntry i x })
    | .makeMut x => some (old, { c with updates := c.updates.insertEntry i x })
    | .makeMut2 _ y => some (old, { c with updates := c.updates.insertEntry i y })

/-- `Interface::push` with `validate_push` (`interface.rs:78-84`, `list.rs:269-275`,
`vector.rs:224-226`). -/
def push (cfg : Cfg) (c : Coll T) (x : T) : Except Err (Coll T) :=
  match c.kind with
  | .vector => .error .pushNotSupported
  | .list =>
    let index := c.len
    if index = cfg.N then .error (.listFull index)
    else .ok { c with updates := c.updates.insert index x }

/-- `MutList::update` (`list.rs`, `vector.rs`): validate the largest key, then (lists) assign the
new length, then rebuild the tree. The length is assigned *before* the tree update, so it stays
changed if the tree update fails. -/
def backingUpdate (pf : Option Nat) (z : H) (cfg : Cfg) (c : Coll T) (u : UMap T) (h : Heap H) :
    (Except Err Unit) × Coll T × Heap H :=
  match u.maxIndex with
  | none => (.ok (), c, h)
  | some mx =>
    match c.kind with
    | .list =>
      if mx ≥ cfg.N then (.error .invalidListUpdate, c, h)
      else
        let c1 := { c with length := max (mx + 1) c.length }
        match updLeaves pf z u h c.tree 0 c.depth with
        | .error e => (.error e, c1, h)
        | .ok (t, h) => (.ok (), { c1 with tree := t }, h)
    | .vector =>
      if mx ≥ c.length then (.error .invalidVectorUpdate, c, h)
      else
        match updLeaves pf z u h c.tree 0 c.depth with
        | .error e => (.error e, c, h)
        | .ok (t, h) => (.ok (), { c with tree := t }, h)

/-- `Interface::apply_updates` (`interface.rs:86-93`): the map is taken first, so it is gone
even if the update fails. Returns the collection in both cases. -/
def applyUpdates (pf : Option Nat) (z : H) (cfg : Cfg) (c : Coll T) (h : Heap H) :
    (Except Err Unit) × Coll T × Heap H :=
  if c.updates.isEmpty then (.ok (), c, h)
  else
    let u := c.updates
    let c0 := { c with updates := UMap.empty cfg.map }
    backingUpdate pf z cfg c0 u h

/-- The contiguity check of `List::bulk_update` (`fix:` commits for F3 and F8): keys at or
beyond the backing length must extend it without gaps. Returns the first offending
`(index, next)`. -/
def gapCheck : Nat → List (Nat × T) → Option (Nat × Nat)
  | _, [] => none
  | next, (k, _) :: rest => if k = next then gapCheck (next+1) rest else some (k, next)

/-- the same walk with the additional bound of the `fix:` for F8: a visited key must not exceed
`max_index()` (a `MaxMap` filled through `get_mut_with` under-reports its largest key). -/
def gapCheckMax (mx : Nat) : Nat → List (Nat × T) → Option (Nat × Nat)
  | _, [] => none
  | next, (k, _) :: rest =>
    if k = next ∧ k ≤ mx then gapCheckMax mx (next+1) rest else some (k, next)

/-- `List::bulk_update` (`list.rs` + `interface.rs:137-143`, with the `fix:` commits for F3 and
F8, F9): every key at or beyond the backing length is visited (`for_each_range(len, usize::MAX)`;
the excluded end `usize::MAX` is checked separately). -/
def bulkUpdate (cfg : Cfg) (c : Coll T) (u : UMap T) : Except Err (Coll T) :=
  if c.hasPending then .error .bulkUpdateUnclean
  else
    match u.maxIndex with
    | none => .ok { c with updates := u }
    | some mx =>
      if mx ≥ cfg.N then .error .invalidListUpdate
      else if (u.get (2 ^ 64 - 1)).isSome then .error .invalidListUpdate   -- the key `usize::MAX`
      else
        match gapCheckMax mx c.length (u.range c.length (2 ^ 64 - 1)) with
        | some (index, next) => .error (.outOfBoundsUpdate index next)
        | none => .ok { c with updates := u }

/-- `InterfaceIter` (`interface_iter.rs:5-35`) drained: before each `next` the remaining size
(`ExactSizeIterator::len`) is recorded; iteration stops at the first `None`. `n` bounds the
number of items. -/
def iterCollect (pf : Option Nat) (c : Coll T) (total : Nat) :
    Nat → Nat → IterState T → Except Err (List (Nat × T) × Nat)
  | 0, index, _ => .ok ([], total - index)
  | n+1, index, s =>
    match Iter.next pf c.depth c.length (c.depth + 2) s with
    | .error e => .error e
    | .ok (backingValue, s') =>
      let v := match c.updates.get index with
        | some x => some x
        | none => backingValue
      match v with
      | none => .ok ([], total - index)
      | some x =>
        match iterCollect pf c total n (index+1) s' with
        | .error e => .error e
        | .ok (rest, fin) => .ok ((total - index, x) :: rest, fin)

/-- `Interface::iter_from` drained (`interface.rs:99-106`): the items with the size hint before
each, and the size hint at the end. -/
def iterFromRaw (pf : Option Nat) (c : Coll T) (index : Nat) : Except Err (List (Nat × T) × Nat) :=
  iterCollect pf c c.len (c.len + 1 - index) index (Iter.fromIndex index c.tree)

/-- `List::iter_from` / `Vector::iter_from` (`list.rs:109-118`, `vector.rs:72-80`). -/
def iterFrom (pf : Option Nat) (c : Coll T) (index : Nat) : Except Err (List (Nat × T) × Nat) :=
  if index > c.len then .error (.outOfBoundsIterFrom index c.len)
  else c.iterFromRaw pf index

/-- `to_vec` (`list.rs:101-103`). -/
def toVec (pf : Option Nat) (c : Coll T) : Except Err (List T) :=
  match c.iterFromRaw pf 0 with
  | .error e => .error e
  | .ok (items, _) => .ok (items.map (·.2))

/-- `iter_cow` drained with a policy (`interface_iter.rs:37-54`): `next_cow` until `None`; the
handle at index `i` is made mutable and set to `f i old` when that is `some`. -/
def iterCow (pf : Option Nat) (c : Coll T) (f : Nat → T → Option T) :
    Nat → Nat → IterState T → UMap T → Except Err (List (Nat × T) × UMap T)
  | 0, _, _, u => .ok ([], u)
  | n+1, index, s, u =>
    match Iter.next pf c.depth c.length (c.depth + 2) s with
    | .error e => .error e
    | .ok (backingValue, s') =>
      let cur := match u.get index with
        | some x => some x
        | none => backingValue
      match cur with
      | none => .ok ([], u)
      | some old =>
        let u' := match f index old with
          | some x => u.insertEntry index x
          | none => u
        match iterCow pf c f n (index+1) s' u' with
        | .error e => .error e
        | .ok (rest, uf) => .ok ((index, old) :: rest, uf)

/-- `List::level_iter_from` drained (`list.rs:121-130`, `interface.rs:117-123`). -/
def levelIterFrom (pf : Option Nat) (c : Coll T) (index : Nat) : Except Err (List (LevelNode T)) :=
  if index > c.len then .error (.outOfBoundsIterFrom index c.len)
  else if c.hasPending then .error .levelIterPendingUpdates
  else
    let level := computeLevel index c.depth (pdOf pf)
    LevelIter.collect pf c.depth level c.length (c.length + 1) (Iter.fromIndex index c.tree)

/-- `List::from_parts` (`list.rs:48-59`). -/
def fromParts (cfg : Cfg) (tree : Tree T) (depth length : Nat) : Coll T :=
  ⟨.list, tree, length, depth, UMap.empty cfg.map⟩

/-- `List::empty` (`list.rs:61-66`). -/
def empty (pf : Option Nat) (z : H) (cfg : Cfg) (h : Heap H) : Coll T × Heap H :=
  let d := listDepth pf cfg.N
  let (id, h) := h.alloc z
  (fromParts cfg (.zero id d) d 0, h)

def pushAll (z : H) : Builder T → Heap H → List T → Except Err (Builder T × Heap H)
  | b, h, [] => .ok (b, h)
  | b, h, x :: xs =>
    match b.push z h x with
    | .error e => .error e
    | .ok (b, h) => pushAll z b h xs

/-- `List::try_from_iter` (`list.rs:80-96`). -/
def tryFromIter (pf : Option Nat) (z : H) (cfg : Cfg) (xs : List T) (h : Heap H) :
    Except Err (Coll T × Heap H) :=
  match Builder.new pf (listDepth pf cfg.N) 0 with
  | .error e => .error e
  | .ok b =>
    match pushAll z b h xs with
    | .error e => .error e
    | .ok (b, h) =>
      match b.finish z h with
      | .error e => .error e
      | .ok ((tree, depth, length), h) =>
        if length > cfg.N then .error .builderFull
        else .ok (fromParts cfg tree depth length, h)

def pushAllSlow (cfg : Cfg) : Coll T → List T → Except Err (Coll T)
  | c, [] => .ok c
  | c, x :: xs =>
    match c.push cfg x with
    | .error e => .error e
    | .ok c => pushAllSlow cfg c xs

/-- `List::try_from_iter_slow` (`list.rs:98-111`). -/
def tryFromIterSlow (pf : Option Nat) (z : H) (cfg : Cfg) (xs : List T) (h : Heap H) :
    Except Err (Coll T × Heap H) :=
  let (c, h) := empty pf z cfg h
  match pushAllSlow cfg c xs with
  | .error e => .error e
  | .ok c =>
    match c.applyUpdates pf z cfg h with
    | (.error e, _, _) => .error e
    | (.ok (), c, h) => .ok (c, h)

/-- `List::repeat` (`list.rs:68-70`, `repeat.rs`). -/
def repeat_ (pf : Option Nat) (z : H) (cfg : Cfg) (x : T) (n : Nat) (h : Heap H) :
    Except Err (Coll T × Heap H) :=
  if n = 0 then .ok (empty pf z cfg h)
  else
    let d := listDepth pf cfg.N
    match repeatTree pf z cfg.N d x n h with
    | .error e => .error e
    | .ok (root, h) => .ok (fromParts cfg root d n, h)

/-- `TryFrom<List> for Vector` (`vector.rs:112-138`, with the `fix:` for F4: pending writes are
flushed so that the vector's tree holds all `N` elements). -/
def toVector (pf : Option Nat) (z : H) (cfg : Cfg) (c : Coll T) (h : Heap H) :
    Except Err (Coll T × Heap H) :=
  if c.len = cfg.N then
    match c.applyUpdates pf z cfg h with
    | (.error e, _, _) => .error e
    | (.ok (), c, h) => .ok ({ c with kind := .vector, length := cfg.N }, h)
  else .error (.wrongVectorLength c.len cfg.N)

/-- `From<Vector> for List` (`vector.rs:184-194`). -/
def toList (cfg : Cfg) (c : Coll T) : Coll T :=
  { c with kind := .list, length := cfg.N }

/-- `Vector::new` (`vector.rs:45-55`). -/
def vectorNew (pf : Option Nat) (z : H) (cfg : Cfg) (xs : List T) (h : Heap H) :
    Except Err (Coll T × Heap H) :=
  if xs.length = cfg.N then
    match tryFromIter pf z cfg xs h with
    | .error e => .error e
    | .ok (c, h) => toVector pf z cfg c h
  else .error (.wrongVectorLength xs.length cfg.N)

/-- `Vector::try_from_iter` (`vector.rs:61-63`). -/
def vectorFromIter (pf : Option Nat) (z : H) (cfg : Cfg) (xs : List T) (h : Heap H) :
    Except Err (Coll T × Heap H) :=
  match tryFromIter pf z cfg xs h with
  | .error e => .error e
  | .ok (c, h) => toVector pf z cfg c h

/-- `Vector::from_elem` (`vector.rs:57-59`). -/
def vectorFromElem (pf : Option Nat) (z : H) (cfg : Cfg) (x : T) (h : Heap H) :
    Except Err (Coll T × Heap H) :=
  match repeat_ pf z cfg x cfg.N h with
  | .error e => .error e
  | .ok (c, h) => toVector pf z cfg c h

/-- feeding the builder in `pop_front` (`list.rs:218-233`). -/
def popFeed (z : H) (level : Nat) : Builder T → Heap H → List (LevelNode T) →
    Except Err (Builder T × Heap H)
  | b, h, [] => .ok (b, h)
  | b, h, .internal node :: rest =>
    let subtreeLen := if rest.isEmpty then node.computeLen else 2 ^ level
    match b.pushNode z h node subtreeLen with
    | .error e => .error e
    | .ok (b, h) => popFeed z level b h rest
  | b, h, .packedLeaf v :: rest =>
    match b.push z h v with
    | .error e => .error e
    | .ok (b, h) => popFeed z level b h rest

/-- `List::pop_front` (`list.rs:203-238`). The flush happens first and persists even if the
request is then rejected. -/
def popFront (pf : Option Nat) (z : H) (cfg : Cfg) (c : Coll T) (n : Nat) (h : Heap H) :
    (Except Err Unit) × Coll T × Heap H :=
  match c.applyUpdates pf z cfg h with
  | (.error e, c, h) => (.error e, c, h)
  | (.ok (), c, h) =>
    if n = 0 then (.ok (), c, h)
    else
      let depth := listDepth pf cfg.N
      let level := computeLevel n depth (pdOf pf)
      match Builder.new pf depth level with
      | .error e => (.error e, c, h)
      | .ok b =>
        match c.levelIterFrom pf n with
        | .error e => (.error e, c, h)
        | .ok items =>
          match popFeed z level b h items with
          | .error e => (.error e, c, h)
          | .ok (b, h') =>
            match b.finish z h' with
            | .error e => (.error e, c, h')
            | .ok ((tree, depth, length), h'') => (.ok (), fromParts cfg tree depth length, h'')

/-- `List::pop_front_slow` (`list.rs:195-198`). -/
def popFrontSlow (pf : Option Nat) (z : H) (cfg : Cfg) (c : Coll T) (n : Nat) (h : Heap H) :
    Except Err (Coll T × Heap H) :=
  match c.iterFrom pf n with
  | .error e => .error e
  | .ok (items, _) => tryFromIter pf z cfg (items.map (·.2)) h

/-- `List::rebase_on` / `Vector::rebase_on` (`list.rs:320-336`, `vector.rs:147-163`). -/
def rebaseOnColl [DecidableEq T] [DecidableEq H] (pf : Option Nat) (z : H) (c base : Coll T)
    (h : Heap H) : Except Err (Coll T × Heap H) :=
  let lengths := match c.kind with
    | .list => some (c.length, base.length)
    | .vector => none
  match rebaseOn z h c.tree base.tree lengths (c.depth + pdOf pf) with
  | .error e => .error e
  | .ok (.equalReplace t, h) => .ok ({ c with tree := t }, h)
  | .ok (.notEqualReplace t, h) => .ok ({ c with tree := t }, h)
  | .ok (_, h) => .ok (c, h)

/-- `tree_hash_root` (`list.rs:377-383`, `vector.rs:285-289`): the `assert!` on pending writes
is the documented panic; `mixIn` is `tree_hash::mix_in_length`. -/
def treeHashRoot [DecidableEq H] (E : Elem T H) (A : HashAlg H) (mixIn : H → Nat → H)
    (c : Coll T) (h : Heap H) : Except Err (H × Heap H) :=
  if c.hasPending then .error .panic
  else
    let (root, h) := treeHash E A h c.tree
    match c.kind with
    | .list => .ok (mixIn root c.len, h)
    | .vector => .ok (root, h)

/-- `intra_rebase` (`list.rs:340-355`, `vector.rs:167-182`, with the `fix:` for F2). -/
def intraRebaseColl [DecidableEq H] (E : Elem T H) (A : HashAlg H) (cfg : Cfg)
    (c : Coll T) (h : Heap H) : (Except Err Unit) × Coll T × Heap H :=
  match c.applyUpdates E.pf A.zero cfg h with
  | (.error e, c, h) => (.error e, c, h)
  | (.ok (), c, h) =>
    let (_, h) := treeHash E A h c.tree
    match intraRebase E A h [] c.tree c.depth c.length with
    | .error e => (.error e, c, h)
    | .ok (.replace t, _, h) => (.ok (), { c with tree := t }, h)
    | .ok (.noop, _, h) => (.ok (), c, h)

/-- The derived `PartialEq` (`list.rs:22-41`, `vector.rs:20-42`, `interface.rs:38-48`): trees
compared structurally ignoring memos, cached length (lists), depth, pending map. -/
def beq [DecidableEq T] (a b : Coll T) : Bool :=
  decide (a.tree.erase = b.tree.erase) && a.length == b.length && a.depth == b.depth
    && a.updates.beq b.updates

end Coll
end Milhouse
