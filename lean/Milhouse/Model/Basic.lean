/-!
# Milhouse model — basic definitions

Hand-written executable model of `sigp/milhouse` (`/repo/src`). Every definition names the Rust it
transliterates. Integers are `Nat`; the few sites where `usize` arithmetic can overflow on
reachable inputs are modelled as explicit `Err.panic` outcomes.

No imports: the model and the driver must link as a `lean_exe`.
-/
namespace Milhouse

/-- `error.rs` `Error`, plus two pseudo-variants used for outcomes that are not `Error` values:
`panic` (a Rust panic) and `ssz` (any `ssz::DecodeError`). -/
inductive Err where
  | outOfBoundsUpdate (index len : Nat)
  | outOfBoundsIterFrom (index len : Nat)
  | listFull (len : Nat)
  | packedLeafFull (len : Nat)
  | leafUpdateMissing (index : Nat)
  | packedLeafOutOfBounds (subIndex len : Nat)
  | nodeUpdatesMissing (pfx : Nat)
  | invalidListUpdate
  | invalidVectorUpdate
  | wrongVectorLength (len expected : Nat)
  | pushNotSupported
  | updateLeafError
  | updateLeavesError
  | invalidRebaseNode
  | invalidRebaseLeaf
  | builderInvalidDepth (depth : Nat)
  | builderExpectedLeaf
  | builderStackEmptyMerge
  | builderStackEmptyMergeLeft
  | builderStackEmptyMergeRight
  | builderStackEmptyFinish
  | builderStackEmptyFinishLeft
  | builderStackEmptyFinishRight
  | builderStackEmptyFinalize
  | builderStackLeftover
  | builderFull
  | bulkUpdateUnclean
  | cowMissingEntry
  | levelIterPendingUpdates
  | intraRebaseZeroHash
  | intraRebaseZeroDepth
  | intraRebaseRepeatVisit
  | panic
  | ssz
  deriving DecidableEq, Repr, Inhabited

/-- `MAX_TREE_DEPTH` (`lib.rs:39`). -/
def maxTreeDepth : Nat := 63

/-! ## Bit arithmetic (`utils.rs:42-65`) -/

/-- `usize::trailing_zeros` for a non-zero argument; `tzPos 0` is never used directly. -/
def tzAux : Nat → Nat → Nat
  | 0, _ => 0
  | fuel+1, n => if n % 2 = 0 then tzAux fuel (n / 2) + 1 else 0

/-- `usize::trailing_zeros` (64 for 0). -/
def tz (n : Nat) : Nat := if n = 0 then 64 else tzAux 64 n

/-- smallest `d ≤ fuel` with `n ≤ 2^d`, searching upwards from `d`. -/
def intLogAux : Nat → Nat → Nat → Nat
  | 0, d, _ => d
  | fuel+1, d, n => if n ≤ 2 ^ d then d else intLogAux fuel (d+1) n

/-- `int_log` (`utils.rs:42-47`): ceil(log2 n); `checked_next_power_of_two` fails above `2^63`,
giving 64. -/
def intLog (n : Nat) : Nat := intLogAux 64 0 n

/-- `compute_level` (`utils.rs:54-65`). -/
def computeLevel (index depth pd : Nat) : Nat :=
  let raw := if index = 0 then depth + pd else tz index
  if raw < pd then 0 else raw

/-- packing depth `opt_packing_depth().unwrap_or(0)` (`utils.rs:75-78`). -/
def pdOf (pf : Option Nat) : Nat :=
  match pf with
  | none => 0
  | some p => intLog p

/-! ## Trees, node identities, memo store (`tree.rs:12-27`, `leaf.rs`, `packed_leaf.rs`) -/

/-- `Tree<T>`. Every constructor carries the identity of the `Arc` allocation that holds it:
same id ⇔ same physical node. The memoised hash of a node lives in the `Heap`, not here. -/
inductive Tree (T : Type) where
  | leaf (id : Nat) (v : T)
  | packed (id : Nat) (vs : List T)
  | node (id : Nat) (l r : Tree T)
  | zero (id : Nat) (d : Nat)
  deriving Repr, Inhabited

/-- Trees without identities: what the derived `PartialEq` (which ignores memos) compares. -/
inductive Shape (T : Type) where
  | leaf (v : T)
  | packed (vs : List T)
  | node (l r : Shape T)
  | zero (d : Nat)
  deriving DecidableEq, Repr, Inhabited

namespace Tree
variable {T : Type}

def id : Tree T → Nat
  | .leaf i _ | .packed i _ | .node i _ _ | .zero i _ => i

def erase : Tree T → Shape T
  | .leaf _ v => .leaf v
  | .packed _ vs => .packed vs
  | .node _ l r => .node l.erase r.erase
  | .zero _ d => .zero d

/-- `Tree::compute_len` (`tree.rs:243-250`). -/
def computeLen : Tree T → Nat
  | .leaf _ _ => 1
  | .packed _ vs => vs.length
  | .node _ l r => l.computeLen + r.computeLen
  | .zero _ _ => 0

/-- number of nodes of the tree seen as a tree (shared nodes counted once per occurrence). -/
def size : Tree T → Nat
  | .node _ l r => l.size + r.size + 1
  | _ => 1

end Tree

/-- The memo store: `memo[id]` is the content of the `RwLock<Hash256>` of node `id`; the all-zero
word means "absent". `memo.size` is the next fresh identity, so allocation is `push`. -/
structure Heap (H : Type) where
  memo : Array H
  deriving Repr, Inhabited

namespace Heap
variable {H : Type}

def empty : Heap H := ⟨#[]⟩
def next (h : Heap H) : Nat := h.memo.size
/-- `Arc::new(node)` with initial memo `m`. -/
def alloc (h : Heap H) (m : H) : Nat × Heap H := (h.memo.size, ⟨h.memo.push m⟩)
/-- `*hash.read()`; `zero` for an id that was never allocated. -/
def read (h : Heap H) (zero : H) (i : Nat) : H := (h.memo[i]?).getD zero
/-- `*hash.write() = v`. -/
def write (h : Heap H) (i : Nat) (v : H) : Heap H := ⟨h.memo.setIfInBounds i v⟩

end Heap

/-- Hash primitives: `zero` is `Hash256::ZERO`, `h2` is `hash32_concat`. -/
structure HashAlg (H : Type) where
  zero : H
  h2 : H → H → H

/-- One element kind (`T: Value`): what milhouse needs from `TreeHash` / `Encode` / `Decode`. -/
structure Elem (T H : Type) where
  /-- `opt_packing_factor::<T>()` -/
  pf : Option Nat
  /-- `T::tree_hash_root` (used for unpacked leaves) -/
  leafHash : T → H
  /-- the chunk holding the packed encodings of at most `pf` values, zero padded
      (`PackedLeaf::tree_hash`, `packed_leaf.rs:30-49`) -/
  packHash : List T → H
  /-- `ssz_fixed_len` if `is_ssz_fixed_len` -/
  fixedLen : Option Nat
  /-- `as_ssz_bytes` -/
  enc : T → List UInt8
  /-- `from_ssz_bytes` -/
  dec : List UInt8 → Option T

/-- `ZERO_HASHES[d]` = the hash of a depth-`d` subtree of zero chunks. -/
def zeroHash {H : Type} (A : HashAlg H) : Nat → H
  | 0 => A.zero
  | d+1 => A.h2 (zeroHash A d) (zeroHash A d)

end Milhouse
