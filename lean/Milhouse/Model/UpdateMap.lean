import Milhouse.Model.Basic
/-!
# Pending-update maps (`update_map.rs`) and copy-on-write handles (`cow.rs`)

Three implementations of `UpdateMap<T>`:
* `BTreeMap<usize, T>`: an ascending association list without duplicate keys;
* `VecMap<T>`: `Vec<Option<T>>` (the count `n` is derived);
* `MaxMap<VecMap<T>>`: the same plus `max_key`, which only `insert` updates.
-/
namespace Milhouse

inductive MapKind where
  | btree | vec | maxvec
  deriving DecidableEq, Repr, Inhabited

/-- sorted insert into an ascending association list (replace on equal key). -/
def assocInsert {T : Type} (k : Nat) (v : T) : List (Nat × T) → List (Nat × T)
  | [] => [(k, v)]
  | (k', v') :: rest =>
    if k < k' then (k, v) :: (k', v') :: rest
    else if k = k' then (k, v) :: rest
    else (k', v') :: assocInsert k v rest

def assocGet {T : Type} (k : Nat) : List (Nat × T) → Option T
  | [] => none
  | (k', v') :: rest => if k = k' then some v' else assocGet k rest

/-- `VecMap::insert`: grow with `None` up to `key`, then set. -/
def vecSet {T : Type} (v : List (Option T)) (k : Nat) (x : T) : List (Option T) :=
  let v' := if v.length ≤ k then v ++ List.replicate (k - v.length + 1) none else v
  v'.set k (some x)

/-- the `(key, value)` pairs of a `Vec<Option<T>>`, ascending, keys starting at `base`. -/
def vecEntriesFrom {T : Type} (base : Nat) : List (Option T) → List (Nat × T)
  | [] => []
  | none :: rest => vecEntriesFrom (base+1) rest
  | some x :: rest => (base, x) :: vecEntriesFrom (base+1) rest

inductive UMap (T : Type) where
  | btree (l : List (Nat × T))
  | vec (v : List (Option T))
  | maxvec (v : List (Option T)) (maxKey : Nat)
  deriving Repr, Inhabited

namespace UMap
variable {T : Type}

/-- `U::default()`. -/
def empty : MapKind → UMap T
  | .btree => .btree []
  | .vec => .vec []
  | .maxvec => .maxvec [] 0

def kind : UMap T → MapKind
  | .btree _ => .btree
  | .vec _ => .vec
  | .maxvec _ _ => .maxvec

/-- all entries, ascending by key. -/
def entries : UMap T → List (Nat × T)
  | .btree l => l
  | .vec v => vecEntriesFrom 0 v
  | .maxvec v _ => vecEntriesFrom 0 v

/-- `UpdateMap::get`. -/
def get (m : UMap T) (k : Nat) : Option T :=
  match m with
  | .btree l => assocGet k l
  | .vec v => (v[k]?).join
  | .maxvec v _ => (v[k]?).join

/-- `UpdateMap::insert` (`MaxMap::insert` raises `max_key`). -/
def insert (m : UMap T) (k : Nat) (x : T) : UMap T :=
  match m with
  | .btree l => .btree (assocInsert k x l)
  | .vec v => .vec (vecSet v k x)
  | .maxvec v mk => .maxvec (vecSet v k x) (if k > mk then k else mk)

/-- the insertion performed by `VacantEntry::insert` (from `get_mut_with` / a `Cow` made
mutable): it goes to the inner map, so `MaxMap::max_key` is *not* updated. -/
def insertEntry (m : UMap T) (k : Nat) (x : T) : UMap T :=
  match m with
  | .btree l => .btree (assocInsert k x l)
  | .vec v => .vec (vecSet v k x)
  | .maxvec v mk => .maxvec (vecSet v k x) mk

/-- `UpdateMap::len`. -/
def len (m : UMap T) : Nat := m.entries.length

def isEmpty (m : UMap T) : Bool := m.entries.isEmpty

/-- `UpdateMap::max_index`. -/
def maxIndex (m : UMap T) : Option Nat :=
  match m with
  | .btree l => l.getLast?.map (·.1)
  | .vec v => (vecEntriesFrom 0 v).getLast?.map (·.1)
  | .maxvec v mk => if (vecEntriesFrom 0 v).isEmpty then none else some mk

/-- The entries visited by `for_each_range(start, end, f)` when `f` never breaks: ascending keys
in `[start, end)`. (`VecMap`'s early exit at `capacity()` only skips absent keys.) -/
def range (m : UMap T) (s e : Nat) : List (Nat × T) :=
  m.entries.filter (fun p => s ≤ p.1 && p.1 < e)

/-- `for_each_range(start, end, |_,_| { found = true; Break })`. -/
def hasInRange (m : UMap T) (s e : Nat) : Bool := !(m.range s e).isEmpty

/-- Derived / hand-written `PartialEq` of the three map types. -/
def beq [DecidableEq T] (a b : UMap T) : Bool :=
  match a, b with
  | .btree l, .btree l' => decide (l = l')
  | .vec v, .vec v' => decide (vecEntriesFrom 0 v = vecEntriesFrom 0 v')
  | .maxvec v mk, .maxvec v' mk' => decide (vecEntriesFrom 0 v = vecEntriesFrom 0 v') && mk == mk'
  | _, _ => false

/-- `get_mut_with(k, f)` followed by `*r = x`: occupied ⇒ overwrite; vacant ⇒ needs `f k = some _`
(the backing value, cloned), then overwrite. Returns the previous visible value. -/
def getMutSet (m : UMap T) (k : Nat) (backing : Option T) (x : T) : Option (T × UMap T) :=
  match m.get k with
  | some old => some (old, m.insertEntry k x)
  | none =>
    match backing with
    | some old => some (old, m.insertEntry k x)
    | none => none

end UMap

/-- What is done with a `Cow` obtained from `get_cow` (`cow.rs`). -/
inductive CowAct (T : Type) where
  /-- only `Deref`; the vacant entry is dropped -/
  | read
  /-- `*cow.into_mut()? = x` -/
  | intoMut (x : T)
  /-- `*cow.make_mut()? = x` -/
  | makeMut (x : T)
  /-- `*cow.make_mut()? = x; *cow.make_mut()? = y` (second call on the `Mutable` state) -/
  | makeMut2 (x y : T)
  deriving Repr

end Milhouse
