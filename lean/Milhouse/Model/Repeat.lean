import Milhouse.Model.Builder
/-!
# `repeat_list` (`repeat.rs`)
-/
namespace Milhouse
variable {T H : Type}

/-- one iteration of `for depth in 0..tree_depth` (`repeat.rs:48-104`): the layer is one or two
`(node, multiplicity)` pairs. -/
def repeatStep (z : H) (depth : Nat) (h : Heap H) :
    List (Tree T × Nat) → Except Err (List (Tree T × Nat) × Heap H)
  | [(a, c)] =>
    if c = 1 then
      let (zid, h) := h.alloc z
      let (id, h) := h.alloc z
      .ok ([(.node id a (.zero zid depth), 1)], h)
    else if c % 2 = 0 then
      let (id, h) := h.alloc z
      .ok ([(.node id a a, c / 2)], h)
    else
      let (id1, h) := h.alloc z
      let (zid, h) := h.alloc z
      let (id2, h) := h.alloc z
      .ok ([(.node id1 a a, c / 2), (.node id2 a (.zero zid depth), 1)], h)
  | [(a, c), (b, 1)] =>
    if c = 1 then
      let (id, h) := h.alloc z
      .ok ([(.node id a b, 1)], h)
    else if c % 2 = 0 then
      let (id1, h) := h.alloc z
      let (zid, h) := h.alloc z
      let (id2, h) := h.alloc z
      .ok ([(.node id1 a a, c / 2), (.node id2 b (.zero zid depth), 1)], h)
    else
      let (id1, h) := h.alloc z
      let (id2, h) := h.alloc z
      .ok ([(.node id1 a a, c / 2), (.node id2 a b, 1)], h)
  | _ => .error .panic   -- `unreachable!("not possible")`

def repeatLoop (z : H) : Nat → Nat → Heap H → List (Tree T × Nat) →
    Except Err (List (Tree T × Nat) × Heap H)
  | 0, _, h, layer => .ok (layer, h)
  | n+1, depth, h, layer =>
    match repeatStep z depth h layer with
    | .error e => .error e
    | .ok (layer', h) => repeatLoop z n (depth+1) h layer'

/-- `repeat_list(elem, n)` for `n > 0` (`repeat.rs:8-112`), with the capacity check of the
`fix:` commit for F1 (`n > N ⇒ BuilderFull`). Returns the root. -/
def repeatTree (pf : Option Nat) (z : H) (N treeDepth : Nat) (x : T) (n : Nat) (h : Heap H) :
    Except Err (Tree T × Heap H) :=
  if n > N then .error .builderFull
  else
    let init : Except Err (List (Tree T × Nat) × Heap H) :=
      match pf with
      | some p =>
        if p = 0 then .error .panic
        else
          let repeatCount := n / p
          let lonelyCount := n % p
          let (rid, h) := h.alloc z
          let repeatLeaf : Tree T := .packed rid (List.replicate p x)
          let (lid, h) := h.alloc z
          let lonelyLeaf : Tree T := .packed lid (List.replicate lonelyCount x)
          if repeatCount = 0 && lonelyCount = 0 then .error .panic
          else if lonelyCount = 0 then .ok ([(repeatLeaf, repeatCount)], h)
          else if repeatCount = 0 then .ok ([(lonelyLeaf, 1)], h)
          else .ok ([(repeatLeaf, repeatCount), (lonelyLeaf, 1)], h)
      | none =>
        let (id, h) := h.alloc z
        .ok ([(.leaf id x, n)], h)
    match init with
    | .error e => .error e
    | .ok (layer, h) =>
      match repeatLoop z treeDepth 0 h layer with
      | .error e => .error e
      | .ok (layer, h) =>
        match layer.reverse with
        | [] => .error .builderStackEmptyFinalize
        | (root, count) :: rest =>
          if !rest.isEmpty || count ≠ 1 then .error .builderStackLeftover
          else .ok (root, h)

end Milhouse
