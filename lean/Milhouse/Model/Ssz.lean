import Milhouse.Model.Collection
/-!
# SSZ and serde (`list.rs:385-518`, `vector.rs:318-381`, `serde.rs`)

`ethereum_ssz`'s `SszEncoder`, `read_offset`, `sanitize_offset` and
`decode_list_of_variable_length_items` are modelled here (they are dependency code: modelled, not
verified).
-/
namespace Milhouse
variable {T H : Type}

/-- `encode_length`: 4-byte little endian. -/
def encodeLength (n : Nat) : List UInt8 :=
  [UInt8.ofNat (n % 256), UInt8.ofNat (n / 256 % 256), UInt8.ofNat (n / 65536 % 256),
   UInt8.ofNat (n / 16777216 % 256)]

/-- `read_offset`: the first four bytes, little endian. -/
def readOffset (bs : List UInt8) : Option Nat :=
  match bs with
  | a :: b :: c :: d :: _ => some (a.toNat + 256 * b.toNat + 65536 * c.toNat + 16777216 * d.toNat)
  | _ => none

/-- the offsets written by `SszEncoder` for items of the given encoded sizes. -/
def sszOffsets : Nat → List Nat → List UInt8
  | _, [] => []
  | off, n :: rest => encodeLength off ++ sszOffsets (off + n) rest

/-- `Encode::ssz_append` for `List` / `Vector` (`list.rs:438-458`, `vector.rs:339-358`) over the
element sequence produced by the overlay-aware iterator. -/
def sszEncode (E : Elem T H) (xs : List T) : List UInt8 :=
  match E.fixedLen with
  | some _ => (xs.map E.enc).flatten
  | none =>
    let bodies := xs.map E.enc
    sszOffsets (4 * xs.length) (bodies.map List.length) ++ bodies.flatten

/-- `Encode::ssz_bytes_len` (`list.rs:428-436`). -/
def sszBytesLen (E : Elem T H) (xs : List T) : Nat :=
  match E.fixedLen with
  | some k => k * xs.length
  | none => (xs.map (fun x => (E.enc x).length)).sum + 4 * xs.length

/-- `bytes.chunks(k)`. -/
def chunksOf (k : Nat) : Nat → List UInt8 → List (List UInt8)
  | 0, _ => []
  | fuel+1, bs => if bs.isEmpty then [] else bs.take k :: chunksOf k fuel (bs.drop k)

def decodeAll (E : Elem T H) : List (List UInt8) → Option (List T)
  | [] => some []
  | c :: rest =>
    match E.dec c with
    | none => none
    | some x =>
      match decodeAll E rest with
      | none => none
      | some xs => some (x :: xs)

/-- the item loop of `decode_list_of_variable_length_items` (`ethereum_ssz` `decode/impls.rs`):
items `i .. numItems`, current `offset`; yields the byte slices. -/
def varSlices (bs : List UInt8) (firstOffset numItems : Nat) :
    Nat → Nat → Nat → Option (List (List UInt8))
  | 0, _, _ => some []
  | fuel+1, i, offset =>
    if i > numItems then some []
    else if i = numItems then
      if offset ≤ bs.length then some [bs.drop offset] else none
    else
      match readOffset (bs.drop (i * 4)) with
      | none => none
      | some next =>
        -- sanitize_offset(next, Some(offset), len, Some(first_offset))
        if next < firstOffset then none
        else if next > bs.length then none
        else if offset > next then none
        else
          match varSlices bs firstOffset numItems fuel (i+1) next with
          | none => none
          | some rest => some ((bs.drop offset).take (next - offset) :: rest)

/-- the element sequence decoded by `List::from_ssz_bytes` (`list.rs:476-518`) before it is
handed to `try_from_iter`; `none` = a `DecodeError`. -/
def sszDecodeItems (E : Elem T H) (N : Nat) (bs : List UInt8) : Option (List T) :=
  if bs.isEmpty then some []
  else
    match E.fixedLen with
    | some k =>
      if k = 0 then none
      else
        let numItems := bs.length / k
        if numItems > N then none
        else decodeAll E (chunksOf k (bs.length + 1) bs)
    | none =>
      match readOffset bs with
      | none => none
      | some first =>
        -- sanitize_offset(first, None, len, Some(first)): only the bounds check can fail
        if first > bs.length then none
        else if first % 4 ≠ 0 || first < 4 then none
        else
          let numItems := first / 4
          if numItems > N then none
          else
            match varSlices bs first numItems (numItems + 1) 1 first with
            | none => none
            | some slices => decodeAll E slices

/-- `List::from_ssz_bytes`. Every failure is an `ssz::DecodeError` (`Err.ssz`). -/
def sszDecodeList (E : Elem T H) (z : H) (cfg : Cfg) (bs : List UInt8) (h : Heap H) :
    Except Err (Coll T × Heap H) :=
  if bs.isEmpty then .ok (Coll.empty E.pf z cfg h)
  else
    match sszDecodeItems E cfg.N bs with
    | none => .error .ssz
    | some xs =>
      match Coll.tryFromIter E.pf z cfg xs h with
      | .error _ => .error .ssz
      | .ok r => .ok r

/-- `Vector::from_ssz_bytes` (`vector.rs:372-380`). -/
def sszDecodeVector (E : Elem T H) (z : H) (cfg : Cfg) (bs : List UInt8) (h : Heap H) :
    Except Err (Coll T × Heap H) :=
  match sszDecodeList E z cfg bs h with
  | .error _ => .error .ssz
  | .ok (c, h) =>
    match Coll.toVector E.pf z cfg c h with
    | .error _ => .error .ssz
    | .ok r => .ok r

end Milhouse
