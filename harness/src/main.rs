//! Line-protocol interpreter over the real `milhouse` API (built against /repo's working tree).
//!
//! Reads operation scripts on stdin (see /verif/DESIGN.md §3.4), runs every line in-process on
//! `List` / `Vector` / `Builder` / `Tree`, and prints one canonical output line per input line.
//! The Lean driver (`/verif/lean/Main.lean`) interprets the same lines on the model.

use milhouse::builder::Builder;
use milhouse::level_iter::LevelNode;
use milhouse::update_map::MaxMap;
use milhouse::{Arc, Error, Leaf, List, PackedLeaf, Tree, UpdateMap, Value, Vector};
use serde::{de::DeserializeOwned, Deserialize, Serialize};
use ssz::{Decode, Encode};
use ssz_derive::{Decode, Encode};
use std::collections::{BTreeMap, HashMap};
use std::fmt::Write as _;
use std::io::{BufRead, Write};
use std::panic::{catch_unwind, AssertUnwindSafe};
use tree_hash::{Hash256, TreeHash};
use tree_hash_derive::TreeHash;
use typenum::Unsigned;
use std::ops::ControlFlow;
use vec_map::VecMap;

// ---------------------------------------------------------------------------------------------
// element kinds

#[derive(Debug, Clone, PartialEq, Default, Encode, Decode, TreeHash, Serialize, Deserialize)]
pub struct Cont {
    a: u64,
    b: u8,
    c: Hash256,
}

/// a container without fields: its SSZ length is zero (illegal as an SSZ type, but the decoder has
/// an explicit `ZeroLengthItem` error for it rather than a division by zero)
#[derive(Debug, Clone, PartialEq, Default, Encode, Decode, TreeHash, Serialize, Deserialize)]
pub struct Unit {}

pub type VarElem = List<u8, typenum::U8>;
/// an element that is itself a multi-leaf milhouse list: hashing it forks with rayon
pub type NestElem = List<u64, typenum::U1024>;
/// an element that is itself a fixed-size vector (the `Vector` trait impls used as an element)
pub type NestVElem = Vector<u64, typenum::U8>;
/// an element that is a list of variable-size items (nested offset tables)
pub type Nest2Elem = List<VarElem, typenum::U4>;

pub trait Kind:
    Value + Send + Sync + Default + Serialize + DeserializeOwned + std::fmt::Debug + 'static
{
}
impl<T> Kind for T where
    T: Value + Send + Sync + Default + Serialize + DeserializeOwned + std::fmt::Debug + 'static
{
}

pub fn hex(bytes: &[u8]) -> String {
    if bytes.is_empty() {
        return "-".to_string();
    }
    let mut s = String::with_capacity(bytes.len() * 2);
    for b in bytes {
        write!(s, "{:02x}", b).unwrap();
    }
    s
}

pub fn unhex(s: &str) -> Option<Vec<u8>> {
    if s == "-" {
        return Some(vec![]);
    }
    if s.len() % 2 != 0 {
        return None;
    }
    (0..s.len() / 2)
        .map(|i| u8::from_str_radix(s.get(2 * i..2 * i + 2)?, 16).ok())
        .collect()
}

fn val<T: Kind>(s: &str) -> Option<T> {
    T::from_ssz_bytes(&unhex(s)?).ok()
}

fn vhex<T: Kind>(v: &T) -> String {
    hex(&v.as_ssz_bytes())
}

pub fn fmt_err(e: &Error) -> String {
    use Error::*;
    match e {
        OutOfBoundsUpdate { index, len } => format!("err OutOfBoundsUpdate index={index} len={len}"),
        OutOfBoundsIterFrom { index, len } => {
            format!("err OutOfBoundsIterFrom index={index} len={len}")
        }
        ListFull { len } => format!("err ListFull len={len}"),
        PackedLeafFull { len } => format!("err PackedLeafFull len={len}"),
        LeafUpdateMissing { index } => format!("err LeafUpdateMissing index={index}"),
        PackedLeafOutOfBounds { sub_index, len } => {
            format!("err PackedLeafOutOfBounds sub_index={sub_index} len={len}")
        }
        NodeUpdatesMissing { prefix } => format!("err NodeUpdatesMissing prefix={prefix}"),
        WrongVectorLength { len, expected } => {
            format!("err WrongVectorLength len={len} expected={expected}")
        }
        BuilderInvalidDepth { depth } => format!("err BuilderInvalidDepth depth={depth}"),
        other => format!("err {:?}", other),
    }
}

// ---------------------------------------------------------------------------------------------
// interpreter

pub enum Handle<T: Kind, N: Unsigned, U: UpdateMap<T> + PartialEq> {
    L(List<T, N, U>),
    V(Vector<T, N, U>),
}

impl<T: Kind, N: Unsigned, U: UpdateMap<T> + PartialEq> Clone for Handle<T, N, U> {
    fn clone(&self) -> Self {
        match self {
            Handle::L(l) => Handle::L(l.clone()),
            Handle::V(v) => Handle::V(v.clone()),
        }
    }
}

pub trait Runner {
    fn step(&mut self, line: &str) -> String;
    /// Run a `conc-begin .. conc-end` block: `lines[k] = (thread, op)`. Every thread runs its ops
    /// in order on private slots, reading the current slots of `self` by shared reference.
    fn conc(&mut self, lines: &[(usize, String)]) -> Vec<String>;
}

pub struct Interp<'s, T: Kind, N: Unsigned, U: UpdateMap<T> + PartialEq> {
    colls: HashMap<usize, Handle<T, N, U>>,
    trees: HashMap<usize, Arc<Tree<T>>>,
    builders: HashMap<usize, Builder<T>>,
    /// update maps used directly through the public `UpdateMap` trait (`m…` operations)
    maps: HashMap<usize, U>,
    /// slots of the spawning interpreter, visible read-only inside a `conc` block
    shared: Option<&'s HashMap<usize, Handle<T, N, U>>>,
    /// bytes produced by the last `ssz`, values produced by the last `ser`, result of the last
    /// `lvnodes` (first tree slot, element count of every node)
    last_ssz: Vec<u8>,
    last_ser: Vec<T>,
    last_lv: (usize, Vec<usize>),
}

macro_rules! both {
    ($h:expr, $x:ident => $e:expr) => {
        match $h {
            Handle::L($x) => $e,
            Handle::V($x) => $e,
        }
    };
}

/// Deserialise a JSON array both from the in-memory value (its `SeqAccess` announces the length)
/// and from its text (the streaming reader announces none). Both are the same public `Deserialize`
/// impl; the outcome must not depend on which one the caller used.
fn de_two_ways<T: Kind + DeserializeOwned, N: Unsigned, U: UpdateMap<T> + PartialEq>(
    coll: &str,
    arr: serde_json::Value,
) -> Option<Result<Handle<T, N, U>, String>> {
    let text = serde_json::to_string(&arr).expect("array serialises");
    let (a, b) = match coll {
        "list" => (
            serde_json::from_value::<List<T, N, U>>(arr).map(Handle::L).ok(),
            serde_json::from_str::<List<T, N, U>>(&text).map(Handle::L).ok(),
        ),
        "vec" => (
            serde_json::from_value::<Vector<T, N, U>>(arr).map(Handle::V).ok(),
            serde_json::from_str::<Vector<T, N, U>>(&text).map(Handle::V).ok(),
        ),
        _ => return None,
    };
    Some(match (a, b) {
        (Some(a), Some(b)) => {
            let va: Vec<T> = both!(&a, x => x.iter().cloned().collect());
            let vb: Vec<T> = both!(&b, x => x.iter().cloned().collect());
            if va == vb {
                Ok(a)
            } else {
                Err("err serde-paths-differ".to_string())
            }
        }
        (None, None) => Err("err serde".to_string()),
        _ => Err("err serde-paths-differ".to_string()),
    })
}

/// `U::default()`, or for a bare `VecMap` one created by `VecMap::with_capacity(n)`.
fn presized<T: 'static, U: UpdateMap<T> + 'static>(n: usize) -> U {
    let mut m = U::default();
    if let Some(v) = (&mut m as &mut dyn std::any::Any).downcast_mut::<vec_map::VecMap<T>>() {
        *v = vec_map::VecMap::with_capacity(n.min(1 << 20));
    }
    m
}

fn pd<T: Kind>() -> usize {
    milhouse::utils::opt_packing_depth::<T>().unwrap_or(0)
}

fn pf<T: Kind>() -> usize {
    milhouse::utils::opt_packing_factor::<T>().unwrap_or(1)
}

/// Values under a subtree, in order.
fn leaves<T: Kind>(t: &Tree<T>, out: &mut Vec<T>) {
    match t {
        Tree::Leaf(Leaf { value, .. }) => out.push((**value).clone()),
        Tree::PackedLeaf(_) => {
            for i in 0..t.compute_len() {
                if let Some(v) = t.get_recursive(i, 0, pd::<T>()) {
                    out.push(v.clone());
                }
            }
        }
        Tree::Node { left, right, .. } => {
            leaves(left, out);
            leaves(right, out);
        }
        Tree::Zero(_) => {}
    }
}

fn memo_str(h: &Hash256) -> String {
    if h.is_zero() {
        "-".to_string()
    } else {
        hex(h.as_slice())
    }
}

pub struct Dump {
    seen: HashMap<usize, usize>,
    out: Vec<String>,
}

fn dump_tree<T: Kind>(t: &Arc<Tree<T>>, st: &mut Dump) {
    let addr = Arc::as_ptr(t) as usize;
    if let Some(k) = st.seen.get(&addr) {
        st.out.push(format!("^{k}"));
        return;
    }
    let k = st.seen.len();
    st.seen.insert(addr, k);
    match &**t {
        Tree::Leaf(Leaf { hash, value }) => {
            st.out
                .push(format!("L{k}:{}:{}", vhex(&**value), memo_str(&hash.read())));
        }
        Tree::PackedLeaf(PackedLeaf { hash, .. }) => {
            let mut vs = vec![];
            leaves(t, &mut vs);
            let vs: Vec<String> = vs.iter().map(vhex).collect();
            st.out
                .push(format!("P{k}:{}:{}", vs.join(","), memo_str(&hash.read())));
        }
        Tree::Zero(d) => st.out.push(format!("Z{k}:{d}")),
        Tree::Node { hash, left, right } => {
            st.out.push(format!("N{k}:{}(", memo_str(&hash.read())));
            dump_tree(left, st);
            dump_tree(right, st);
            st.out.push(")".to_string());
        }
    }
}

fn opt_str<T: Kind>(o: Option<&T>) -> String {
    match o {
        Some(v) => format!("some {}", vhex(v)),
        None => "none".to_string(),
    }
}

fn res_unit(r: Result<(), Error>) -> String {
    match r {
        Ok(()) => "ok".to_string(),
        Err(e) => fmt_err(&e),
    }
}

fn iter_str<'a, T: Kind, I: ExactSizeIterator<Item = &'a T>>(mut it: I) -> String {
    let mut s = "ok".to_string();
    loop {
        let rem = it.len();
        match it.next() {
            Some(v) => write!(s, " {rem}:{}", vhex(v)).unwrap(),
            None => {
                write!(s, " {rem}:").unwrap();
                break;
            }
        }
    }
    // the size must stay answerable (and 0) after the iterator is exhausted
    write!(s, " post={}", it.len()).unwrap();
    s
}

impl<'s, T: Kind, N: Unsigned + Send + Sync, U: UpdateMap<T> + PartialEq + Send + Sync + 'static> Interp<'s, T, N, U> {
    pub fn new() -> Self {
        Interp {
            colls: HashMap::new(),
            trees: HashMap::new(),
            builders: HashMap::new(),
            maps: HashMap::new(),
            shared: None,
            last_ssz: vec![],
            last_ser: vec![],
            last_lv: (0, vec![]),
        }
    }

    /// read access to a slot: private first, then the spawner's.
    fn coll(&self, h: usize) -> Option<&Handle<T, N, U>> {
        self.colls.get(&h).or_else(|| self.shared.and_then(|m| m.get(&h)))
    }

    fn store(&mut self, h: usize, r: Result<Handle<T, N, U>, Error>) -> String {
        match r {
            Ok(c) => {
                self.colls.insert(h, c);
                "ok".to_string()
            }
            Err(e) => fmt_err(&e),
        }
    }

    fn do_step(&mut self, w: &[&str]) -> Option<String> {
        let n = |i: usize| -> Option<usize> { w.get(i)?.parse::<usize>().ok() };
        let vals = |from: usize| -> Option<Vec<T>> { w[from..].iter().map(|s| val::<T>(s)).collect() };
        Some(match *w.first()? {
            "new" => {
                let h = n(1)?;
                let vs = vals(3)?;
                match *w.get(2)? {
                    "list" => self.store(h, List::new(vs).map(Handle::L)),
                    "vec" => self.store(h, Vector::new(vs).map(Handle::V)),
                    _ => return None,
                }
            }
            "fromiter" => {
                let h = n(1)?;
                let vs = vals(3)?;
                let src = vs.clone();
                // the inherent constructor and the `ssz::TryFromIter` trait impl are two public
                // entry points to the same construction: they must agree
                let (a, b) = match *w.get(2)? {
                    "list" => (
                        List::try_from_iter(vs.clone()).map(Handle::L),
                        <List<T, N, U> as ssz::TryFromIter<T>>::try_from_iter(vs).map(Handle::L),
                    ),
                    "vec" => (
                        Vector::try_from_iter(vs.clone()).map(Handle::V),
                        <Vector<T, N, U> as ssz::TryFromIter<T>>::try_from_iter(vs).map(Handle::V),
                    ),
                    _ => return None,
                };
                // the same elements through iterators whose `size_hint` is inexact (`filter`: only
                // an upper bound) or absent (`from_fn`): the result must not depend on the hint
                let list_kind = *w.get(2)? == "list";
                let extra: Vec<Result<Handle<T, N, U>, Error>> = {
                    let f1 = src.clone().into_iter().filter(|_| true);
                    let mut it = src.clone().into_iter();
                    let f2 = std::iter::from_fn(move || it.next());
                    if list_kind {
                        vec![List::try_from_iter(f1).map(Handle::L), List::try_from_iter(f2).map(Handle::L)]
                    } else {
                        vec![Vector::try_from_iter(f1).map(Handle::V), Vector::try_from_iter(f2).map(Handle::V)]
                    }
                };
                for x in &extra {
                    let agree = match (&a, x) {
                        (Ok(p), Ok(q)) => {
                            let vp: Vec<T> = both!(p, c => c.iter().cloned().collect());
                            let vq: Vec<T> = both!(q, c => c.iter().cloned().collect());
                            vp == vq
                        }
                        (Err(p), Err(q)) => fmt_err(p) == fmt_err(q),
                        _ => false,
                    };
                    if !agree {
                        return Some("err iter-paths-differ".to_string());
                    }
                }
                let same = match (&a, &b) {
                    (Ok(x), Ok(y)) => {
                        let vx: Vec<T> = both!(x, c => c.iter().cloned().collect());
                        let vy: Vec<T> = both!(y, c => c.iter().cloned().collect());
                        vx == vy
                    }
                    (Err(x), Err(y)) => fmt_err(x) == fmt_err(y),
                    _ => false,
                };
                if !same {
                    return Some("err trait-paths-differ".to_string());
                }
                self.store(h, a)
            }
            "fromiterslow" => {
                let h = n(1)?;
                let vs = vals(2)?;
                self.store(h, List::try_from_iter_slow(vs).map(Handle::L))
            }
            "empty" => {
                let h = n(1)?;
                self.store(h, Ok(Handle::L(List::empty())))
            }
            "default" => {
                let h = n(1)?;
                match *w.get(2)? {
                    "list" => self.store(h, Ok(Handle::L(List::default()))),
                    "vec" => self.store(h, Ok(Handle::V(Vector::default()))),
                    _ => return None,
                }
            }
            "repeat" => {
                let h = n(1)?;
                let v = val::<T>(w.get(3)?)?;
                self.store(h, List::repeat(v, n(2)?).map(Handle::L))
            }
            "repeatslow" => {
                let h = n(1)?;
                let v = val::<T>(w.get(3)?)?;
                self.store(h, List::repeat_slow(v, n(2)?).map(Handle::L))
            }
            "fromelem" => {
                let h = n(1)?;
                let v = val::<T>(w.get(2)?)?;
                self.store(h, Vector::from_elem(v).map(Handle::V))
            }
            "drop" => {
                self.colls.remove(&n(1)?);
                "ok".to_string()
            }
            "len" => {
                let c = self.coll(n(1)?)?;
                format!("ok {}", both!(c, x => x.len()))
            }
            "isempty" => {
                let c = self.coll(n(1)?)?;
                format!("ok {}", both!(c, x => x.is_empty()))
            }
            "pending" => {
                let c = self.coll(n(1)?)?;
                format!("ok {}", both!(c, x => x.has_pending_updates()))
            }
            "get" => {
                let c = self.coll(n(1)?)?;
                let i = n(2)?;
                both!(c, x => opt_str(x.get(i)))
            }
            "tovec" => {
                let c = self.coll(n(1)?)?;
                let vs: Vec<T> = both!(c, x => x.to_vec());
                // `for v in &collection` (the IntoIterator impl) is the same traversal
                let ws: Vec<T> = both!(c, x => x.into_iter().cloned().collect());
                if vs != ws {
                    return Some("err iter-paths-differ".to_string());
                }
                let vs: Vec<String> = vs.iter().map(vhex).collect();
                format!("ok {}", vs.join(" ")).trim_end().to_string()
            }
            "iter" => {
                let c = self.coll(n(1)?)?;
                both!(c, x => iter_str(x.iter()))
            }
            "iterfrom" => {
                let c = self.coll(n(1)?)?;
                let i = n(2)?;
                both!(c, x => match x.iter_from(i) {
                    Ok(it) => iter_str(it),
                    Err(e) => fmt_err(&e),
                })
            }
            "getmut" => {
                let i = n(2)?;
                let v = val::<T>(w.get(3)?)?;
                let c = self.colls.get_mut(&n(1)?)?;
                both!(c, x => match x.get_mut(i) {
                    Some(r) => {
                        let old = r.clone();
                        *r = v;
                        format!("some {}", vhex(&old))
                    }
                    None => "none".to_string(),
                })
            }
            "cow" => {
                let i = n(2)?;
                let act = *w.get(3)?;
                let vs = vals(4)?;
                let c = self.colls.get_mut(&n(1)?)?;
                both!(c, x => match x.get_cow(i) {
                    None => "none".to_string(),
                    Some(mut cow) => {
                        let old = (*cow).clone();
                        let r: Result<(), Error> = match (act, vs.as_slice()) {
                            ("read", []) => Ok(()),
                            ("intomut", [a]) => cow.into_mut().map(|r| *r = a.clone()),
                            ("makemut", [a]) => cow.make_mut().map(|r| *r = a.clone()),
                            ("makemut2", [a, b]) => cow
                                .make_mut()
                                .map(|r| *r = a.clone())
                                .and_then(|_| cow.make_mut().map(|r| *r = b.clone())),
                            _ => return None,
                        };
                        match r {
                            Ok(()) => format!("some {}", vhex(&old)),
                            Err(e) => fmt_err(&e),
                        }
                    }
                })
            }
            "push" => {
                let v = val::<T>(w.get(2)?)?;
                match self.colls.get_mut(&n(1)?)? {
                    Handle::L(l) => res_unit(l.push(v)),
                    // `Vector` has no `push`; its `MutList::validate_push` is unreachable from
                    // the public API. The model answers the error that hook would give.
                    Handle::V(_) => "err PushNotSupported".to_string(),
                }
            }
            "apply" => {
                let c = self.colls.get_mut(&n(1)?)?;
                both!(c, x => res_unit(x.apply_updates()))
            }
            "bulk" | "bulkcap" => {
                // `bulkcap h n entries...`: the map is created with room for n entries where the
                // map type offers that (`VecMap::with_capacity`); an empty pre-sized map is still empty
                let (mut m, from) = if w[0] == "bulkcap" {
                    (presized::<T, U>(n(2)?), 3)
                } else {
                    (U::default(), 2)
                };
                for kv in &w[from..] {
                    if let Some((k, v)) = kv.split_once('~') {
                        // filled through the public `get_mut_with` instead of `insert`
                        let v = val::<T>(v)?;
                        m.get_mut_with(k.parse().ok()?, |_| Some(v));
                    } else {
                        let (k, v) = kv.split_once(':')?;
                        m.insert(k.parse().ok()?, val::<T>(v)?);
                    }
                }
                match self.colls.get_mut(&n(1)?)? {
                    Handle::L(l) => res_unit(l.bulk_update(m)),
                    Handle::V(_) => return None,
                }
            }
            // ---- the update maps through the public `UpdateMap` trait ----
            "mnew" => {
                self.maps.insert(n(1)?, U::default());
                "ok".to_string()
            }
            "mcap" => {
                self.maps.insert(n(1)?, presized::<T, U>(n(2)?));
                "ok".to_string()
            }
            "mclone" => {
                let m = self.maps.get(&n(1)?)?.clone();
                self.maps.insert(n(2)?, m);
                "ok".to_string()
            }
            "mins" => {
                let v = val::<T>(w.get(3)?)?;
                let old = self.maps.get_mut(&n(1)?)?.insert(n(2)?, v);
                format!("ok {}", opt_str(old.as_ref()))
            }
            "mget" => opt_str(self.maps.get(&n(1)?)?.get(n(2)?)),
            "mgm" => {
                // get_mut_with(k, |_| f) and, when it yields a slot, `*slot = x`
                let f: Option<T> = match *w.get(3)? {
                    "none" => None,
                    h => Some(val::<T>(h)?),
                };
                let x = val::<T>(w.get(4)?)?;
                match self.maps.get_mut(&n(1)?)?.get_mut_with(n(2)?, |_| f) {
                    Some(slot) => {
                        let old = slot.clone();
                        *slot = x;
                        format!("ok {}", vhex(&old))
                    }
                    None => "none".to_string(),
                }
            }
            "mlen" => format!("ok {}", self.maps.get(&n(1)?)?.len()),
            "misempty" => format!("ok {}", self.maps.get(&n(1)?)?.is_empty()),
            "mmax" => match self.maps.get(&n(1)?)?.max_index() {
                Some(k) => format!("some {k}"),
                None => "none".to_string(),
            },
            "mrange" => {
                // `mrange m s e [brk|err j]`: visit [s, e); optionally break / fail at the j-th entry
                let (mode, j) = match w.get(4) {
                    Some(md) => (*md, n(5)?),
                    None => ("all", usize::MAX),
                };
                let mut seen = 0usize;
                let mut out = String::new();
                let r: Result<(), ()> = self.maps.get(&n(1)?)?.for_each_range(n(2)?, n(3)?, |k, v| {
                    seen += 1;
                    write!(out, " {k}:{}", vhex(v)).unwrap();
                    if seen == j {
                        match mode {
                            "brk" => return ControlFlow::Break(()),
                            "err" => return ControlFlow::Continue(Err(())),
                            _ => {}
                        }
                    }
                    ControlFlow::Continue(Ok(()))
                });
                format!("{}{}", if r.is_ok() { "ok" } else { "err" }, out)
            }
            "meq" => format!("ok {}", self.maps.get(&n(1)?)? == self.maps.get(&n(2)?)?),
            "mbulk" => {
                let m = self.maps.get(&n(2)?)?.clone();
                match self.colls.get_mut(&n(1)?)? {
                    Handle::L(l) => res_unit(l.bulk_update(m)),
                    Handle::V(_) => return None,
                }
            }
            "pop" => {
                let k = n(2)?;
                match self.colls.get_mut(&n(1)?)? {
                    Handle::L(l) => res_unit(l.pop_front(k)),
                    Handle::V(_) => return None,
                }
            }
            "popslow" => {
                let k = n(2)?;
                match self.colls.get_mut(&n(1)?)? {
                    Handle::L(l) => res_unit(l.pop_front_slow(k)),
                    Handle::V(_) => return None,
                }
            }
            "itercow" => {
                let mode = *w.get(2)?;
                let v = val::<T>(w.get(3)?)?;
                match self.colls.get_mut(&n(1)?)? {
                    Handle::L(l) => {
                        let mut s = "ok".to_string();
                        let mut it = l.iter_cow();
                        while let Some((idx, cow)) = it.next_cow() {
                            write!(s, " {idx}:{}", vhex(&*cow)).unwrap();
                            let hit = match mode {
                                "all" => true,
                                "even" => idx % 2 == 0,
                                "odd" => idx % 2 == 1,
                                "first" => idx == 0,
                                _ => false,
                            };
                            if hit {
                                match cow.into_mut() {
                                    Ok(r) => *r = v.clone(),
                                    Err(e) => return Some(fmt_err(&e)),
                                }
                            }
                        }
                        s
                    }
                    Handle::V(_) => return None,
                }
            }
            "levels" => {
                let i = n(2)?;
                match self.coll(n(1)?)? {
                    Handle::L(l) => match l.level_iter_from(i) {
                        Err(e) => fmt_err(&e),
                        Ok(it) => {
                            let mut s = "ok".to_string();
                            for item in it {
                                match item {
                                    LevelNode::PackedLeaf(v) => write!(s, " P({})", vhex(v)).unwrap(),
                                    LevelNode::Internal(node) => {
                                        let mut vs = vec![];
                                        leaves(node, &mut vs);
                                        let hs: Vec<String> = vs.iter().map(vhex).collect();
                                        write!(s, " I{}({})", vs.len(), hs.join(",")).unwrap();
                                    }
                                }
                            }
                            s
                        }
                    },
                    Handle::V(_) => return None,
                }
            }
            "lvnodes" => {
                let i = n(2)?;
                let t0 = n(3)?;
                let nodes: Result<Vec<Arc<Tree<T>>>, Error> = match self.coll(n(1)?)? {
                    Handle::L(l) => l.level_iter_from(i).map(|it| {
                        it.filter_map(|item| match item {
                            LevelNode::Internal(node) => Some(node.clone()),
                            LevelNode::PackedLeaf(_) => None,
                        })
                        .collect()
                    }),
                    Handle::V(_) => return None,
                };
                match nodes {
                    Err(e) => fmt_err(&e),
                    Ok(nodes) => {
                        let mut s = format!("ok {}", nodes.len());
                        let mut lens = vec![];
                        for (k, node) in nodes.into_iter().enumerate() {
                            write!(s, " {}", node.compute_len()).unwrap();
                            lens.push(node.compute_len());
                            self.trees.insert(t0 + k, node);
                        }
                        self.last_lv = (t0, lens);
                        s
                    }
                }
            }
            "clone" => {
                // `Clone::clone_from` into an existing handle of the same type, `clone` otherwise: the
                // two must mean the same
                let src = self.coll(n(1)?)?.clone();
                let dst = n(2)?;
                match (self.colls.get_mut(&dst), &src) {
                    (Some(Handle::L(d)), Handle::L(sv)) => d.clone_from(sv),
                    (Some(Handle::V(d)), Handle::V(sv)) => d.clone_from(sv),
                    _ => {
                        self.colls.insert(dst, src);
                    }
                }
                "ok".to_string()
            }
            "tovector" => {
                let h2 = n(2)?;
                match self.coll(n(1)?)? {
                    Handle::L(l) => {
                        let r = Vector::try_from(l.clone()).map(Handle::V);
                        self.store(h2, r)
                    }
                    Handle::V(_) => return None,
                }
            }
            "tolist" => {
                let h2 = n(2)?;
                match self.coll(n(1)?)? {
                    Handle::V(v) => {
                        let l = List::from(v.clone());
                        self.store(h2, Ok(Handle::L(l)))
                    }
                    Handle::L(_) => return None,
                }
            }
            "rebase" => {
                let base = self.coll(n(2)?)?.clone();
                match (self.colls.get_mut(&n(1)?)?, &base) {
                    (Handle::L(a), Handle::L(b)) => res_unit(a.rebase_on(b)),
                    (Handle::V(a), Handle::V(b)) => res_unit(a.rebase_on(b)),
                    _ => return None,
                }
            }
            "rebasenew" => {
                let h2 = n(3)?;
                let r = match (self.coll(n(1)?)?, self.coll(n(2)?)?) {
                    (Handle::L(a), Handle::L(b)) => a.rebase(b).map(Handle::L),
                    (Handle::V(a), Handle::V(b)) => a.rebase(b).map(Handle::V),
                    _ => return None,
                };
                self.store(h2, r)
            }
            "intra" => {
                let c = self.colls.get_mut(&n(1)?)?;
                both!(c, x => res_unit(x.intra_rebase()))
            }
            "root" => {
                let c = self.coll(n(1)?)?;
                format!("ok {}", hex(both!(c, x => x.tree_hash_root()).as_slice()))
            }
            "eq" => match (self.coll(n(1)?)?, self.coll(n(2)?)?) {
                (Handle::L(a), Handle::L(b)) => format!("ok {}", a == b),
                (Handle::V(a), Handle::V(b)) => format!("ok {}", a == b),
                _ => return None,
            },
            "ssz" => {
                let c = self.coll(n(1)?)?;
                let (bytes, len) = both!(c, x => (x.as_ssz_bytes(), x.ssz_bytes_len()));
                let s = format!("ok {} len={}", hex(&bytes), len);
                self.last_ssz = bytes;
                s
            }
            "unssz" => {
                let h = n(1)?;
                let bytes = unhex(w.get(3)?)?;
                let r = match *w.get(2)? {
                    "list" => List::<T, N, U>::from_ssz_bytes(&bytes).map(Handle::L),
                    "vec" => Vector::<T, N, U>::from_ssz_bytes(&bytes).map(Handle::V),
                    _ => return None,
                };
                match r {
                    Ok(c) => {
                        self.colls.insert(h, c);
                        "ok".to_string()
                    }
                    Err(_) => "err ssz".to_string(),
                }
            }
            "sszmeta" => {
                // static SSZ metadata of the collection types (Encode and Decode sides)
                match *w.get(1)? {
                    "list" => format!(
                        "ok fixed={} len={} dfixed={} dlen={}",
                        <List<T, N, U> as Encode>::is_ssz_fixed_len(),
                        <List<T, N, U> as Encode>::ssz_fixed_len(),
                        <List<T, N, U> as Decode>::is_ssz_fixed_len(),
                        <List<T, N, U> as Decode>::ssz_fixed_len()
                    ),
                    "vec" => format!(
                        "ok fixed={} len={} dfixed={} dlen={}",
                        <Vector<T, N, U> as Encode>::is_ssz_fixed_len(),
                        <Vector<T, N, U> as Encode>::ssz_fixed_len(),
                        <Vector<T, N, U> as Decode>::is_ssz_fixed_len(),
                        <Vector<T, N, U> as Decode>::ssz_fixed_len()
                    ),
                    _ => return None,
                }
            }
            "unsszprev" => {
                let h = n(1)?;
                let bytes = self.last_ssz.clone();
                let r = match *w.get(2)? {
                    "list" => List::<T, N, U>::from_ssz_bytes(&bytes).map(Handle::L),
                    "vec" => Vector::<T, N, U>::from_ssz_bytes(&bytes).map(Handle::V),
                    _ => return None,
                };
                match r {
                    Ok(c) => {
                        self.colls.insert(h, c);
                        "ok".to_string()
                    }
                    Err(_) => "err ssz".to_string(),
                }
            }
            "sszifok" => {
                // after `drop h; unssz h ..`: if the decode succeeded, re-encoding must give the
                // input bytes back
                let expect = unhex(w.get(2)?)?;
                match self.coll(n(1)?) {
                    None => "none".to_string(),
                    Some(c) => {
                        let bytes = both!(c, x => x.as_ssz_bytes());
                        if bytes == expect {
                            "ok same".to_string()
                        } else {
                            format!("ok differs {}", hex(&bytes))
                        }
                    }
                }
            }
            "wf" => {
                // well-formedness probe: len, number of items iteration yields, and which indexed
                // reads succeed for i in 0..=len+1
                let c = self.coll(n(1)?)?;
                let (len, count, gets) = both!(c, x => {
                    let len = x.len();
                    let count = x.iter().count();
                    let gets: String = (0..=len + 1)
                        .map(|i| if x.get(i).is_some() { '1' } else { '0' })
                        .collect();
                    (len, count, gets)
                });
                format!("ok len={len} count={count} gets={gets}")
            }
            "deprev" => {
                let h = n(1)?;
                let arr = serde_json::Value::Array(
                    self.last_ser
                        .iter()
                        .map(|v| serde_json::to_value(v).expect("element serialises"))
                        .collect(),
                );
                match de_two_ways::<T, N, U>(w.get(2)?, arr)? {
                    Ok(c) => {
                        self.colls.insert(h, c);
                        "ok".to_string()
                    }
                    Err(e) => e,
                }
            }
            "pushnodes" => {
                // `bnew b depth level`, then push every node stored by the last `lvnodes` with the
                // sub-lengths `pop_front` uses (2^level, and the real length for the last one)
                let b = n(1)?;
                let level = n(3)?;
                let mut builder = match Builder::<T>::new(n(2)?, level) {
                    Ok(b) => b,
                    Err(e) => return Some(fmt_err(&e)),
                };
                let (t0, lens) = self.last_lv.clone();
                for (k, real) in lens.iter().enumerate() {
                    let node = self.trees.get(&(t0 + k))?.clone();
                    let len = if k + 1 == lens.len() { *real } else { 1 << level };
                    if let Err(e) = builder.push_node(node, len) {
                        return Some(fmt_err(&e));
                    }
                }
                self.builders.insert(b, builder);
                "ok".to_string()
            }
            "ser" => {
                let c = self.coll(n(1)?)?;
                let value = both!(c, x => serde_json::to_value(x));
                // the text writer uses the length announced to `serialize_seq`; its output must
                // parse back to the same sequence
                let text = both!(c, x => serde_json::to_string(x));
                let reparsed = text
                    .ok()
                    .and_then(|t| serde_json::from_str::<serde_json::Value>(&t).ok());
                if let Ok(v) = &value {
                    if reparsed.as_ref() != Some(v) {
                        return Some("err serde-text-form-differs".to_string());
                    }
                }
                match value {
                    Ok(serde_json::Value::Array(items)) => {
                        let mut s = "ok".to_string();
                        let mut vs = vec![];
                        for item in items {
                            match serde_json::from_value::<T>(item) {
                                Ok(v) => {
                                    write!(s, " {}", vhex(&v)).unwrap();
                                    vs.push(v);
                                }
                                Err(_) => return Some("err serde-element".to_string()),
                            }
                        }
                        self.last_ser = vs;
                        s
                    }
                    Ok(_) => "err serde-not-a-sequence".to_string(),
                    Err(_) => "err serde".to_string(),
                }
            }
            "de" => {
                let h = n(1)?;
                let vs = vals(3)?;
                let arr = serde_json::Value::Array(
                    vs.iter()
                        .map(|v| serde_json::to_value(v).expect("element serialises"))
                        .collect(),
                );
                match de_two_ways::<T, N, U>(w.get(2)?, arr)? {
                    Ok(c) => {
                        self.colls.insert(h, c);
                        "ok".to_string()
                    }
                    Err(e) => e,
                }
            }
            // (`dumpi`: the same observation; the comparer does not hold the model to it)
            "dump" | "dumpi" => {
                let mut st = Dump {
                    seen: HashMap::new(),
                    out: vec![],
                };
                for s in &w[1..] {
                    let c = self.coll(s.parse().ok()?)?;
                    match c {
                        Handle::L(l) => {
                            st.out
                                .push(format!("[{},{}]", l.verif_backing_len(), l.verif_depth()));
                            dump_tree(l.verif_tree(), &mut st);
                        }
                        Handle::V(v) => {
                            st.out.push(format!("[{},{}]", N::to_usize(), v.verif_depth()));
                            dump_tree(v.verif_tree(), &mut st);
                        }
                    }
                }
                format!("ok {}", st.out.join(" "))
            }
            "bnew" => match Builder::<T>::new(n(2)?, n(3)?) {
                Ok(b) => {
                    self.builders.insert(n(1)?, b);
                    "ok".to_string()
                }
                Err(e) => fmt_err(&e),
            },
            "bpush" => {
                let b = n(1)?;
                let v = val::<T>(w.get(2)?)?;
                let r = self.builders.get_mut(&b)?.push(v);
                if r.is_err() {
                    self.builders.remove(&b);
                }
                res_unit(r)
            }
            "bpushnode" => {
                let b = n(1)?;
                let t = self.trees.get(&n(2)?)?.clone();
                let r = self.builders.get_mut(&b)?.push_node(t, n(3)?);
                if r.is_err() {
                    self.builders.remove(&b);
                }
                res_unit(r)
            }
            "bfinish" => {
                let b = self.builders.remove(&n(1)?)?;
                match b.finish() {
                    Ok((tree, depth, len)) => {
                        self.trees.insert(n(2)?, tree);
                        format!("ok depth={} len={}", depth, len.as_usize())
                    }
                    Err(e) => fmt_err(&e),
                }
            }
            "tzero" => {
                self.trees.insert(n(1)?, Tree::zero(n(2)?));
                "ok".to_string()
            }
            "tget" => {
                let t = self.trees.get(&n(1)?)?;
                opt_str(t.get_recursive(n(2)?, n(3)?, pd::<T>()))
            }
            "tlen" => format!("ok {}", self.trees.get(&n(1)?)?.compute_len()),
            "thash" => format!("ok {}", hex(self.trees.get(&n(1)?)?.tree_hash().as_slice())),
            "tupd" => {
                let t = self.trees.get(&n(1)?)?;
                let v = val::<T>(w.get(3)?)?;
                match t.with_updated_leaf(n(2)?, v, n(4)?) {
                    Ok(t2) => {
                        self.trees.insert(n(5)?, t2);
                        "ok".to_string()
                    }
                    Err(e) => fmt_err(&e),
                }
            }
            "teq" => format!(
                "ok {}",
                self.trees.get(&n(1)?)? == self.trees.get(&n(2)?)?
            ),
            "tdump" => {
                let mut st = Dump {
                    seen: HashMap::new(),
                    out: vec![],
                };
                for s in &w[1..] {
                    dump_tree(self.trees.get(&s.parse().ok()?)?, &mut st);
                }
                format!("ok {}", st.out.join(" "))
            }
            "intlog" => format!("ok {}", milhouse::utils::int_log(n(1)?)),
            "complevel" => format!(
                "ok {}",
                milhouse::utils::compute_level(n(1)?, n(2)?, n(3)?)
            ),
            "treeof" => {
                let c = self.coll(n(1)?)?;
                let (t, d) = match c {
                    Handle::L(l) => (l.verif_tree().clone(), l.verif_depth()),
                    Handle::V(v) => (v.verif_tree().clone(), v.verif_depth()),
                };
                self.trees.insert(n(2)?, t);
                format!("ok depth={d}")
            }
            _ => return None,
        })
    }
}

impl<'s, T: Kind, N: Unsigned + Send + Sync, U: UpdateMap<T> + PartialEq + Send + Sync + 'static> Runner
    for Interp<'s, T, N, U>
{
    fn step(&mut self, line: &str) -> String {
        let w: Vec<&str> = line.split_whitespace().collect();
        match catch_unwind(AssertUnwindSafe(|| self.do_step(&w))) {
            Ok(Some(s)) => s,
            Ok(None) => "bad-op".to_string(),
            Err(_) => "panic".to_string(),
        }
    }

    fn conc(&mut self, lines: &[(usize, String)]) -> Vec<String> {
        let nthreads = lines.iter().map(|(t, _)| *t + 1).max().unwrap_or(0);
        let shared = &self.colls;
        let barrier = std::sync::Barrier::new(nthreads);
        let (tx, rx) = std::sync::mpsc::channel::<(usize, Vec<String>)>();
        let mut results: Vec<Option<Vec<String>>> = vec![None; nthreads];
        std::thread::scope(|scope| {
            for t in 0..nthreads {
                let tx = tx.clone();
                let barrier = &barrier;
                let my: Vec<&str> = lines
                    .iter()
                    .filter(|(k, _)| *k == t)
                    .map(|(_, l)| l.as_str())
                    .collect();
                scope.spawn(move || {
                    let mut local: Interp<'_, T, N, U> = Interp {
                        colls: HashMap::new(),
                        trees: HashMap::new(),
                        builders: HashMap::new(),
                        maps: HashMap::new(),
                        shared: Some(shared),
                        last_ssz: vec![],
                        last_ser: vec![],
                        last_lv: (0, vec![]),
                    };
                    barrier.wait();
                    let outs: Vec<String> = my.iter().map(|l| local.step(l)).collect();
                    let _ = tx.send((t, outs));
                });
            }
            drop(tx);
            // watchdog: hashing a few hundred nodes takes microseconds; a thread that has not
            // finished after 60 s is blocked for good.
            let deadline = std::time::Instant::now() + std::time::Duration::from_secs(60);
            let mut got = 0;
            while got < nthreads {
                let left = deadline.saturating_duration_since(std::time::Instant::now());
                match rx.recv_timeout(left) {
                    Ok((t, outs)) => {
                        results[t] = Some(outs);
                        got += 1;
                    }
                    Err(_) => {
                        println!("deadlock");
                        std::io::stdout().flush().ok();
                        std::process::exit(3);
                    }
                }
            }
        });
        let mut cursor = vec![0usize; nthreads];
        lines
            .iter()
            .map(|(t, _)| {
                let r = results[*t].as_ref().expect("thread result")[cursor[*t]].clone();
                cursor[*t] += 1;
                r
            })
            .collect()
    }
}

// ---------------------------------------------------------------------------------------------
// configuration dispatch

macro_rules! maps {
    ($t:ty, $n:ty, $m:expr) => {
        match $m {
            "btree" => Some(Box::new(Interp::<$t, $n, BTreeMap<usize, $t>>::new()) as Box<dyn Runner>),
            "vec" => Some(Box::new(Interp::<$t, $n, VecMap<$t>>::new()) as Box<dyn Runner>),
            "maxvec" => Some(Box::new(Interp::<$t, $n, MaxMap<VecMap<$t>>>::new()) as Box<dyn Runner>),
            // `MaxMap` is generic over the inner map; the model treats this like `maxvec` (same
            // get / insert / range / max_index semantics)
            "maxbtree" => Some(Box::new(Interp::<$t, $n, MaxMap<BTreeMap<usize, $t>>>::new()) as Box<dyn Runner>),
            _ => None,
        }
    };
}

macro_rules! sizes {
    ($t:ty, $n:expr, $m:expr, [$($lit:literal => $ty:ty),* $(,)?]) => {
        match $n {
            $($lit => maps!($t, $ty, $m),)*
            _ => None,
        }
    };
}

use typenum::*;

macro_rules! small_sizes {
    ($t:ty, $n:expr, $m:expr) => {
        sizes!($t, $n, $m, [
            "1" => U1, "2" => U2, "3" => U3, "4" => U4, "5" => U5, "7" => U7, "8" => U8,
            "9" => U9, "16" => U16, "17" => U17, "32" => U32, "33" => U33
        ])
    };
}

macro_rules! big_sizes {
    ($t:ty, $n:expr, $m:expr) => {
        sizes!($t, $n, $m, [
            "1024" => U1024, "1099511627776" => U1099511627776
        ])
    };
}

fn make_runner(kind: &str, n: &str, m: &str) -> Option<Box<dyn Runner>> {
    use alloy_primitives::{U128, U256};
    let small = match kind {
        "u8" => small_sizes!(u8, n, m),
        "u16" => small_sizes!(u16, n, m),
        "u32" => small_sizes!(u32, n, m),
        "u64" => small_sizes!(u64, n, m),
        "u128" => small_sizes!(U128, n, m),
        "u256" => small_sizes!(U256, n, m),
        "h256" => small_sizes!(Hash256, n, m),
        "cont" => small_sizes!(Cont, n, m),
        "nestv" => small_sizes!(NestVElem, n, m),
        "var" => small_sizes!(VarElem, n, m),
        "nest" => sizes!(NestElem, n, m, ["4" => U4, "8" => U8, "9" => U9, "33" => U33, "1024" => U1024]),
        "unit" => sizes!(Unit, n, m, ["1" => U1, "2" => U2, "4" => U4, "5" => U5, "8" => U8]),
        "nest2" => sizes!(Nest2Elem, n, m, ["3" => U3, "4" => U4, "5" => U5, "8" => U8, "9" => U9, "17" => U17]),
        _ => None,
    };
    if small.is_some() {
        return small;
    }
    let big = match kind {
        "u8" => big_sizes!(u8, n, m),
        "u64" => big_sizes!(u64, n, m),
        "u256" => big_sizes!(U256, n, m),
        "h256" => big_sizes!(Hash256, n, m),
        "var" => big_sizes!(VarElem, n, m),
        _ => None,
    };
    if big.is_some() {
        return big;
    }
    // a few extra capacities: packed kinds whose packing factor exceeds the small sizes, and
    // the deepest trees the crate declares (MAX_TREE_DEPTH = 63)
    match (kind, n, m) {
        ("u8", "64", m) => maps!(u8, U64, m),
        ("u8", "100", m) => maps!(u8, U100, m),
        ("u8", "256", m) => maps!(u8, typenum::consts::U256, m),
        ("u16", "64", m) => maps!(u16, U64, m),
        ("u16", "100", m) => maps!(u16, U100, m),
        ("u64", "9223372036854775808", m) => maps!(u64, U9223372036854775808, m),
        ("h256", "9223372036854775808", m) => maps!(Hash256, U9223372036854775808, m),
        ("u64", "1152921504606846976", m) => maps!(u64, U1152921504606846976, m),
        // tree depth exactly 48: the last level covered by the ZERO_HASHES table
        ("u64", "1125899906842624", m) => maps!(u64, U1125899906842624, m),
        ("h256", "281474976710656", m) => maps!(Hash256, U281474976710656, m),
        // large enough to hold several full level-16 subtrees (pop_front at n = k * 65536)
        ("u64", "1048576", m) => maps!(u64, U1048576, m),
        ("h256", "1048576", m) => maps!(Hash256, U1048576, m),
        _ => None,
    }
}

fn main() {
    std::panic::set_hook(Box::new(|_| {}));
    let stdin = std::io::stdin();
    let stdout = std::io::stdout();
    let mut out = std::io::BufWriter::new(stdout.lock());
    let mut runner: Option<Box<dyn Runner>> = None;
    let mut conc_lines: Option<Vec<(usize, String)>> = None;
    for line in stdin.lock().lines() {
        let line = line.expect("stdin");
        let t = line.trim();
        if t.is_empty() || t.starts_with('#') {
            writeln!(out, "#").unwrap();
            continue;
        }
        let w: Vec<&str> = t.split_whitespace().collect();
        if w[0] == "cfg" {
            runner = if w.len() == 4 {
                make_runner(w[1], w[2], w[3])
            } else {
                None
            };
            writeln!(out, "{}", if runner.is_some() { "cfg" } else { "bad-cfg" }).unwrap();
            continue;
        }
        if w[0] == "conc-begin" {
            conc_lines = Some(vec![]);
            writeln!(out, "ok").unwrap();
            continue;
        }
        if w[0] == "conc-end" {
            let lines = conc_lines.take().unwrap_or_default();
            out.flush().unwrap();
            match runner.as_mut() {
                Some(r) => {
                    for o in r.conc(&lines) {
                        writeln!(out, "{o}").unwrap();
                    }
                }
                None => {
                    for _ in &lines {
                        writeln!(out, "no-cfg").unwrap();
                    }
                }
            }
            writeln!(out, "ok").unwrap();
            continue;
        }
        if let Some(buf) = conc_lines.as_mut() {
            // `T <k> <op...>`
            if w.len() >= 3 && w[0] == "T" {
                if let Ok(k) = w[1].parse::<usize>() {
                    buf.push((k, w[2..].join(" ")));
                    continue;
                }
            }
            buf.push((0, "bad".to_string()));
            continue;
        }
        match runner.as_mut() {
            Some(r) => writeln!(out, "{}", r.step(t)).unwrap(),
            None => writeln!(out, "no-cfg").unwrap(),
        }
    }
    out.flush().unwrap();
}
