// F10: SSZ length arithmetic overflows usize for capacities >= 2^61 (8-byte elements).
use milhouse::{List, Vector};
use ssz::{Decode, Encode};
use typenum::{U2305843009213693952, U9223372036854775808};

type BigVec = Vector<u64, U2305843009213693952>; // 2^61
type BigList = List<u64, U9223372036854775808>; // 2^63

#[test]
fn vector_fixed_len_does_not_panic() {
    let r = std::panic::catch_unwind(|| <BigVec as Encode>::ssz_fixed_len());
    assert!(r.is_ok(), "Encode::ssz_fixed_len panicked");
    let r = std::panic::catch_unwind(|| <BigVec as Decode>::ssz_fixed_len());
    assert!(r.is_ok(), "Decode::ssz_fixed_len panicked");
}

#[test]
fn vector_bytes_len_does_not_panic() {
    let v = BigVec::from_elem(7).unwrap();
    let r = std::panic::catch_unwind(std::panic::AssertUnwindSafe(|| v.ssz_bytes_len()));
    assert!(r.is_ok(), "Vector::ssz_bytes_len panicked");
}

#[test]
fn list_bytes_len_does_not_panic() {
    let l = BigList::repeat(7, 1usize << 61).unwrap();
    assert_eq!(l.len(), 1usize << 61);
    let r = std::panic::catch_unwind(std::panic::AssertUnwindSafe(|| l.ssz_bytes_len()));
    assert!(r.is_ok(), "List::ssz_bytes_len panicked");
}
