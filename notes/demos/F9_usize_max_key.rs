// F9: demonstration against the real code (integration test; copy to <milhouse>/tests/ and run
// `cargo test --offline --test F9_usize_max_key`). Fails at ecf9d22, passes at 6a311df.
// The correspondence cannot exhibit it: the model stores MaxMap densely, so the key usize::MAX is
// not executable there; the corner was found by the proof attempt of `C15_bulkUpdate_any`
// (Proofs/BulkAny.lean), whose first version needed the hypothesis "keys < 2^64 - 1".
use milhouse::update_map::MaxMap;
use milhouse::{List, UpdateMap};
use std::collections::BTreeMap;
use typenum::U16;

#[test]
fn usize_max_key_in_maxmap_over_btree() {
    let mut list = List::<u64, U16, MaxMap<BTreeMap<usize, u64>>>::new(vec![1, 2, 3, 4]).unwrap();
    let mut m: MaxMap<BTreeMap<usize, u64>> = Default::default();
    m.get_mut_with(usize::MAX, |_| Some(5));
    let r = list.bulk_update(m);
    assert!(r.is_err(), "accepted: len {} get(MAX) {:?}", list.len(), list.get(usize::MAX));
    assert_eq!(list.get(usize::MAX), None);
}
