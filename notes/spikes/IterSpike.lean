namespace MH
inductive Shape (T : Type) where
  | leaf (v : T) | packed (vs : List T) | node (l r : Shape T) | zero (d : Nat)
deriving DecidableEq, Repr
variable {T : Type}

def tz (i : Nat) : Nat := if h : i = 0 then 0 else if i % 2 = 1 then 0 else 1 + tz (i / 2)
decreasing_by omega

theorem tz_dvd (i : Nat) : 2 ^ tz i ∣ i := by
  induction i using Nat.strongRecOn with
  | _ i ih =>
    unfold tz
    split
    · simp [*]
    · split
      · simp
      · have h2 : i % 2 = 0 := by omega
        have := ih (i / 2) (by omega)
        rw [Nat.pow_add, Nat.pow_one]
        have e : i = 2 * (i / 2) := by omega
        rw [e]
        exact Nat.mul_dvd_mul (Nat.dvd_refl 2) (by simpa using this)

theorem tz_not_dvd (i : Nat) (hi : i ≠ 0) : ¬ 2 ^ (tz i + 1) ∣ i := by
  induction i using Nat.strongRecOn with
  | _ i ih =>
    unfold tz
    simp only [hi, dite_false]
    split
    · intro h; simp at h; omega
    · have h2 : i % 2 = 0 := by omega
      have := ih (i / 2) (by omega) (by omega)
      intro hd
      apply this
      have e : i = 2 * (i / 2) := by omega
      have hp : 2 ^ (1 + tz (i / 2) + 1) = 2 * 2 ^ (tz (i/2) + 1) := by
        rw [show 1 + tz (i / 2) + 1 = (tz (i/2) + 1) + 1 by omega, Nat.pow_succ]; omega
      rw [hp] at hd
      generalize i / 2 = j at *
      subst e
      exact Nat.dvd_of_mul_dvd_mul_left (by decide) hd

/-- i and i+1 agree on all bits strictly above tz (i+1) -/
theorem div_succ_eq (i h : Nat) (hh : tz (i+1) < h) : (i + 1) / 2 ^ h = i / 2 ^ h := by
  have hnd : ¬ 2 ^ h ∣ (i + 1) := by
    intro hd
    apply tz_not_dvd (i+1) (by omega)
    exact Nat.dvd_trans (Nat.pow_dvd_pow 2 (by omega)) hd
  rw [Nat.succ_div]; simp [hnd]

/-- one step down from a node at height h+1 following bit h of i -/
def child (t : Shape T) (h i : Nat) : Shape T :=
  match t with
  | .node l r => if (i / 2 ^ h) % 2 = 0 then l else r
  | t => t

/-- the node reached from `root` (height D) after k steps towards index i -/
def descend (root : Shape T) (D i : Nat) : Nat → Shape T
  | 0 => root
  | k+1 => child (descend root D i k) (D - (k+1)) i

/-- the iterator's stack after k descents: top first -/
def pathStack (root : Shape T) (D i : Nat) : Nat → List (Shape T)
  | 0 => [root]
  | k+1 => descend root D i (k+1) :: pathStack root D i k

theorem pathStack_length (root : Shape T) (D i k) : (pathStack root D i k).length = k + 1 := by
  induction k with
  | zero => rfl
  | succ k ih => simp [pathStack, ih]

theorem pathStack_head (root : Shape T) (D i k) :
    ∃ rest, pathStack root D i k = descend root D i k :: rest := by
  cases k <;> simp [pathStack, descend]

theorem pathStack_drop (root : Shape T) (D i k m) (hm : m ≤ k) :
    (pathStack root D i k).drop m = pathStack root D i (k - m) := by
  induction m generalizing k with
  | zero => simp
  | succ m ih =>
    cases k with
    | zero => omega
    | succ k =>
      simp only [pathStack, List.drop_succ_cons]
      rw [ih k (by omega)]; congr 1; omega

/-- descents that only use bits above tz(i+1) are the same for i and i+1 -/
theorem descend_succ_index (root : Shape T) (D i k : Nat) (hk : tz (i+1) < D - k ∨ k = 0) :
    descend root D (i+1) k = descend root D i k := by
  induction k with
  | zero => rfl
  | succ k ih =>
    have hk' : tz (i+1) < D - (k+1) := by omega
    simp only [descend]
    rw [ih (by omega)]
    unfold child
    split
    · rw [div_succ_eq i _ hk']
    · rfl

theorem pathStack_succ_index (root : Shape T) (D i k : Nat) (hk : tz (i+1) < D - k ∨ k = 0) :
    pathStack root D (i+1) k = pathStack root D i k := by
  induction k with
  | zero => rfl
  | succ k ih =>
    simp only [pathStack]
    rw [descend_succ_index root D i (k+1) hk, ih (by omega)]

structure IterSt (T : Type) where
  stack : List (Shape T)
  index : Nat

/-- transliteration of `Iter::next` (unpacked leaves): iter.rs:43-99 -/
def next (D length : Nat) : Nat → IterSt T → Option T × IterSt T
  | 0, s => (none, s)
  | fuel+1, s =>
    if s.index ≥ length then (none, s) else
    match s.stack with
    | [] => (none, s)
    | .zero _ :: _ => (none, s)
    | .packed _ :: _ => (none, s)
    | .leaf v :: _ => (some v, ⟨s.stack.drop (tz (s.index + 1) + 1), s.index + 1⟩)
    | .node l r :: _ =>
        if (s.index / 2 ^ (D - s.stack.length)) % 2 = 0 then next D length fuel ⟨l :: s.stack, s.index⟩
        else next D length fuel ⟨r :: s.stack, s.index⟩

def getRec : Shape T → Nat → Nat → Option T
  | .leaf v, _, 0 => some v
  | .node l r, i, d+1 => if (i / 2 ^ d) % 2 = 0 then getRec l i d else getRec r i d
  | _, _, _ => none

inductive WF : Shape T → Nat → Prop
  | leaf (v : T) : WF (.leaf v) 0
  | zero (d : Nat) : WF (.zero d) d
  | node {l r : Shape T} {h : Nat} : WF l h → WF r h → WF (.node l r) (h+1)

/-- state invariant: the stack is the path towards `index`, or the walk is over -/
def PathOK (root : Shape T) (D length : Nat) (s : IterSt T) : Prop :=
  (s.stack = [] ∧ length ≤ s.index) ∨ ∃ k, k ≤ D ∧ s.stack = pathStack root D s.index k

theorem next_spec (root : Shape T) (D length : Nat) (hlen : length ≤ 2 ^ D) :
    ∀ (n k fuel : Nat) (s : IterSt T), n = D - k → k ≤ D → n < fuel →
      WF (descend root D s.index k) (D - k) →
      s.stack = pathStack root D s.index k → s.index < length →
      (next D length fuel s).1 = getRec (descend root D s.index k) s.index (D - k) ∧
      ((next D length fuel s).1.isSome →
          (next D length fuel s).2.index = s.index + 1 ∧ PathOK root D length (next D length fuel s).2) := by
  intro n
  induction n with
  | zero =>
    intro k fuel s hn hk hf hwf hst hi
    have hkD : k = D := by omega
    have h0 : D - k = 0 := by omega
    obtain ⟨rest, hrest⟩ := pathStack_head root D s.index k
    cases fuel with
    | zero => omega
    | succ fuel =>
      rw [h0] at hwf ⊢
      generalize htop : descend root D s.index k = top at hwf hrest
      cases hwf with
      | zero =>
        simp [next, Nat.not_le.mpr hi, hst, hrest, getRec]
      | leaf v =>
        have : (next D length (fuel+1) s) = (some v, ⟨s.stack.drop (tz (s.index + 1) + 1), s.index + 1⟩) := by
          simp [next, Nat.not_le.mpr hi, hst, hrest]
        rw [this]
        refine ⟨by simp [getRec], fun _ => ⟨rfl, ?_⟩⟩
        by_cases hcase : tz (s.index + 1) + 1 ≤ D
        · right
          refine ⟨D - (tz (s.index + 1) + 1), by omega, ?_⟩
          show s.stack.drop _ = _
          rw [hst, hkD, pathStack_drop _ _ _ _ _ hcase, pathStack_succ_index]
          omega
        · left
          refine ⟨?_, ?_⟩
          · show s.stack.drop _ = []
            apply List.drop_eq_nil_of_le
            rw [hst, pathStack_length]; omega
          · show length ≤ s.index + 1
            have hd := tz_dvd (s.index + 1)
            have : 2 ^ D ∣ s.index + 1 := Nat.dvd_trans (Nat.pow_dvd_pow 2 (by omega)) hd
            have := Nat.le_of_dvd (by omega) this
            omega
  | succ n ih =>
    intro k fuel s hn hk hf hwf hst hi
    obtain ⟨rest, hrest⟩ := pathStack_head root D s.index k
    cases fuel with
    | zero => omega
    | succ fuel =>
      have hDk : D - k = (D - (k+1)) + 1 := by omega
      generalize htop : descend root D s.index k = top at hwf hrest
      rw [hDk] at hwf ⊢
      cases hwf with
      | zero =>
        simp [next, Nat.not_le.mpr hi, hst, hrest, getRec]
      | @node l r _ hl hr =>
        have hrl : rest.length = k := by
          have := congrArg List.length hrest
          rw [pathStack_length] at this; simpa using this.symm
        have hchild : descend root D s.index (k+1) = if (s.index / 2 ^ (D - (k+1))) % 2 = 0 then l else r := by
          simp [descend, htop, child]
        by_cases hb : (s.index / 2 ^ (D - (k+1))) % 2 = 0
        · have hstep : next D length (fuel+1) s = next D length fuel ⟨l :: s.stack, s.index⟩ := by
            simp [next, Nat.not_le.mpr hi, hst, hrest, hrl, hb]
          rw [hstep]
          have := ih (k+1) fuel ⟨l :: s.stack, s.index⟩ (by omega) (by omega) (by omega)
            (by simp only [hchild, hb, if_true]; exact hl)
            (by simp only [pathStack, hchild, hb, if_true, hst]) hi
          simp only [hchild, hb, if_true] at this
          simpa [getRec, hb] using this
        · have hstep : next D length (fuel+1) s = next D length fuel ⟨r :: s.stack, s.index⟩ := by
            simp [next, Nat.not_le.mpr hi, hst, hrest, hrl, hb]
          rw [hstep]
          have := ih (k+1) fuel ⟨r :: s.stack, s.index⟩ (by omega) (by omega) (by omega)
            (by simp only [hchild, hb, if_false]; exact hr)
            (by simp only [pathStack, hchild, hb, if_false, hst]) hi
          simp only [hchild, hb, if_false] at this
          simpa [getRec, hb] using this
end MH
