/-! Calibration spike (design phase): interleaving model of memoised tree hashing (C16). -/
namespace MHConc

variable {T H : Type}

inductive Tree (T : Type) where
  | leaf (id : Nat) (v : T)
  | node (id : Nat) (l r : Tree T)
  | zero (d : Nat)

structure Alg (T H : Type) where
  zero : H
  h2 : H → H → H
  leafHash : T → H
  zeroHash : Nat → H

def trueHash (A : Alg T H) : Tree T → H
  | .leaf _ v => A.leafHash v
  | .node _ l r => A.h2 (trueHash A l) (trueHash A r)
  | .zero d => A.zeroHash d

def size : Tree T → Nat
  | .leaf _ _ => 1
  | .node _ l r => size l + size r + 1
  | .zero _ => 1

/-- a suspended `tree_hash` call -/
inductive Task (T H : Type) where
  | visit (t : Tree T)                       -- about to read the memo of `t`
  | join (id : Nat) (l r : Task T H)         -- rayon::join on the children, then hash and write
  | wr (id : Nat) (v : H)                    -- about to write `v` into memo[id]
  | fin (v : H)

abbrev Memo (H : Type) := Nat → H

/-- positions inside a task at which a step may be taken -/
inductive Pos where
  | here | left (p : Pos) | right (p : Pos)

variable [DecidableEq H]

/-- one atomic step (exactly one memo read or one memo write) at position `p`;
    `none` when no step is enabled there -/
def step (A : Alg T H) (m : Memo H) : Task T H → Pos → Option (Memo H × Task T H)
  | .visit (.zero d), .here => some (m, .fin (A.zeroHash d))
  | .visit (.leaf id v), .here =>
      if m id ≠ A.zero then some (m, .fin (m id)) else some (m, .wr id (A.leafHash v))
  | .visit (.node id l r), .here =>
      if m id ≠ A.zero then some (m, .fin (m id)) else some (m, .join id (.visit l) (.visit r))
  | .wr id v, .here => some (fun i => if i = id then v else m i, .fin v)
  | .join id (.fin a) (.fin b), .here => some (m, .wr id (A.h2 a b))
  | .join id l r, .left p => (step A m l p).map fun (m', l') => (m', .join id l' r)
  | .join id l r, .right p => (step A m r p).map fun (m', r') => (m', .join id l r')
  | _, _ => none

/-- every occurrence of an id carries the same subtree, given by `cell` -/
def IdOK (cell : Nat → Option (Tree T)) : Tree T → Prop
  | .leaf id v => cell id = some (.leaf id v)
  | .node id l r => cell id = some (.node id l r) ∧ IdOK cell l ∧ IdOK cell r
  | .zero _ => True

/-- every non-zero memo is the true hash of the node that owns the id -/
def MemoOK (A : Alg T H) (cell : Nat → Option (Tree T)) (m : Memo H) : Prop :=
  ∀ id t, cell id = some t → m id = A.zero ∨ m id = trueHash A t

/-- `task` is an in-flight computation of the hash of `t` -/
def TaskOK (A : Alg T H) (cell : Nat → Option (Tree T)) : Task T H → Tree T → Prop
  | .visit t', t => t' = t ∧ IdOK cell t
  | .join id l r, .node id' tl tr => id = id' ∧ cell id = some (.node id tl tr) ∧ TaskOK A cell l tl ∧ TaskOK A cell r tr
  | .join _ _ _, _ => False
  | .wr id v, t => cell id = some t ∧ v = trueHash A t
  | .fin v, t => v = trueHash A t

def mu : Task T H → Nat
  | .visit t => 3 * size t
  | .join _ l r => mu l + mu r + 2
  | .wr _ _ => 1
  | .fin _ => 0

theorem step_sound (A : Alg T H) (cell : Nat → Option (Tree T)) :
    ∀ (task : Task T H) (t : Tree T) (p : Pos) (m m' : Memo H) (task' : Task T H),
      MemoOK A cell m → TaskOK A cell task t → step A m task p = some (m', task') →
      MemoOK A cell m' ∧ TaskOK A cell task' t ∧ mu task' < mu task := by
  intro task
  induction task with
  | visit t' =>
    intro t p m m' task' hm hok hs
    obtain ⟨rfl, hid⟩ := hok
    cases p with
    | here =>
      cases t' with
      | zero d => simp [step] at hs; obtain ⟨rfl, rfl⟩ := hs; simp [TaskOK, trueHash, mu, size, hm]
      | leaf id v =>
        simp only [step] at hs
        have hc : cell id = some (.leaf id v) := hid
        split at hs
        · simp at hs; obtain ⟨rfl, rfl⟩ := hs
          rename_i hne
          rcases hm id _ hc with h0 | h1
          · exact absurd h0 hne
          · simp [TaskOK, mu, size, hm, h1]
        · simp at hs; obtain ⟨rfl, rfl⟩ := hs
          simp [TaskOK, mu, size, hm, hc, trueHash]
      | node id l r =>
        simp only [step] at hs
        obtain ⟨hc, hl, hr⟩ := hid
        split at hs
        · simp at hs; obtain ⟨rfl, rfl⟩ := hs
          rename_i hne
          rcases hm id _ hc with h0 | h1
          · exact absurd h0 hne
          · simp [TaskOK, mu, size, hm, h1]
        · simp at hs; obtain ⟨rfl, rfl⟩ := hs
          refine ⟨hm, ⟨rfl, hc, ⟨rfl, hl⟩, ⟨rfl, hr⟩⟩, ?_⟩
          simp [mu, size]; omega
    | left p => simp [step] at hs
    | right p => simp [step] at hs
  | wr id v =>
    intro t p m m' task' hm hok hs
    obtain ⟨hc, rfl⟩ := hok
    cases p with
    | here =>
      simp [step] at hs; obtain ⟨rfl, rfl⟩ := hs
      refine ⟨?_, by simp [TaskOK], by simp [mu]⟩
      intro id' t' hc'
      by_cases h : id' = id
      · subst h; rw [hc] at hc'; cases hc'; simp
      · simp [h]; exact hm id' t' hc'
    | left p => simp [step] at hs
    | right p => simp [step] at hs
  | fin v =>
    intro t p m m' task' hm hok hs
    cases p <;> simp [step] at hs
  | join id l r ihl ihr =>
    intro t p m m' task' hm hok hs
    cases t with
    | leaf _ _ => simp [TaskOK] at hok
    | zero _ => simp [TaskOK] at hok
    | node id' tl tr =>
      obtain ⟨rfl, hc, hl, hr⟩ := hok
      cases p with
      | here =>
        cases l <;> cases r <;> simp [step] at hs
        rename_i a b
        obtain ⟨rfl, rfl⟩ := hs
        simp only [TaskOK] at hl hr
        subst hl hr
        exact ⟨hm, ⟨hc, rfl⟩, by simp [mu]⟩
      | left p =>
        simp only [step, Option.map_eq_some_iff] at hs
        obtain ⟨⟨m1, l1⟩, hs1, heq⟩ := hs
        simp at heq; obtain ⟨rfl, rfl⟩ := heq
        obtain ⟨hm', hl', hmu⟩ := ihl tl p m m1 l1 hm hl hs1
        refine ⟨hm', ⟨rfl, hc, hl', ?_⟩, by simp [mu]; omega⟩
        exact hr
      | right p =>
        simp only [step, Option.map_eq_some_iff] at hs
        obtain ⟨⟨m1, r1⟩, hs1, heq⟩ := hs
        simp at heq; obtain ⟨rfl, rfl⟩ := heq
        obtain ⟨hm', hr', hmu⟩ := ihr tr p m m1 r1 hm hr hs1
        refine ⟨hm', ⟨rfl, hc, ?_, hr'⟩, by simp [mu]; omega⟩
        exact hl
end MHConc
