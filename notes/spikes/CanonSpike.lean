/-! Calibration spike (design phase): canonical tree and indexed read, packed and unpacked. -/
namespace MHCanon

inductive Shape (T : Type) where
  | leaf (v : T) | packed (vs : List T) | node (l r : Shape T) | zero (d : Nat)
deriving DecidableEq, Repr

variable {T : Type}

/-- number of elements under one depth-0 node -/
def lcap (pf : Option Nat) : Nat := pf.getD 1
/-- element capacity of a subtree of depth d -/
def cap (pf : Option Nat) (d : Nat) : Nat := 2 ^ d * lcap pf

def canon (pf : Option Nat) : Nat → List T → Shape T
  | 0, xs => match xs with
     | [] => .zero 0
     | x :: rest => match pf with
        | none => .leaf x
        | some _ => .packed (x :: rest)
  | d+1, xs => match xs with
     | [] => .zero (d+1)
     | _ :: _ => .node (canon pf d (xs.take (cap pf d))) (canon pf d (xs.drop (cap pf d)))

/-- transliteration of Tree::get_recursive (tree.rs:85-104); `>>`/`&` as `/`/`%` -/
def getRec (pf : Option Nat) : Shape T → Nat → Nat → Option T
  | .leaf v, _, 0 => some v
  | .packed vs, i, 0 => vs[i % lcap pf]?
  | .node l r, i, d+1 =>
      if (i / cap pf d) % 2 = 0 then getRec pf l i d else getRec pf r i d
  | _, _, _ => none

theorem cap_pos (pf : Option Nat) (h : ∀ p, pf = some p → 0 < p) (d : Nat) : 0 < cap pf d := by
  unfold cap lcap
  cases pf with
  | none => simp; exact Nat.pow_pos (by decide)
  | some p => have := h p rfl; simp; exact Nat.mul_pos (Nat.pow_pos (by decide)) this

theorem cap_succ (pf : Option Nat) (d : Nat) : cap pf (d+1) = 2 * cap pf d := by
  unfold cap; rw [Nat.pow_succ]; ac_rfl

/-- reading the canonical tree = reading the list; the code passes the same index down and
    only looks at its low bits, hence the `%`. -/
theorem getRec_canon (pf : Option Nat) (hpf : ∀ p, pf = some p → 0 < p) :
    ∀ (d : Nat) (xs : List T) (i : Nat), xs.length ≤ cap pf d →
      getRec pf (canon pf d xs) i d = xs[i % cap pf d]? := by
  intro d
  induction d with
  | zero =>
    intro xs i hlen
    cases xs with
    | nil => simp [canon, getRec]
    | cons x rest =>
      cases pf with
      | none =>
        simp [cap, lcap] at hlen
        subst hlen
        simp [canon, getRec, cap, lcap, Nat.mod_one]
      | some p =>
        simp [canon, getRec, lcap, cap]
  | succ d ih =>
    intro xs i hlen
    have hc := cap_pos pf hpf d
    rw [cap_succ] at hlen
    cases xs with
    | nil => simp [canon, getRec]
    | cons x rest =>
      simp only [canon, getRec]
      have hmod : i % cap pf (d+1) = (i / cap pf d % 2) * cap pf d + i % cap pf d := by
        rw [cap_succ, Nat.mul_comm 2, Nat.mod_mul]; ac_rfl
      rcases Nat.mod_two_eq_zero_or_one (i / cap pf d) with h0 | h1
      · simp only [h0, if_true]
        rw [ih _ _ (by simp only [List.length_take]; omega)]
        have hlt := Nat.mod_lt i hc
        rw [hmod, h0]; simp [hlt]
      · simp only [h1, show (1 = 0) = False by decide, if_false]
        rw [ih _ _ (by simp only [List.length_drop, List.length_cons] at *; omega)]
        rw [hmod, h1]; simp [List.getElem?_drop]
end MHCanon
